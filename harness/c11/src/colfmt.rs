//! Whole-colour component-format conversion of the hue-bearing colour types: `into_format` /
//! `from_format` of Hsl, Hsv, Hwb, Okhsl, Okhsv, Okhwb and their Alpha forms must convert the hue
//! *as an angle* — exactly like the hue type's own `into_format`, which the other sub-checks hold
//! against the exact 8-bit / float oracle — and the other components as stimuli.
//! Space: all 256 8-bit hue codes × 3 component pairs → f32, f64 (and u8); a float hue lattice
//! (every half step of the 256-circle over ±4 turns: all code centres and all ties, the special
//! angles and whole-turn shifts) × 4 component pairs → u8 and the other float type.
use palette::encoding::Srgb;
use palette::hues::{OklabHue, RgbHue};
use palette::stimulus::FromStimulus;
use palette::{Alpha, Hsl, Hsv, Hwb, Okhsl, Okhsv, Okhwb};
use pv::fl::Fl;
use pv::{json, Collector, Ctx};

fn float_hues<T: Fl>() -> Vec<T> {
    let mut v = vec![];
    for k in -2048i32..=2048 {
        v.push(T::from64(k as f64 * 360.0 / 512.0));
    }
    for x in [1e-6, -1e-6, 359.999, 360.001, 719.0, -719.0, 1e6, -1e6, 123456.789, 0.7, 1.40625, 179.3, -179.3, 255.0, 256.0, 0.5, 1.0] {
        v.push(T::from64(x));
    }
    v
}

macro_rules! one_colour {
    ($c:expr, $st:expr, $name:literal, $T:ty, $O:ty, $Hue:ident, [$($pre:ty),*], $C:ident, has_from: $hf:tt) => {{
        type CT = $C<$($pre,)* $T>;
        type CO = $C<$($pre,)* $O>;
        type C8 = $C<$($pre,)* u8>;
        let tn = <$T as Fl>::NAME;
        let sig = |form: &str, what: &str| format!("C11/colour-format/{}<{}>::{}/{}", $name, tn, form, what);
        // (a) 8-bit colour -> float colour
        for code in 0..=255u8 {
            for (p, q) in [(0u8, 0u8), (255, 255), (128, 37)] {
                let want_h = $Hue::<u8>::new(code).into_format::<$T>().into_inner();
                let (wp, wq) = (<$T>::from_stimulus(p), <$T>::from_stimulus(q));
                let mk = |form: &str, got: [$T; 3]| json!({"sub": "colour-format", "type": $name, "ty": tn, "form": form, "input": {"hue_code": code, "components": [p, q]}, "observed": [got[0].to64(), got[1].to64(), got[2].to64()], "expected": [want_h.to64(), wp.to64(), wq.to64()]});
                let mut outs: Vec<(&str, [$T; 3])> = vec![];
                let mut judge = |form: &'static str, got: [$T; 3]| outs.push((form, got));
                let src = C8::new_const($Hue::new(code), p, q);
                let a: CT = src.into_format();
                judge("into_format", palette::cast::into_array(a));
                one_colour!(@from $hf, { let b: CT = CT::from_format(src); judge("from_format", palette::cast::into_array(b)); });
                let sa: Alpha<C8, u8> = Alpha { color: src, alpha: q };
                let aa: Alpha<CT, $T> = sa.into_format();
                judge("Alpha::into_format", palette::cast::into_array(aa.color));
                if aa.alpha.bits64() != wq.bits64() {
                    $c.violation(&sig("Alpha::into_format", "u8->float/alpha"), 1.0, || mk("Alpha::into_format", [aa.alpha, aa.alpha, aa.alpha]));
                }
                let ab: Alpha<CT, $T> = Alpha::<CT, $T>::from_format(sa);
                judge("Alpha::from_format", palette::cast::into_array(ab.color));
                for (form, got) in outs {
                    $st += 1;
                    if got[0].bits64() != want_h.bits64() {
                        $c.violation(&sig(form, "u8->float/hue"), (got[0].to64() - want_h.to64()).abs().max(1e-300), || mk(form, got));
                    }
                    if got[1].bits64() != wp.bits64() || got[2].bits64() != wq.bits64() {
                        $c.violation(&sig(form, "u8->float/component"), 1.0, || mk(form, got));
                    }
                    $c.outcome(pv::splitmix(got[0].bits64() ^ (code as u64) << 40));
                }
                // identity format
                let same: C8 = src.into_format();
                let s3: [u8; 3] = palette::cast::into_array(same);
                $st += 1;
                if s3 != [code, p, q] {
                    $c.violation(&sig("into_format", "u8->u8/identity"), 1.0, || json!({"sub": "colour-format", "type": $name, "ty": "u8", "input": [code, p, q], "observed": s3, "expected": [code, p, q]}));
                }
            }
        }
        // (b) float colour -> 8-bit colour and -> the other float type
        for h in float_hues::<$T>() {
            for (p, q) in [(0.0, 0.0), (1.0, 1.0), (0.5, 0.25), (0.999, 0.001)] {
                let (p, q) = (p as $T, q as $T);
                let src = CT::new_const($Hue::new(h), p, q);
                let want8 = [$Hue::<$T>::new(h).into_format::<u8>().into_inner(), u8::from_stimulus(p), u8::from_stimulus(q)];
                let mk8 = |form: &str, got: [u8; 3]| json!({"sub": "colour-format", "type": $name, "ty": tn, "form": form, "input": {"hue": h.to64(), "hue_bits": format!("{:#x}", h.bits64()), "components": [p.to64(), q.to64()]}, "observed": got, "expected": want8});
                let mut outs8: Vec<(&str, [u8; 3])> = vec![];
                let mut judge8 = |form: &'static str, got: [u8; 3]| outs8.push((form, got));
                let a: C8 = src.into_format();
                judge8("into_format", palette::cast::into_array(a));
                one_colour!(@from $hf, { let b: C8 = C8::from_format(src); judge8("from_format", palette::cast::into_array(b)); });
                let sa: Alpha<CT, $T> = Alpha { color: src, alpha: q };
                let aa: Alpha<C8, u8> = sa.into_format();
                judge8("Alpha::into_format", palette::cast::into_array(aa.color));
                if aa.alpha != want8[2] {
                    $c.violation(&sig("Alpha::into_format", "float->u8/alpha"), 1.0, || mk8("Alpha::into_format", [aa.alpha, aa.alpha, aa.alpha]));
                }
                let ab: Alpha<C8, u8> = Alpha::<C8, u8>::from_format(sa);
                judge8("Alpha::from_format", palette::cast::into_array(ab.color));
                for (form, got) in outs8 {
                    $st += 1;
                    if got[0] != want8[0] {
                        $c.violation(&sig(form, "float->u8/hue"), 1.0, || mk8(form, got));
                    }
                    if got[1..] != want8[1..] {
                        $c.violation(&sig(form, "float->u8/component"), 1.0, || mk8(form, got));
                    }
                    $c.outcome(pv::splitmix(got[0] as u64 ^ h.bits64().rotate_left(9)));
                }
                // other float type
                let wo = [$Hue::<$T>::new(h).into_format::<$O>().into_inner(), <$O>::from_stimulus(p), <$O>::from_stimulus(q)];
                let o: CO = src.into_format();
                let o3: [$O; 3] = palette::cast::into_array(o);
                let oa: Alpha<CO, $O> = sa.into_format();
                let oa3: [$O; 3] = palette::cast::into_array(oa.color);
                $st += 2;
                for (form, g) in [("into_format", o3), ("Alpha::into_format", oa3)] {
                    if (0..3).any(|i| g[i].bits64() != wo[i].bits64()) {
                        $c.violation(&sig(form, "float->float"), 1.0, || json!({"sub": "colour-format", "type": $name, "ty": tn, "form": form, "input": {"hue": h.to64(), "components": [p.to64(), q.to64()]}, "observed": [g[0].to64(), g[1].to64(), g[2].to64()], "expected": [wo[0].to64(), wo[1].to64(), wo[2].to64()]}));
                    }
                }
            }
        }
    }};
    (@from yes, $b:block) => { $b };
    (@from no, $b:block) => {};
}

macro_rules! all_colours {
    ($c:expr, $st:expr, $T:ty, $O:ty) => {{
        one_colour!($c, $st, "Hsl", $T, $O, RgbHue, [Srgb], Hsl, has_from: yes);
        one_colour!($c, $st, "Hsv", $T, $O, RgbHue, [Srgb], Hsv, has_from: yes);
        one_colour!($c, $st, "Hwb", $T, $O, RgbHue, [Srgb], Hwb, has_from: yes);
        one_colour!($c, $st, "Okhsl", $T, $O, OklabHue, [], Okhsl, has_from: yes);
        one_colour!($c, $st, "Okhsv", $T, $O, OklabHue, [], Okhsv, has_from: no);
        one_colour!($c, $st, "Okhwb", $T, $O, OklabHue, [], Okhwb, has_from: no);
    }};
}

pub fn run(ctx: &Ctx, total: &mut Collector) {
    for ty in ["f32", "f64"] {
        let sub = format!("colour-format/{ty}");
        if !ctx.wants(&sub) {
            continue;
        }
        let mut c = Collector::new();
        let mut st = 0u64;
        if ty == "f32" {
            all_colours!(c, st, f32, f64);
        } else {
            all_colours!(c, st, f64, f32);
        }
        c.add(&sub, st, st, st, st);
        total.merge(c);
        total.exhaustive(&sub, true, "Hsl, Hsv, Hwb, Okhsl, Okhsv, Okhwb (Srgb standard) x {into_format, from_format where offered, Alpha::into_format, Alpha::from_format}: all 256 8-bit hue codes x 3 component pairs -> float and -> u8 (identity); 4114 float hues (every half step of the 256-circle over +-4 turns = all code centres and rounding ties, special and large angles) x 4 component pairs -> u8 and -> the other float type; hue compared bit for bit with the hue type's own into_format (held to the exact oracle by the other sub-checks), other components and alpha with FromStimulus");
    }
}
