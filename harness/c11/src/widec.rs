//! SIMD lanes (angle/wide.rs): the normal forms of Hue<f32x4|f32x8|f64x2|f64x4> obey the same
//! range/congruence oracle in every lane.
use crate::oracle::*;
use crate::subs::special_points;
use palette::hues::{Cam16Hue, LabHue, LuvHue, OklabHue, RgbHue};
use pv::fl::{f32_from_ord, Fl};
use pv::{json, Collector, Ctx, Value};
use wide::{f32x4, f32x8, f64x2, f64x4};

fn lane_check<T: Fl>(c: &mut Collector, site: &str, hue: &str, wty: &str, lanes: &[T], lane: usize, s: T, u: T, raw: T, ratio: &mut f64) {
    let x = lanes[lane];
    let (x64, s64, p64) = (x.to64(), s.to64(), u.to64());
    let tol = ulp_of(x) + u360::<T>();
    let ex_s = if s64 > 180.0 { s64 - 180.0 } else if s64 < -180.0 { -180.0 - s64 } else if s64.is_nan() { f64::NAN } else { 0.0 };
    let ex_u = if p64 > 360.0 { p64 - 360.0 } else if p64 < 0.0 { -p64 } else if p64.is_nan() { f64::NAN } else { 0.0 };
    let cg_s = circ_diff(s64, x64).abs();
    let cg_u = circ_diff(p64, x64).abs();
    let mk = |check: &str, f: &str, obs: f64| -> Value {
        json!({"sub": "wide", "hue": hue, "ty": wty, "input": lanes.iter().map(|v| hx(*v)).collect::<Vec<_>>(), "lane": lane, "value": x64, "check": check, "fn": f, "observed": pv::report::fnum(obs), "expected": {"tol": tol}})
    };
    let bound = tol * GUARD;
    let cls = class_of(x);
    if !(ex_s <= bound) {
        c.violation(&format!("C11/normal-form-range/{site}::into_degrees/{cls}"), ex_s, || mk("range [-180,180]", "into_degrees", s64));
    }
    if !(ex_u <= bound) {
        c.violation(&format!("C11/normal-form-range/{site}::into_positive_degrees/{cls}"), ex_u, || mk("range [0,360]", "into_positive_degrees", p64));
    }
    if !(cg_s <= bound) {
        c.violation(&format!("C11/normal-form-congruent/{site}::into_degrees/{cls}"), cg_s, || mk("congruent", "into_degrees", s64));
    }
    if !(cg_u <= bound) {
        c.violation(&format!("C11/normal-form-congruent/{site}::into_positive_degrees/{cls}"), cg_u, || mk("congruent", "into_positive_degrees", p64));
    }
    if raw.bits64() != x.bits64() {
        c.violation(&format!("C11/raw-accessor/{site}::into_raw_degrees/{cls}"), 1.0, || mk("raw", "into_raw_degrees", raw.to64()));
    }
    let r = ex_s.max(ex_u).max(cg_s).max(cg_u) / tol;
    if r > *ratio {
        *ratio = r;
    }
}

macro_rules! wide_fn {
    ($fname:ident, $w:ident, $s:ident, $n:expr) => {
        /// pts.len() must be a multiple of the lane count
        pub fn $fname(c: &mut Collector, hue: &str, pts: &[$s]) -> (u64, f64) {
            let mut ratio = 0.0;
            let mut n = 0u64;
            let site = format!("{}<{}>", hue, stringify!($w));
            for ch in pts.chunks_exact($n) {
                let mut arr = [0 as $s; $n];
                arr.copy_from_slice(ch);
                macro_rules! go {
                    ($h:ident) => {{
                        let h = $h::<$w>::new($w::from(arr));
                        (h.into_degrees().to_array(), h.into_positive_degrees().to_array(), h.into_raw_degrees().to_array())
                    }};
                }
                let r = pv::catch(|| match hue {
                    "RgbHue" => go!(RgbHue),
                    "LabHue" => go!(LabHue),
                    "LuvHue" => go!(LuvHue),
                    "OklabHue" => go!(OklabHue),
                    _ => go!(Cam16Hue),
                });
                match r {
                    Ok((s, u, raw)) => {
                        for lane in 0..$n {
                            lane_check::<$s>(c, &site, hue, stringify!($w), &arr, lane, s[lane], u[lane], raw[lane], &mut ratio);
                            n += 1;
                        }
                        if n % 1021 < $n {
                            c.outcome(s[0].to_bits() as u64 ^ ((u[$n - 1].to_bits() as u64) << 1));
                        }
                    }
                    Err(msg) => c.violation(&format!("C11/panic/{site}"), 1.0, || json!({"sub": "wide", "hue": hue, "ty": stringify!($w), "input": arr.iter().map(|v| hx(*v)).collect::<Vec<_>>(), "observed": {"panic": msg}, "expected": "no panic"})),
                }
            }
            (n, ratio)
        }
    };
}
wide_fn!(run_f32x4, f32x4, f32, 4);
wide_fn!(run_f32x8, f32x8, f32, 8);
wide_fn!(run_f64x2, f64x2, f64, 2);
wide_fn!(run_f64x4, f64x4, f64, 4);

fn pad<T: Copy>(mut v: Vec<T>, n: usize) -> Vec<T> {
    while v.len() % n != 0 {
        v.push(v[v.len() - 1]);
    }
    v
}

pub fn wide_lanes(ctx: &Ctx, total: &mut Collector) {
    let stride: u64 = ctx.tier.pick(4099, 257);
    let per_side = crate::walk::per_side();
    // strided f32 walk values (both signs) + special points
    let mut p32: Vec<f32> = special_points::<f32>();
    let mut q = 0u64;
    while q < per_side {
        p32.push(f32_from_ord(crate::walk::MID_POS + q as u32));
        p32.push(f32_from_ord(crate::walk::MID_NEG - q as u32));
        q += stride;
    }
    let mut p64: Vec<f64> = special_points::<f64>();
    p64.extend(p32.iter().step_by(4).map(|v| *v as f64));
    let p32 = pad(p32, 8);
    let p64 = pad(p64, 4);
    for hue in crate::ops::HUES {
        for wty in ["f32x4", "f32x8", "f64x2", "f64x4"] {
            let sub = format!("wide-lanes/{hue}<{wty}>");
            if !ctx.wants(&sub) {
                continue;
            }
            let is32 = wty.starts_with("f32");
            let len = if is32 { p32.len() } else { p64.len() };
            let per = 1 << 16;
            let nch = (len + per - 1) / per;
            let outs = pv::par::map_chunks(nch, |ci| {
                let mut c = Collector::new();
                let (a, b) = (ci * per, ((ci + 1) * per).min(len));
                let r = match wty {
                    "f32x4" => run_f32x4(&mut c, hue, &p32[a..b]),
                    "f32x8" => run_f32x8(&mut c, hue, &p32[a..b]),
                    "f64x2" => run_f64x2(&mut c, hue, &p64[a..b]),
                    _ => run_f64x4(&mut c, hue, &p64[a..b]),
                };
                (c, r)
            });
            let mut c = Collector::new();
            let (mut n, mut ratio) = (0u64, 0.0f64);
            for (cc, (nn, rr)) in outs {
                c.merge(cc);
                n += nn;
                ratio = ratio.max(rr);
            }
            c.add(&sub, n, 3 * n, 5 * n, n);
            c.ratio(&sub, ratio, || json!({"hue": hue, "ty": wty}));
            c.exhaustive(&sub, true, &format!("every {stride}th f32 bit pattern with |x| <= 2^20 (both signs; a quarter of them for the f64 vectors) + the special points of the scalar type, packed into lanes: range and congruence of both normal forms per lane, raw accessor"));
            total.merge(c);
        }
    }
}

/// replay of one vector
pub fn replay_wide(c: &mut Collector, hue: &str, wty: &str, bits: &[u64]) {
    match wty {
        "f32x4" | "f32x8" => {
            let v: Vec<f32> = bits.iter().map(|b| f32::from_bits(*b as u32)).collect();
            if wty == "f32x4" { run_f32x4(c, hue, &v) } else { run_f32x8(c, hue, &v) };
        }
        _ => {
            let v: Vec<f64> = bits.iter().map(|b| f64::from_bits(*b)).collect();
            if wty == "f64x2" { run_f64x2(c, hue, &v) } else { run_f64x4(c, hue, &v) };
        }
    }
}

// ---------------------------------------------------------------------------------------
// whole-turn equality on SIMD lanes (angle/wide.rs AngleEq): x and x + 360 k are equal whenever the
// shifted angle is exactly representable, x and x + d (d clearly more than rounding error, not a
// multiple of 360) are unequal

macro_rules! eq_fn {
    ($fname:ident, $w:ident, $s:ident, $n:expr) => {
        fn $fname(c: &mut Collector, xs: &[$s]) -> u64 {
            use palette::angle::AngleEq;
            let wty = stringify!($w);
            let ks: [i64; 12] = [1, -1, 2, -2, 3, -3, 5, -5, 10, -11, 27, -100];
            let mut n = 0u64;
            // lanes: consecutive xs, all with the same k (so every lane holds another angle)
            for start in 0..xs.len() {
                let lane_x: Vec<$s> = (0..$n).map(|j| xs[(start + j) % xs.len()]).collect();
                for &k in &ks {
                    let shifted: Vec<f64> = lane_x.iter().map(|x| *x as f64 + 360.0 * k as f64).collect();
                    // exactly representable in the component type?
                    let exact: Vec<bool> = shifted.iter().map(|y| (*y as $s) as f64 == *y).collect();
                    let mut a = [0 as $s; $n];
                    let mut b = [0 as $s; $n];
                    let mut d = [0 as $s; $n];
                    for j in 0..$n {
                        a[j] = lane_x[j];
                        b[j] = shifted[j] as $s;
                        d[j] = (lane_x[j] as f64 + 360.0 * k as f64 + 90.0) as $s;
                    }
                    let r = pv::catch(|| {
                        let (va, vb, vd) = ($w::from(a), $w::from(b), $w::from(d));
                        (va.angle_eq(&vb).to_array(), vb.angle_eq(&va).to_array(), va.angle_eq(&vd).to_array())
                    });
                    n += 3;
                    let hexs = |v: &[$s]| v.iter().map(|x| hx(*x)).collect::<Vec<_>>();
                    let mk = |what: &str, lane: usize, obs: Value, exp: Value| json!({"sub": "wide-eq", "ty": wty, "input": {"x": hexs(&a), "y": hexs(&b), "z": hexs(&d)}, "lane": lane, "k": k, "x": a[lane] as f64, "what": what, "observed": obs, "expected": exp});
                    match r {
                        Err(msg) => c.violation(&format!("C11/equal-whole-turns/{wty}::angle_eq/panic"), 1.0, || mk("panic", 0, json!(msg), json!("no panic"))),
                        Ok((ab, ba, ad)) => {
                            for j in 0..$n {
                                let (e1, e2, ne) = (ab[j].to_bits() != 0, ba[j].to_bits() != 0, ad[j].to_bits() != 0);
                                if exact[j] && !(e1 && e2) {
                                    c.violation(&format!("C11/equal-whole-turns/{wty}::angle_eq/{}", if a[j] as f64 % 360.0 == 0.0 { "multiple-of-360" } else { "other" }), 1.0, || mk("x and x + 360 k (exactly representable) must be equal in this lane", j, json!({"x.angle_eq(y)": e1, "y.angle_eq(x)": e2, "y": b[j] as f64}), json!(true)));
                                }
                                if ne {
                                    c.violation(&format!("C11/unequal-quarter-turn/{wty}::angle_eq"), 1.0, || mk("x and x + 360 k + 90 must be unequal in this lane", j, json!({"x.angle_eq(z)": ne, "z": d[j] as f64}), json!(false)));
                                }
                            }
                        }
                    }
                }
            }
            n
        }
    };
}
eq_fn!(eq_f32x4, f32x4, f32, 4);
eq_fn!(eq_f32x8, f32x8, f32, 8);
eq_fn!(eq_f64x2, f64x2, f64, 2);
eq_fn!(eq_f64x4, f64x4, f64, 4);

pub fn wide_equality(ctx: &Ctx, total: &mut Collector) {
    // integer angles incl. every multiple of 90 in +-3960, the seams, and odd values
    let mut xs: Vec<i64> = (-44..=44).map(|k| k * 90).collect();
    xs.extend([1, -1, 17, -163, 179, 181, -179, -181, 359, 361, 719, 12345, -98765]);
    let hi = ctx.tier.pick(0, 2000);
    xs.extend((0..hi).map(|i| i * 7 - 7000));
    for wty in ["f32x4", "f32x8", "f64x2", "f64x4"] {
        let sub = format!("wide-equality/{wty}");
        if !ctx.wants(&sub) {
            continue;
        }
        let mut c = Collector::new();
        let x32: Vec<f32> = xs.iter().map(|x| *x as f32).collect();
        let x64: Vec<f64> = xs.iter().map(|x| *x as f64).collect();
        let n = match wty {
            "f32x4" => eq_f32x4(&mut c, &x32),
            "f32x8" => eq_f32x8(&mut c, &x32),
            "f64x2" => eq_f64x2(&mut c, &x64),
            _ => eq_f64x4(&mut c, &x64),
        };
        c.add(&sub, xs.len() as u64 * 12, n, n, xs.len() as u64 * 12);
        c.exhaustive(&sub, true, &format!("{} integer angles (every multiple of 90 in +-3960, the seams, odd values) x 12 turn counts k, every cyclic window of N consecutive angles as lanes: AngleEq::angle_eq(x, x + 360 k) true in every lane where the shifted angle is exactly representable (both argument orders), angle_eq(x, x + 360 k + 90) false", xs.len()));
        total.merge(c);
    }
}
