//! chromatic adaptation over all ordered pairs of white points x cone matrices x an XYZ lattice
#![allow(deprecated)]
use palette::chromatic_adaptation::{AdaptFrom, AdaptFromUnclamped, AdaptInto, AdaptIntoUnclamped, Method};
use palette::lms::matrix::{Bradford, UnitMatrix, VonKries};
use palette::white_point::{self as wp, WhitePoint};
use palette::Xyz;
use pv::fl::Fl;
use pv::{json, Collector, Ctx};

fn lattice() -> Vec<[f64; 3]> {
    let l = [0.0, 1e-9, 0.18, 0.5, 0.9, 1.0, 1.2];
    let mut v = vec![];
    for &x in &l {
        for &y in &l {
            for &z in &l {
                v.push([x, y, z]);
            }
        }
    }
    v
}

trait PairRun {
    fn run(c: &mut Collector, n: &mut u64);
}

#[allow(clippy::too_many_arguments)]
fn check_pair<T: Fl>(c: &mut Collector, n: &mut u64, sn: &str, dn: &str, mn: &str, tol: f64, sw: [T; 3], dw: [T; 3], f: &dyn Fn([T; 3]) -> ([T; 3], [T; 3], [T; 3])) {
    let tn = T::NAME;
    let same = sn == dn;
    let mut pts: Vec<[T; 3]> = lattice().into_iter().map(|p| [T::from64(p[0]), T::from64(p[1]), T::from64(p[2])]).collect();
    pts.push(sw);
    let d3 = |a: [T; 3], b: [T; 3]| -> f64 { (a[0].to64() - b[0].to64()).abs().max((a[1].to64() - b[1].to64()).abs()).max((a[2].to64() - b[2].to64()).abs()) };
    let f3 = |a: [T; 3]| -> Vec<f64> { a.iter().map(|x| x.to64()).collect() };
    for p in &pts {
        *n += 1;
        let base = |what: &str| json!({"sub": "adapt", "what": what, "float": tn, "from": sn, "to": dn, "method": mn, "input": f3(*p)});
        let r = pv::catch(|| f(*p));
        let (y, back, o) = match r {
            Ok(v) => v,
            Err(msg) => {
                c.violation(&format!("C14/adapt/{}/{}/panic", mn, tn), 1.0, || {
                    let mut b = base("adapt");
                    b["observed"] = json!({"panic": msg});
                    b
                });
                continue;
            }
        };
        let is_white = p[0].bits64() == sw[0].bits64() && p[1].bits64() == sw[1].bits64() && p[2].bits64() == sw[2].bits64();
        if same {
            if (y[0].bits64(), y[1].bits64(), y[2].bits64()) != (p[0].bits64(), p[1].bits64(), p[2].bits64()) {
                c.violation(&format!("C14/adapt-identity/{}/{}/{}", mn, tn, sn), 1.0, || {
                    let mut b = base("identity between equal white points");
                    b["observed"] = json!(f3(y));
                    b["expected"] = json!("bit-identical");
                    b
                });
            }
            let d = d3(o, *p);
            if !(d <= tol * 1.2) {
                c.violation(&format!("C14/adapt-identity-deprecated-api/{}/{}/{}", mn, tn, sn), d, || {
                    let mut b = base("identity between equal white points (AdaptFrom)");
                    b["observed"] = json!(f3(o));
                    b
                });
            }
        }
        if is_white {
            let d = d3(y, dw);
            c.ratio("adapt-white", d / tol, || base("white"));
            if !(d <= tol) {
                c.violation(&format!("C14/adapt-white/{}/{}/{}->{}", mn, tn, sn, dn), d, || {
                    let mut b = base("source white -> destination white");
                    b["observed"] = json!(f3(y));
                    b["expected"] = json!(f3(dw));
                    b["tol"] = json!(tol);
                    b
                });
            }
        }
        let d = d3(back, *p);
        c.ratio("adapt-roundtrip", d / (4.0 * tol), || base("roundtrip"));
        if !(d <= 4.0 * tol) {
            c.violation(&format!("C14/adapt-roundtrip/{}/{}/{}->{}", mn, tn, sn, dn), d, || {
                let mut b = base("adapt there and back");
                b["observed"] = json!(f3(back));
                b["tol"] = json!(4.0 * tol);
                b
            });
        }
        let d = d3(o, y);
        if !(d <= 4.0 * tol) {
            c.violation(&format!("C14/adapt-api-agreement/{}/{}/{}->{}", mn, tn, sn, dn), d, || {
                let mut b = base("AdaptFrom vs AdaptFromUnclamped");
                b["observed"] = json!(f3(o));
                b["expected"] = json!(f3(y));
                b
            });
        }
        c.outcome(y[0].bits64() ^ y[2].bits64().rotate_left(29));
    }
}

/// one (source, destination, float) triple with concrete types: its own small function
macro_rules! pair {
    ($T:ty, $sn:literal, $S:ty, $dn:literal, $D:ty) => {
        impl PairRun for ($S, $D, $T) {
            fn run(c: &mut Collector, n: &mut u64) {
                type T = $T;
                let sw: Xyz<$S, T> = <$S as WhitePoint<T>>::get_xyz().with_white_point();
                let dw: Xyz<$D, T> = <$D as WhitePoint<T>>::get_xyz().with_white_point();
                // tolerance: the cone matrices and their published inverses have 7 digits (mutually
                // inverse to ~4e-7 with entries up to 1.7); XYZ scaling is exact up to rounding
                let (t_cone, t_unit): (f64, f64) = if <T as Fl>::NAME == "f32" { (2e-5, 2e-6) } else { (4e-6, 1e-12) };
                macro_rules! m {
                    ($mn:literal, $M:ty, $old:expr, $tol:expr) => {{
                        // every other spelling of the same adaptation must return the same bits
                        let mism: std::cell::RefCell<Vec<(&'static str, [T; 3], [T; 3], [T; 3])>> = std::cell::RefCell::new(vec![]);
                        let f = |p: [T; 3]| -> ([T; 3], [T; 3], [T; 3]) {
                            let x: Xyz<$S, T> = Xyz::new(p[0], p[1], p[2]);
                            let y: Xyz<$D, T> = Xyz::adapt_from_unclamped_with::<$M>(x);
                            let back: Xyz<$S, T> = Xyz::adapt_from_unclamped_with::<$M>(y);
                            let o: Xyz<$D, T> = Xyz::adapt_from_using(x, $old);
                            let same = |a: Xyz<$D, T>, b: Xyz<$D, T>| (a.x.to_bits(), a.y.to_bits(), a.z.to_bits()) == (b.x.to_bits(), b.y.to_bits(), b.z.to_bits());
                            let mut forms: Vec<(&'static str, Xyz<$D, T>, Xyz<$D, T>)> = vec![
                                ("adapt_into_unclamped_with", AdaptIntoUnclamped::<Xyz<$D, T>>::adapt_into_unclamped_with::<$M>(x), y),
                                ("adapt_into_using (deprecated)", AdaptInto::<Xyz<$D, T>, $S, $D, T>::adapt_into_using(x, $old), o),
                            ];
                            if $mn == "Bradford" {
                                forms.push(("adapt_from_unclamped (default method)", <Xyz<$D, T> as AdaptFromUnclamped<Xyz<$S, T>>>::adapt_from_unclamped(x), y));
                                forms.push(("adapt_into_unclamped (default method)", AdaptIntoUnclamped::<Xyz<$D, T>>::adapt_into_unclamped(x), y));
                                forms.push(("adapt_from (deprecated, default method)", <Xyz<$D, T> as AdaptFrom<Xyz<$S, T>, $S, $D, T>>::adapt_from(x), o));
                                forms.push(("adapt_into (deprecated, default method)", AdaptInto::<Xyz<$D, T>, $S, $D, T>::adapt_into(x), o));
                            }
                            for (name, got, want) in forms {
                                if !same(got, want) {
                                    mism.borrow_mut().push((name, p, [got.x, got.y, got.z], [want.x, want.y, want.z]));
                                }
                            }
                            ([y.x, y.y, y.z], [back.x, back.y, back.z], [o.x, o.y, o.z])
                        };
                        check_pair::<T>(c, n, $sn, $dn, $mn, $tol, [sw.x, sw.y, sw.z], [dw.x, dw.y, dw.z], &f);
                        for (name, p, got, want) in mism.into_inner() {
                            c.violation(&format!("C14/adapt-forms/{}/{}/{}", $mn, <T as Fl>::NAME, name), 1.0, || json!({"sub": "adapt", "what": name, "float": <T as Fl>::NAME, "from": $sn, "to": $dn, "method": $mn, "input": [p[0] as f64, p[1] as f64, p[2] as f64], "observed": [got[0] as f64, got[1] as f64, got[2] as f64], "expected": [want[0] as f64, want[1] as f64, want[2] as f64]}));
                        }
                    }};
                }
                m!("Bradford", Bradford, Method::Bradford, t_cone);
                m!("VonKries", VonKries, Method::VonKries, t_cone);
                m!("XyzScaling", UnitMatrix, Method::XyzScaling, t_unit);
            }
        }
    };
}

macro_rules! all_pairs {
    ($T:ty, [$(($sn:literal, $S:ty)),*], $dsts:tt) => {
        $( all_pairs!(@row $T, $sn, $S, $dsts); )*
    };
    (@row $T:ty, $sn:literal, $S:ty, [$(($dn:literal, $D:ty)),*]) => {
        $( pair!($T, $sn, $S, $dn, $D); )*
    };
}
macro_rules! all_calls {
    ($c:ident, $n:ident, $T:ty, [$($S:ty),*], $dsts:tt) => {
        $( all_calls!(@row $c, $n, $T, $S, $dsts); )*
    };
    (@row $c:ident, $n:ident, $T:ty, $S:ty, [$($D:ty),*]) => {
        $( <($S, $D, $T) as PairRun>::run(&mut $c, &mut $n); )*
    };
}
macro_rules! wps {
    ($T:ty) => {
        all_pairs!($T,
            [("A", wp::A), ("B", wp::B), ("C", wp::C), ("D50", wp::D50), ("D55", wp::D55), ("D65", wp::D65), ("D75", wp::D75), ("E", wp::E), ("F2", wp::F2), ("F7", wp::F7), ("F11", wp::F11)],
            [("A", wp::A), ("B", wp::B), ("C", wp::C), ("D50", wp::D50), ("D55", wp::D55), ("D65", wp::D65), ("D75", wp::D75), ("E", wp::E), ("F2", wp::F2), ("F7", wp::F7), ("F11", wp::F11)]);
    };
}
wps!(f64);
wps!(f32);

pub fn run(ctx: &Ctx, total: &mut Collector) {
    let sub = "adaptation";
    if !ctx.wants(sub) {
        return;
    }
    let mut c = Collector::new();
    let mut n = 0u64;
    all_calls!(c, n, f64, [wp::A, wp::B, wp::C, wp::D50, wp::D55, wp::D65, wp::D75, wp::E, wp::F2, wp::F7, wp::F11], [wp::A, wp::B, wp::C, wp::D50, wp::D55, wp::D65, wp::D75, wp::E, wp::F2, wp::F7, wp::F11]);
    all_calls!(c, n, f32, [wp::A, wp::B, wp::C, wp::D50, wp::D55, wp::D65, wp::D75, wp::E, wp::F2, wp::F7, wp::F11], [wp::A, wp::B, wp::C, wp::D50, wp::D55, wp::D65, wp::D75, wp::E, wp::F2, wp::F7, wp::F11]);
    c.add(sub, n, 3 * n, 4 * n, n);
    c.exhaustive(sub, true, "all 121 ordered pairs of 11 white points x {Bradford, VonKries, XYZ scaling} x 7^3 XYZ lattice points + the source white, f32 and f64; new (AdaptFromUnclamped / AdaptIntoUnclamped, explicit and default method) and deprecated (AdaptFrom / AdaptInto, explicit and default method) API, all spellings bit-identical");
    total.merge(c);
}
