#!/bin/bash
# tools/mutant_run.sh <Cxx> <patch.diff> [quick|thorough] [--keep]
# Runs check Cxx against an isolated scratch copy of /repo (HEAD + working tree) with <patch.diff> applied.
# Nothing in /repo or /verif is modified: the repo copy, a copy of the harness (with the palette path
# rewritten), its build output, evidence and replays all live under /tmp/mut-<id>-$$ and are removed
# afterwards. Prints the check's output; exit code = the check's exit code (1 = VIOLATION detected).
set -u
id="$1"; patch="$(readlink -f "$2")"; tier="${3:-quick}"
bin=$(echo "$id" | tr 'A-Z' 'a-z')
S=/tmp/mut-$bin-$$
mkdir -p "$S/verif"
trap 'rm -rf "$S"' EXIT
rsync -a --exclude target --exclude .git /repo/ "$S/repo/"
if [ "$patch" != "/dev/null" ]; then
  (cd "$S/repo" && patch -p1 --no-backup-if-mismatch -s < "$patch") || { echo "patch failed to apply"; exit 3; }
fi
rsync -a /verif/harness/ "$S/verif/harness/"
sed -i "s#/repo/palette#$S/repo/palette#; " "$S/verif/harness/Cargo.toml"
sed -i "s#^target-dir = .*#target-dir = \"${MUT_TARGET:-$S/target}\"#" "$S/verif/harness/.cargo/config.toml"
cp /verif/known_findings.jsonl "$S/verif/"
cd "$S/verif/harness"
if ! CARGO_NET_OFFLINE=true cargo build --release --offline -p "$bin" --message-format=short > "$S/build.log" 2>&1; then
  echo "HARNESS-BUILD-FAILED under mutant"; grep -E "error" "$S/build.log" | head; exit 2
fi
cd "$S/verif"
T="${MUT_TARGET:-$S/target}"
VERIF_ROOT="$S/verif" "$T/release/$bin" "$tier" 2>&1 | cut -c1-400 | tail -${MUT_TAIL:-15}
exit ${PIPESTATUS[0]}
