//! Hue types on SIMD components: every lane of every public hue operation equals the scalar
//! operation on that lane's input. Angle lattice = all multiples of 45° in ±1080°, the float
//! neighbours of the seams (0, ±180, ±360, ±540), a few generic angles; unary operations over
//! the lattice, binary ones over the full product; every rotation of the lane assignment.
use crate::vect::{Vect, MAXN};
use palette::hues::{Cam16Hue, LabHue, LuvHue, OklabHue, RgbHue};
use pv::fl::Fl;
use pv::{json, Collector, Ctx, Tier, Value};
use wide::{f32x4, f32x8, f64x2, f64x4};

#[derive(Clone, Copy, PartialEq)]
pub enum Cmp {
    /// a normalised / raw angle in degrees: linear comparison (−180 and 180 are different answers)
    Deg,
    Rad,
    /// result of an inverse trigonometric kernel: compared on the circle
    CircDeg,
    Unit,
}
pub type HFn<T> = fn(T, T) -> [T; 2];
pub struct HueOp<V: Vect> {
    pub name: &'static str,
    pub binary: bool,
    pub cmp: Cmp,
    pub v: HFn<V>,
    pub s: HFn<V::S>,
}
pub struct HueType<V: Vect> {
    pub name: &'static str,
    pub ops: Vec<HueOp<V>>,
}

macro_rules! hue_ops {
    ($H:ident, $T:ty) => {
        [
            (|a: $T, _b: $T| [$H::from_degrees(a).into_degrees(), a - a]) as HFn<$T>,
            |a, _b| [$H::from_degrees(a).into_positive_degrees(), a - a],
            |a, _b| [$H::from_degrees(a).into_radians(), a - a],
            |a, _b| [$H::from_degrees(a).into_positive_radians(), a - a],
            |a, _b| [$H::from_degrees(a).into_raw_degrees(), $H::from_degrees(a).into_raw_radians()],
            |a, _b| [$H::from_radians(a).into_raw_degrees(), a - a],
            |a, _b| [$H::from_radians(a).into_degrees(), $H::from_radians(a).into_positive_degrees()],
            |a, _b| {
                let (x, y) = $H::from_degrees(a).into_cartesian();
                [x, y]
            },
            |a, b| [$H::from_cartesian(a, b).into_degrees(), a - a],
            |a, b| [($H::from_degrees(a) + $H::from_degrees(b)).into_degrees(), ($H::from_degrees(a) + b).into_positive_degrees()],
            |a, b| [($H::from_degrees(a) - $H::from_degrees(b)).into_degrees(), ($H::from_degrees(a) - b).into_positive_degrees()],
            |a, b| {
                let mut h = $H::from_degrees(a);
                h += $H::from_degrees(b);
                let mut g = $H::from_degrees(a);
                g -= b;
                [h.into_degrees(), g.into_degrees()]
            },
        ]
    };
}
const META: [(&str, bool, Cmp); 12] = [
    ("into_degrees", false, Cmp::Deg),
    ("into_positive_degrees", false, Cmp::Deg),
    ("into_radians", false, Cmp::Rad),
    ("into_positive_radians", false, Cmp::Rad),
    ("into_raw", false, Cmp::Deg),
    ("from_radians", false, Cmp::Deg),
    // the radians -> degrees product is rounded before the reduction to one turn, so next to a seam
    // the two implementations may land on either side: compared on the circle (the exact seam
    // behaviour of the reduction itself is decided by into_degrees / into_positive_degrees above)
    ("from_radians_normalized", false, Cmp::CircDeg),
    ("into_cartesian", false, Cmp::Unit),
    ("from_cartesian", true, Cmp::CircDeg),
    ("add", true, Cmp::Deg),
    ("sub", true, Cmp::Deg),
    ("add_sub_assign", true, Cmp::Deg),
];
macro_rules! hue_type {
    ($H:ident, $V:ty, $S:ty) => {{
        fn t() -> HueType<$V> {
            let v = hue_ops!($H, $V);
            let s = hue_ops!($H, $S);
            HueType { name: stringify!($H), ops: (0..META.len()).map(|i| HueOp { name: META[i].0, binary: META[i].1, cmp: META[i].2, v: v[i], s: s[i] }).collect() }
        }
        t()
    }};
}
macro_rules! hue_types {
    ($f:ident, $V:ty, $S:ty) => {
        pub fn $f() -> Vec<HueType<$V>> {
            vec![hue_type!(RgbHue, $V, $S), hue_type!(LabHue, $V, $S), hue_type!(LuvHue, $V, $S), hue_type!(OklabHue, $V, $S), hue_type!(Cam16Hue, $V, $S)]
        }
    };
}
hue_types!(types_f32x4, f32x4, f32);
hue_types!(types_f32x8, f32x8, f32);
hue_types!(types_f64x2, f64x2, f64);
hue_types!(types_f64x4, f64x4, f64);

pub fn angles<S: Fl>(full: bool) -> Vec<S> {
    let mut v: Vec<S> = vec![];
    let step = if full { 15 } else { 45 };
    let mut k = -1080i32;
    while k <= 1080 {
        v.push(S::from64(k as f64));
        k += step;
    }
    for seam in [0.0, 180.0, -180.0, 360.0, -360.0, 540.0, -540.0] {
        let x = S::from64(seam);
        v.push(x.up());
        v.push(x.down());
    }
    for g in [30.0, -170.0, 350.0, 179.99, 0.001, -0.001, 719.5, 1.0, -1.0, 0.5, 2.0] {
        v.push(S::from64(g));
    }
    v.push(S::from64(-0.0));
    if full {
        for g in [1e-30, -1e-30, 12345.678, -98765.4321, 57.29577951308232, 3.141592653589793, -3.141592653589793, 6.283185307179586] {
            v.push(S::from64(g));
        }
    }
    v
}

/// `in_deg`: magnitude of the input angle in degrees — reducing an angle of that size to one turn
/// cannot be more accurate than its own rounding unit
fn close<S: Fl>(cmp: Cmp, a: S, b: S, in_deg: f64) -> (bool, f64) {
    if crate::conv::same_bits(a, b) {
        return (true, 0.0);
    }
    let tol = if S::NAME == "f32" { 1e-5 } else { 1e-12 };
    let (x, y) = (a.to64(), b.to64());
    let e = match cmp {
        Cmp::Deg => (x - y).abs() / 360f64.max(y.abs()).max(in_deg),
        Cmp::Rad => (x - y).abs() / core::f64::consts::TAU.max(y.abs()).max(in_deg.to_radians()),
        Cmp::Unit => (x - y).abs() / 1f64.max(y.abs()),
        Cmp::CircDeg => {
            let d = (x - y).rem_euclid(360.0);
            d.min(360.0 - d) / 360f64.max(in_deg)
        }
    };
    (e <= tol, e / tol)
}

fn hx<S: Fl>(x: S) -> String {
    format!("{:#x}", x.bits64())
}

/// one packed evaluation: `ins[j]` in lane j; every lane against the scalar operation
pub fn check_packed<V: Vect>(ty: &str, op: &HueOp<V>, ins: &[(V::S, V::S)], c: &mut Collector) -> u64 {
    let mut la = [<V::S>::default(); MAXN];
    let mut lb = [<V::S>::default(); MAXN];
    for j in 0..V::N {
        la[j] = ins[j].0;
        lb[j] = ins[j].1;
    }
    let sig = |what: &str| format!("C17/hue-simd-vs-scalar/{}/{}.{}/{}", V::NAME, ty, op.name, what);
    let mk = |lane: usize, obs: Value, exp: Value| json!({"sub": "hues", "vec": V::NAME, "type": ty, "op": op.name, "lane": lane, "a": (0..V::N).map(|j| hx(la[j])).collect::<Vec<_>>(), "b": (0..V::N).map(|j| hx(lb[j])).collect::<Vec<_>>(), "input": {"a": la[lane].to64(), "b": lb[lane].to64()}, "observed": obs, "expected": exp});
    let f = op.v;
    let rv = pv::catch(|| {
        let r = f(V::from_lanes(&la[..V::N]), V::from_lanes(&lb[..V::N]));
        [r[0].lanes(), r[1].lanes()]
    });
    let rv = match rv {
        Ok(r) => r,
        Err(msg) => {
            c.violation(&sig("panic"), 1.0, || mk(0, json!({"panic": msg}), json!("no panic")));
            return 0;
        }
    };
    let mut h = 0u64;
    for j in 0..V::N {
        let g = op.s;
        let rs = match pv::catch(|| g(la[j], lb[j])) {
            Ok(r) => r,
            Err(msg) => {
                c.violation(&sig("scalar-panic"), 1.0, || mk(j, json!("no panic"), json!({"panic": msg})));
                continue;
            }
        };
        // the hue of an achromatic point (a = b = 0) is not a colour property: the scalar atan2
        // answers by the signs of the zeros (0 or 180), the SIMD kernel always 180; chroma is 0 either way
        if op.name == "from_cartesian" && la[j].to64() == 0.0 && lb[j].to64() == 0.0 {
            continue;
        }
        let in_deg = if op.name.starts_with("from_radians") { la[j].to64().abs().to_degrees() } else { la[j].to64().abs().max(lb[j].to64().abs()) };
        for k in 0..2 {
            h = pv::splitmix(h ^ rv[k][j].bits64());
            let (ok, ratio) = close(op.cmp, rv[k][j], rs[k], in_deg);
            if ok {
                c.ratio("hues", ratio, || mk(j, json!({"slot": k, "simd": rv[k][j].to64()}), json!({"scalar": rs[k].to64()})));
            } else {
                c.violation(&sig("lane-differs"), ratio, || mk(j, json!({"slot": k, "simd": rv[k][j].to64(), "bits": hx(rv[k][j])}), json!({"scalar": rs[k].to64(), "bits": hx(rs[k])})));
            }
        }
    }
    c.outcome(h);
    V::N as u64
}

pub fn run_hues<V: Vect>(ctx: &Ctx, types: &[HueType<V>], total: &mut Collector) {
    let sub = format!("hues/{}", V::NAME);
    if !ctx.wants(&sub) {
        return;
    }
    let full = ctx.tier == Tier::Thorough;
    let ang = angles::<V::S>(full);
    let mut work = vec![];
    for ti in 0..types.len() {
        for oi in 0..types[ti].ops.len() {
            work.push((ti, oi));
        }
    }
    let (work_r, ang_r) = (&work, &ang);
    let cc = pv::par::run_chunks(work.len(), |wi, c| {
        let (ti, oi) = work_r[wi];
        let (t, op) = (&types[ti], &types[ti].ops[oi]);
        let zero = <V::S>::default();
        let ins: Vec<(V::S, V::S)> = if op.binary { ang_r.iter().flat_map(|&a| ang_r.iter().map(move |&b| (a, b))).collect() } else { ang_r.iter().map(|&a| (a, zero)).collect() };
        let n = ins.len();
        let (mut st, mut tr) = (0u64, 0u64);
        // windows of N consecutive inputs (cyclic), every start offset: each input visits every lane
        for start in 0..n {
            let w: Vec<(V::S, V::S)> = (0..V::N).map(|j| ins[(start + j) % n]).collect();
            tr += check_packed::<V>(t.name, op, &w, c);
            st += 1;
        }
        c.add(&sub, st, st * (1 + V::N as u64), tr, st);
        if wi % 5 == 0 {
            c.sample(pv::splitmix(wi as u64 | 9 << 60), || json!({"sub": sub, "type": t.name, "op": op.name, "inputs": n}));
        }
    });
    total.merge(cc);
    total.exhaustive(&sub, true, &format!("{} hue types x {} operations for {}; {} lattice angles (unary: every angle, binary: every ordered pair), every cyclic window of N = {} consecutive inputs so that each input is evaluated in every lane; each lane compared with the scalar hue operation", types.len(), META.len(), V::NAME, ang.len(), V::N));
}

pub fn replay_hues<V: Vect>(types: &[HueType<V>], case: &Value, c: &mut Collector) {
    let t = types.iter().find(|t| Some(t.name) == case["type"].as_str()).expect("type");
    let op = t.ops.iter().find(|o| Some(o.name) == case["op"].as_str()).expect("op");
    let p = |v: &Value| -> Vec<V::S> { v.as_array().map(|a| a.iter().map(|x| <V::S>::from_bits64(u64::from_str_radix(x.as_str().unwrap_or("0").trim_start_matches("0x"), 16).unwrap_or(0))).collect()).unwrap_or_default() };
    let (a, b) = (p(&case["a"]), p(&case["b"]));
    let ins: Vec<(V::S, V::S)> = (0..V::N).map(|j| (a[j], b[j])).collect();
    println!("{}.{} ({}): a = {:?}, b = {:?}", t.name, op.name, V::NAME, a.iter().map(|x| x.to64()).collect::<Vec<_>>(), b.iter().map(|x| x.to64()).collect::<Vec<_>>());
    check_packed::<V>(t.name, op, &ins, c);
}
