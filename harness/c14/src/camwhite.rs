//! "CAM16 lightness 100 when it is the adopted white of the viewing conditions": for every white
//! point type (static parameter) and a run-time white point, x adapting luminance x surround (incl.
//! percent values inside both segments and beyond the documented clamp) x discounting (auto and
//! custom degrees inside and outside [0, 1], which are documented to clamp) x f32/f64, the white
//! point itself converts to J = 100 in the full model and in the lightness-based partial types.
use palette::cam16::{Cam16, Cam16Jch, Cam16Jmh, Cam16Jsh, Discounting, Parameters, StaticWp, Surround};
use palette::white_point::{self as wp, WhitePoint};
use palette::Xyz;
use pv::{json, Collector, Ctx, Tier};

macro_rules! white_check {
    ($fname:ident, $T:ty) => {
        fn $fname(ctx: &Ctx, c: &mut Collector) -> (u64, u64) {
            type T = $T;
            let tname = stringify!($T);
            let thorough = ctx.tier == Tier::Thorough;
            let las: Vec<f64> = if thorough { vec![40.0, 0.2, 4.0, 64.0, 318.31, 1000.0] } else { vec![40.0, 4.0, 318.31] };
            let surs: Vec<(&str, Surround<T>)> = vec![("average", Surround::Average), ("dim", Surround::Dim), ("dark", Surround::Dark), ("5%", Surround::Percent(5.0)), ("15%", Surround::Percent(15.0)), ("-5%", Surround::Percent(-5.0)), ("25%", Surround::Percent(25.0))];
            let discs: Vec<(&str, Discounting<T>)> = vec![("auto", Discounting::Auto), ("custom(0)", Discounting::Custom(0.0)), ("custom(0.5)", Discounting::Custom(0.5)), ("custom(1)", Discounting::Custom(1.0)), ("custom(1.5)", Discounting::Custom(1.5)), ("custom(-1)", Discounting::Custom(-1.0))];
            let ybs: Vec<f64> = if thorough { vec![0.2, 0.05, 0.9] } else { vec![0.2, 0.05] };
            let tol: f64 = if tname == "f32" { 2e-3 } else { 1e-9 };
            let (mut st, mut tr) = (0u64, 0u64);
            macro_rules! one_wp {
                ($name:literal, $W:ty) => {{
                    let w = <$W as WhitePoint<T>>::get_xyz();
                    for &la in &las {
                        for &yb in &ybs {
                            for (sn, sur) in &surs {
                                for (dn, disc) in &discs {
                                    st += 1;
                                    let mut p: Parameters<StaticWp<$W>, T> = Parameters::default_static_wp(la as T);
                                    p.background_luminance = yb as T;
                                    p.surround = *sur;
                                    p.discounting = *disc;
                                    let x: Xyz<$W, T> = Xyz::new(w.x, w.y, w.z);
                                    // the same conditions with the white point given at run time
                                    let mut pd: Parameters<Xyz<wp::Any, T>, T> = Parameters::default_dynamic_wp(w, la as T);
                                    pd.background_luminance = yb as T;
                                    pd.surround = *sur;
                                    pd.discounting = *disc;
                                    let r = pv::catch(|| {
                                        let b = p.bake();
                                        let full = Cam16::from_xyz(x, b);
                                        let dynj = Cam16::from_xyz(Xyz::<wp::Any, T>::new(w.x, w.y, w.z), pd).lightness;
                                        [full.lightness, Cam16Jch::from_xyz(x, b).lightness, Cam16Jmh::from_xyz(x, b).lightness, Cam16Jsh::from_xyz(x, b).lightness, dynj]
                                    });
                                    tr += 5;
                                    let mk = |what: &str, obs: pv::Value| json!({"sub": "cam16-white", "float": tname, "white_point": $name, "what": what, "input": {"adapting_luminance": la, "background_luminance": yb, "surround": sn, "discounting": dn}, "observed": obs, "expected": {"lightness": 100.0, "tol": tol}});
                                    match r {
                                        Err(msg) => c.violation(&format!("C14/cam16-white/{}/{}/panic", $name, tname), 1.0, || mk("panic", json!(msg))),
                                        Ok(js) => {
                                            let names = ["Cam16", "Cam16Jch", "Cam16Jmh", "Cam16Jsh", "Cam16 (run-time white point)"];
                                            for (i, j) in js.iter().enumerate() {
                                                let e = (*j as f64 - 100.0).abs();
                                                if e <= tol {
                                                    c.ratio("cam16-white", e / tol, || mk(names[i], json!(*j as f64)));
                                                } else {
                                                    c.violation(&format!("C14/cam16-white/{}/{}/{}/{}", $name, tname, names[i].split(' ').next().unwrap_or(""), if dn.starts_with("custom(1.5") || dn.starts_with("custom(-") { "discounting-out-of-range" } else if sn.ends_with('%') { "percent-surround" } else { "preset" }), e, || mk(names[i], json!(*j as f64)));
                                                }
                                            }
                                            c.outcome((js[0] as f64).to_bits() ^ (la.to_bits() >> 7));
                                        }
                                    }
                                }
                            }
                        }
                    }
                }};
            }
            one_wp!("D65", wp::D65);
            one_wp!("D50", wp::D50);
            one_wp!("A", wp::A);
            one_wp!("E", wp::E);
            one_wp!("F2", wp::F2);
            one_wp!("D75", wp::D75);
            one_wp!("DCI", palette::encoding::DciP3);
            if thorough {
                one_wp!("B", wp::B);
                one_wp!("C", wp::C);
                one_wp!("D55", wp::D55);
                one_wp!("F7", wp::F7);
                one_wp!("F11", wp::F11);
                one_wp!("D65Degree10", wp::D65Degree10);
            }
            (st, tr)
        }
    };
}
white_check!(run_f32, f32);
white_check!(run_f64, f64);

pub fn run(ctx: &Ctx, total: &mut Collector) {
    let sub = "cam16-white";
    if !ctx.wants(sub) {
        return;
    }
    let mut c = Collector::new();
    let (a, b) = run_f32(ctx, &mut c);
    let (a2, b2) = run_f64(ctx, &mut c);
    c.add(sub, a + a2, b + b2, b + b2, a + a2);
    total.merge(c);
    total.exhaustive(sub, true, "7 (thorough: 13) white point types x 3 (6) adapting luminances x 2 (3) background luminances x 7 surrounds (presets, 5 %, 15 %, -5 %, 25 %) x 6 discounting settings (auto, custom 0 / 0.5 / 1 / 1.5 / -1) x f32/f64: the white point converts to lightness 100 in Cam16, Cam16Jch, Cam16Jmh, Cam16Jsh and with the white point given at run time (tolerance 2e-3 f32, 1e-9 f64)");
}
