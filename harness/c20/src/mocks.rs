//! Harness-defined mock colour types of every serde shape. They stand for colours a user can
//! define and wrap in `palette::Alpha`; each one drives a different hand-written forwarding
//! method of AlphaSerializer / AlphaDeserializer.
use crate::cases::{Case, Env, Prim};
use crate::fmt::Fmt;
use crate::tok::{to_toks, Tok};
use serde::{Deserialize, Serialize};
use std::collections::BTreeMap;
use std::marker::PhantomData;

/// bitwise identity of a mock: its own token stream through the harness serializer
/// (serde_derive + TokenFormat only; no palette code involved)
pub fn tok_bits<T: Serialize>(x: &T) -> Vec<u128> {
    to_toks(x, true).expect("mock serializes").iter().map(|t| pv::fnv(format!("{t:?}").as_bytes()) as u128).collect()
}

fn l(ix: &[usize], i: usize) -> f32 {
    <f32 as Prim>::lat(ix[i])
}

macro_rules! mock {
    ($ty:ty, $shape:expr, $class:expr, $n:expr, strict = $strict:expr, |$ix:ident| $build:expr $(, applicable = $app:expr)?) => {
        impl Case for $ty {
            const N: usize = $n;
            const STRICT: bool = $strict;
            fn name() -> String {
                format!("mock:{}", $shape)
            }
            fn shape() -> String {
                format!("mock:{}", $shape)
            }
            fn class() -> String {
                $class.to_string()
            }
            $(fn applicable(f: Fmt) -> bool { ($app)(f) })?
            fn build($ix: &[usize]) -> Self {
                $build
            }
            fn bits(&self) -> Vec<u128> {
                tok_bits(self)
            }
            fn expect(&self) -> Option<Vec<Tok>> {
                to_toks(self, true).ok()
            }
            fn parts_ok(&self, f: Fmt, env: &mut Env) -> bool {
                env.rt_ok(f, self)
            }
        }
    };
}

#[derive(Serialize, Deserialize, Clone, Debug)]
pub struct MStruct {
    pub a: f32,
    pub b: f32,
    pub c: f32,
}
mock!(MStruct, "struct3", "struct", 3, strict = true, |ix| MStruct { a: l(ix, 0), b: l(ix, 1), c: l(ix, 2) });

#[derive(Serialize, Deserialize, Clone, Debug)]
pub struct MOne {
    pub value: f32,
}
mock!(MOne, "struct1", "struct", 1, strict = true, |ix| MOne { value: l(ix, 0) });

#[derive(Serialize, Deserialize, Clone, Debug)]
pub struct MFour {
    pub a: f32,
    pub b: f32,
    pub c: f32,
    pub d: f32,
}
mock!(MFour, "struct4", "struct", 4, strict = true, |ix| MFour { a: l(ix, 0), b: l(ix, 1), c: l(ix, 2), d: l(ix, 3) });

#[derive(Serialize, Deserialize, Clone, Debug)]
pub struct MEmpty {}
mock!(MEmpty, "struct0", "struct", 0, strict = true, |_ix| MEmpty {});

#[derive(Serialize, Deserialize, Clone, Debug)]
pub struct MTuple(pub f32, pub f32);
mock!(MTuple, "tuple-struct2", "tuple-struct", 2, strict = true, |ix| MTuple(l(ix, 0), l(ix, 1)));

#[derive(Serialize, Deserialize, Clone, Debug)]
pub struct MTuple3(pub f32, pub f32, pub f32);
mock!(MTuple3, "tuple-struct3", "tuple-struct", 3, strict = true, |ix| MTuple3(l(ix, 0), l(ix, 1), l(ix, 2)));

#[derive(Serialize, Deserialize, Clone, Debug)]
pub struct MNewtype(pub f32);
mock!(MNewtype, "newtype", "newtype", 1, strict = true, |ix| MNewtype(l(ix, 0)));

#[derive(Serialize, Deserialize, Clone, Debug)]
pub struct MUnit;
mock!(MUnit, "unit-struct", "unit-struct", 0, strict = true, |_ix| MUnit);

#[derive(Serialize, Deserialize, Clone, Debug)]
pub struct MEmptyTuple();
mock!(MEmptyTuple, "tuple-struct0", "tuple-struct", 0, strict = true, |_ix| MEmptyTuple());

#[derive(Serialize, Deserialize, Clone, Debug)]
pub struct MRenamed {
    #[serde(rename = "r")]
    pub red: f32,
    #[serde(rename = "the green")]
    pub green: f32,
    /// differs from "alpha" only in case: must not be intercepted
    #[serde(rename = "Alpha")]
    pub blue: f32,
}
mock!(MRenamed, "renamed-struct", "struct", 3, strict = true, |ix| MRenamed { red: l(ix, 0), green: l(ix, 1), blue: l(ix, 2) });

#[derive(Serialize, Deserialize, Clone, Debug)]
#[serde(rename = "Renamed2", rename_all = "SCREAMING_SNAKE_CASE")]
pub struct MRenameAll {
    pub red_value: f32,
    pub alpha_value: f32,
}
mock!(MRenameAll, "rename-all-struct", "struct", 2, strict = true, |ix| MRenameAll { red_value: l(ix, 0), alpha_value: l(ix, 1) });

#[derive(Serialize, Deserialize, Clone, Debug)]
pub struct MRest {
    pub b: f32,
    pub c: f32,
}
#[derive(Serialize, Deserialize, Clone, Debug)]
pub struct MFlatten {
    pub a: f32,
    #[serde(flatten)]
    pub rest: MRest,
}
mock!(MFlatten, "flatten-struct", "map", 3, strict = true, |ix| MFlatten { a: l(ix, 0), rest: MRest { b: l(ix, 1), c: l(ix, 2) } });

pub struct NoSerde;
#[derive(Serialize, Deserialize, Clone, Debug)]
pub struct MSkip {
    pub a: f32,
    #[serde(skip)]
    pub meta: PhantomData<NoSerde>,
    pub b: f32,
    #[serde(skip)]
    pub cache: u32,
}
impl Clone for NoSerde {
    fn clone(&self) -> Self {
        NoSerde
    }
}
impl std::fmt::Debug for NoSerde {
    fn fmt(&self, f: &mut std::fmt::Formatter) -> std::fmt::Result {
        f.write_str("NoSerde")
    }
}
mock!(MSkip, "skip-struct", "struct", 2, strict = true, |ix| MSkip { a: l(ix, 0), meta: PhantomData, b: l(ix, 1), cache: 0 });

#[derive(Serialize, Deserialize, Clone, Debug)]
#[serde(deny_unknown_fields)]
pub struct MDeny {
    pub a: f32,
    pub b: f32,
}
mock!(MDeny, "deny-unknown-struct", "struct", 2, strict = true, |ix| MDeny { a: l(ix, 0), b: l(ix, 1) });

#[derive(Serialize, Deserialize, Clone, Debug)]
pub struct MDefault {
    pub a: f32,
    #[serde(default)]
    pub b: f32,
}
mock!(MDefault, "default-struct", "struct", 2, strict = true, |ix| MDefault { a: l(ix, 0), b: l(ix, 1) });

fn is_zero(x: &f32) -> bool {
    *x == 0.0
}
/// `skip_serializing_if` drives `SerializeStruct::skip_field`; serde documents it as
/// incompatible with positional formats, so the mock is only applicable to map formats.
#[derive(Serialize, Deserialize, Clone, Debug)]
pub struct MSkipIf {
    pub a: f32,
    #[serde(skip_serializing_if = "is_zero", default)]
    pub b: f32,
    pub c: f32,
}
mock!(MSkipIf, "skip-if-struct", "struct", 3, strict = true, |ix| MSkipIf { a: l(ix, 0), b: if ix[1] % 2 == 0 { 0.0 } else { l(ix, 1) }, c: l(ix, 2) },
    applicable = |f: Fmt| f.is_map());

#[derive(Serialize, Deserialize, Clone, Debug)]
pub struct MHasAlpha {
    pub x: f32,
    pub alpha: f32,
}
// a colour with its own `alpha` field cannot get a second one at the same level
impl Case for MHasAlpha {
    const N: usize = 2;
    const WRAP_STRICT: bool = false;
    fn name() -> String {
        "mock:struct-with-alpha-field".into()
    }
    fn shape() -> String {
        Self::name()
    }
    fn class() -> String {
        "struct-with-alpha-field".into()
    }
    fn build(ix: &[usize]) -> Self {
        MHasAlpha { x: l(ix, 0), alpha: l(ix, 1) }
    }
    fn bits(&self) -> Vec<u128> {
        tok_bits(self)
    }
    fn expect(&self) -> Option<Vec<Tok>> {
        to_toks(self, true).ok()
    }
    fn parts_ok(&self, f: Fmt, env: &mut Env) -> bool {
        env.rt_ok(f, self)
    }
}

/// an `alpha` field one level down belongs to the inner struct
#[derive(Serialize, Deserialize, Clone, Debug)]
pub struct MNestedAlpha {
    pub inner: MHasAlpha,
    pub y: f32,
}
mock!(MNestedAlpha, "struct-with-nested-alpha-field", "struct", 3, strict = true, |ix| MNestedAlpha { inner: MHasAlpha { x: l(ix, 0), alpha: l(ix, 1) }, y: l(ix, 2) });

#[derive(Serialize, Deserialize, Clone, Debug)]
pub struct MMixed {
    pub id: u8,
    pub name: String,
    pub v: f64,
    pub opt: Option<f32>,
    pub none: Option<f32>,
    pub arr: [f32; 2],
    pub inner: MStruct,
    pub list: Vec<f32>,
    pub unit: (),
    pub t: (f32, u16),
}
mock!(MMixed, "mixed-struct", "struct", 3, strict = true, |ix| {
    let (a, b, c) = (l(ix, 0), l(ix, 1), l(ix, 2));
    MMixed {
        id: a.to_bits() as u8,
        name: format!("n{}\"\\é", ix[1]),
        v: c as f64,
        opt: Some(a),
        none: None,
        arr: [b, c],
        inner: MStruct { a, b, c },
        list: vec![a, b],
        unit: (),
        t: (c, 7),
    }
});

// std shapes
mock!((), "unit", "unit", 0, strict = true, |_ix| ());
mock!((f32, f32), "tuple2", "tuple", 2, strict = true, |ix| (l(ix, 0), l(ix, 1)));
mock!([f32; 3], "array3", "tuple", 3, strict = true, |ix| [l(ix, 0), l(ix, 1), l(ix, 2)]);
// a Vec visitor consumes every element including the trailing alpha: outside the statement
mock!(Vec<f32>, "vec", "seq", 2, strict = false, |ix| vec![l(ix, 0), l(ix, 1)]);
mock!(BTreeMap<String, f32>, "btreemap", "map", 2, strict = false, |ix| {
    let mut m = BTreeMap::new();
    m.insert("k1".to_string(), l(ix, 0));
    m.insert("k2".to_string(), l(ix, 1));
    m
});

// shapes AlphaSerializer / AlphaDeserializer declare unsupported
mock!(f32, "prim-f32", "primitive", 1, strict = false, |ix| l(ix, 0));
mock!(f64, "prim-f64", "primitive", 1, strict = false, |ix| l(ix, 0) as f64);
mock!(bool, "prim-bool", "primitive", 1, strict = false, |ix| ix[0] % 2 == 0);
mock!(i8, "prim-i8", "primitive", 1, strict = false, |ix| ix[0] as i8 - 5);
mock!(i16, "prim-i16", "primitive", 1, strict = false, |ix| ix[0] as i16 - 5);
mock!(i32, "prim-i32", "primitive", 1, strict = false, |ix| ix[0] as i32 - 5);
mock!(i64, "prim-i64", "primitive", 1, strict = false, |ix| ix[0] as i64 - 5);
mock!(i128, "prim-i128", "primitive", 1, strict = false, |ix| ix[0] as i128 - 5);
mock!(u8, "prim-u8", "primitive", 1, strict = false, |ix| ix[0] as u8);
mock!(u16, "prim-u16", "primitive", 1, strict = false, |ix| ix[0] as u16);
mock!(u32, "prim-u32", "primitive", 1, strict = false, |ix| ix[0] as u32);
mock!(u64, "prim-u64", "primitive", 1, strict = false, |ix| ix[0] as u64);
mock!(u128, "prim-u128", "primitive", 1, strict = false, |ix| ix[0] as u128);
mock!(char, "prim-char", "primitive", 1, strict = false, |ix| (b'a' + ix[0] as u8) as char);
mock!(String, "prim-string", "primitive", 1, strict = false, |ix| format!("s{}", ix[0]));
mock!(Option<f32>, "option", "option", 1, strict = false, |ix| if ix[0] % 2 == 0 { None } else { Some(l(ix, 0)) });

#[derive(Serialize, Deserialize, Clone, Debug)]
pub enum MEnum {
    A,
    B(f32),
    C(f32, f32),
    D { x: f32 },
}
mock!(MEnum, "enum", "enum", 1, strict = false, |ix| match ix[0] % 4 {
    0 => MEnum::A,
    1 => MEnum::B(l(ix, 0)),
    2 => MEnum::C(l(ix, 0), 0.5),
    _ => MEnum::D { x: l(ix, 0) },
});

/// a type that deserializes through `deserialize_any`
#[derive(Serialize, Deserialize, Clone, Debug)]
#[serde(transparent)]
pub struct MAny(pub serde_json::Value);
mock!(MAny, "deserialize-any", "any", 1, strict = false, |ix| MAny(serde_json::json!({"x": ix[0], "y": [1, 2]})));

/// serialize_bytes / deserialize_bytes
#[derive(Clone, Debug)]
pub struct MBytes(pub Vec<u8>);
impl Serialize for MBytes {
    fn serialize<S: serde::Serializer>(&self, s: S) -> Result<S::Ok, S::Error> {
        s.serialize_bytes(&self.0)
    }
}
impl<'de> Deserialize<'de> for MBytes {
    fn deserialize<D: serde::Deserializer<'de>>(d: D) -> Result<Self, D::Error> {
        struct V;
        impl<'de> serde::de::Visitor<'de> for V {
            type Value = MBytes;
            fn expecting(&self, f: &mut std::fmt::Formatter) -> std::fmt::Result {
                f.write_str("bytes")
            }
            fn visit_bytes<E: serde::de::Error>(self, v: &[u8]) -> Result<MBytes, E> {
                Ok(MBytes(v.to_vec()))
            }
            fn visit_seq<A: serde::de::SeqAccess<'de>>(self, mut a: A) -> Result<MBytes, A::Error> {
                let mut v = vec![];
                while let Some(b) = a.next_element::<u8>()? {
                    v.push(b);
                }
                Ok(MBytes(v))
            }
        }
        d.deserialize_bytes(V)
    }
}
mock!(MBytes, "bytes", "bytes", 1, strict = false, |ix| MBytes(vec![ix[0] as u8, 2, 3]));

/// A type whose representation depends on `is_human_readable` (like std::net::IpAddr or
/// uuid::Uuid). Probe only: no palette colour depends on it.
#[derive(Clone, Debug)]
pub struct MHrDep(pub f32);
#[derive(Serialize, Deserialize)]
struct HrText {
    v: f32,
}
#[derive(Serialize, Deserialize)]
struct HrCompact {
    v_bits: u32,
}
impl Serialize for MHrDep {
    fn serialize<S: serde::Serializer>(&self, s: S) -> Result<S::Ok, S::Error> {
        if s.is_human_readable() {
            HrText { v: self.0 }.serialize(s)
        } else {
            HrCompact { v_bits: self.0.to_bits() }.serialize(s)
        }
    }
}
impl<'de> Deserialize<'de> for MHrDep {
    fn deserialize<D: serde::Deserializer<'de>>(d: D) -> Result<Self, D::Error> {
        if d.is_human_readable() {
            HrText::deserialize(d).map(|t| MHrDep(t.v))
        } else {
            HrCompact::deserialize(d).map(|t| MHrDep(f32::from_bits(t.v_bits)))
        }
    }
}
impl Case for MHrDep {
    const N: usize = 1;
    const WRAP_STRICT: bool = false;
    fn name() -> String {
        "mock:human-readable-dependent".into()
    }
    fn shape() -> String {
        Self::name()
    }
    fn build(ix: &[usize]) -> Self {
        MHrDep(l(ix, 0))
    }
    fn bits(&self) -> Vec<u128> {
        vec![self.0.to_bits() as u128]
    }
    fn parts_ok(&self, f: Fmt, env: &mut Env) -> bool {
        env.rt_ok(f, self)
    }
}

/// a colour flattened into an outer struct (`#[serde(flatten)] color: Srgba`)
#[derive(Serialize, Deserialize, Clone, Debug)]
pub struct Outer<T> {
    pub id: u8,
    #[serde(flatten)]
    pub color: T,
}
impl<T: Case> Case for Outer<T> {
    const N: usize = T::N;
    // strict for opaque colours only: see the documented limitation of AlphaDeserializer
    const STRICT: bool = T::STRICT && T::ALPHA_DEPTH == 0;
    const WRAP_STRICT: bool = false;
    fn name() -> String {
        format!("Outer<flatten {}>", T::name())
    }
    fn shape() -> String {
        format!("Outer<flatten {}>", T::shape())
    }
    fn build(ix: &[usize]) -> Self {
        Outer { id: 1, color: T::build(ix) }
    }
    fn bits(&self) -> Vec<u128> {
        let mut b = vec![self.id as u128];
        b.extend(self.color.bits());
        b
    }
    fn parts_ok(&self, f: Fmt, env: &mut Env) -> bool {
        // the format must support serde's flatten at all (witness: a flattened mock)
        self.color.parts_ok(f, env) && env.rt_ok(f, &self.color) && env.rt_ok(f, &MFlatten { a: 0.5, rest: MRest { b: 0.25, c: 0.125 } })
    }
}

#[derive(Deserialize)]
#[serde(bound(deserialize = "C: Deserialize<'de>"))]
pub struct OuterOpt<C> {
    pub id: u8,
    #[serde(flatten, deserialize_with = "palette::serde::deserialize_with_optional_alpha")]
    pub color: palette::Alpha<C, f32>,
}
