//! Slice / Vec / array forms on SIMD colours: `[Color<V>]::is_within_bounds()` reduces with `&=` over
//! the items and may stop early — every lane of the result must equal the scalar reduction over
//! that lane's colours; `[Color<V>]::clamp_assign()` must clamp every item lane by lane.
//! Enumeration: 3 items; per lane one of the 8 in/out patterns over the items (out = a component
//! below its range for even items, above for odd ones); all 8^N lane assignments for N <= 4, and for
//! N = 8 all 8^4 assignments of lanes 0..3 with lane j+4 carrying the pattern of lane j rotated by
//! one item (so the two halves fail at different positions).
use crate::ops::MaskAs;
use crate::vect::{Vect, MAXN};
use palette::encoding::Srgb;
use palette::rgb::Rgb;
use palette::white_point::D65;
use palette::{Alpha, ClampAssign, Hsv, IsWithinBounds, Lab};
use pv::fl::Fl;
use pv::{json, Collector, Ctx};
use wide::{f32x4, f32x8, f64x2, f64x4};

const K: usize = 3;

/// components of item `i` of a lane with pattern `pat` (bit i set = item i is out of bounds)
fn comps(pat: usize, i: usize, out_lo: [f64; 3], out_hi: [f64; 3], inside: [f64; 3]) -> [f64; 3] {
    if pat >> i & 1 == 1 {
        if i % 2 == 0 {
            out_lo
        } else {
            out_hi
        }
    } else {
        inside
    }
}

macro_rules! slice_check {
    ($fname:ident, $V:ty, $S:ty) => {
        pub fn $fname(ctx: &Ctx, total: &mut Collector) {
            type V = $V;
            type S = $S;
            let sub = format!("slices/{}", <V as Vect>::NAME);
            if !ctx.wants(&sub) {
                return;
            }
            let n = <V as Vect>::N;
            let free = n.min(4);
            let count = 8usize.pow(free as u32);
            let mut c = Collector::new();
            let (mut st, mut tr) = (0u64, 0u64);
            macro_rules! one_type {
                ($name:literal, $mkv:expr, $mks:expr, $lo:expr, $hi:expr, $in:expr) => {{
                    for code in 0..count {
                        let mut pats = [0usize; MAXN];
                        for j in 0..free {
                            pats[j] = code >> (3 * j) & 7;
                        }
                        for j in free..n {
                            let p = pats[j - free];
                            pats[j] = (p << 1 | p >> (K - 1)) & 7;
                        }
                        // scalar: per lane, the slice of that lane's colours
                        let mut want = [false; MAXN];
                        let mut want_clamped = [[[0.0 as S; 3]; K]; MAXN];
                        for j in 0..n {
                            let mut sl: Vec<_> = (0..K).map(|i| {
                                let v = comps(pats[j], i, $lo, $hi, $in);
                                $mks([v[0] as S, v[1] as S, v[2] as S])
                            }).collect();
                            want[j] = sl[..].is_within_bounds();
                            sl[..].clamp_assign();
                            for i in 0..K {
                                want_clamped[j][i] = palette::cast::into_array(sl[i].color_part());
                            }
                        }
                        // SIMD: item i packs lane j's item i
                        let mut items: Vec<_> = (0..K).map(|i| {
                            let mut l = [[0.0 as S; MAXN]; 3];
                            for j in 0..n {
                                let v = comps(pats[j], i, $lo, $hi, $in);
                                for k in 0..3 {
                                    l[k][j] = v[k] as S;
                                }
                            }
                            $mkv([V::from_lanes(&l[0][..n]), V::from_lanes(&l[1][..n]), V::from_lanes(&l[2][..n])])
                        }).collect();
                        st += 1;
                        tr += 3;
                        let sigbase = format!("C17/slices/{}/{}", <V as Vect>::NAME, $name);
                        let mk = |what: &str, obs: pv::Value, exp: pv::Value| json!({"sub": "slices", "vec": <V as Vect>::NAME, "type": $name, "what": what, "input": {"lane_patterns (bit i = item i out of bounds)": pats[..n].to_vec()}, "code": code, "observed": obs, "expected": exp});
                        // slice, Vec and array forms
                        let r_slice = pv::catch(|| items[..].is_within_bounds());
                        let r_vec = pv::catch(|| items.is_within_bounds());
                        match (r_slice, r_vec) {
                            (Ok(ms), Ok(mv)) => {
                                let ls = MaskAs::<V>::mask_as(ms).lanes();
                                let lv = MaskAs::<V>::mask_as(mv).lanes();
                                let got: Vec<bool> = (0..n).map(|j| ls[j].bits64() != 0).collect();
                                let gotv: Vec<bool> = (0..n).map(|j| lv[j].bits64() != 0).collect();
                                if got != want[..n] || gotv != want[..n] {
                                    c.violation(&format!("{sigbase}/is_within_bounds"), 1.0, || mk("[C]::is_within_bounds() per lane", json!({"slice": got, "vec": gotv}), json!(want[..n].to_vec())));
                                }
                                c.outcome(got.iter().fold(code as u64, |h, b| pv::splitmix(h ^ *b as u64)));
                            }
                            (a, b) => c.violation(&format!("{sigbase}/is_within_bounds/panic"), 1.0, || mk("panic", json!(format!("{:?} {:?}", a.err(), b.err())), json!("no panic"))),
                        }
                        match pv::catch(|| {
                            items[..].clamp_assign();
                            items.iter().map(|it| { let a: [V; 3] = palette::cast::into_array(it.color_part()); [a[0].lanes(), a[1].lanes(), a[2].lanes()] }).collect::<Vec<_>>()
                        }) {
                            Ok(cl) => {
                                let mut bad = None;
                                for i in 0..K {
                                    for j in 0..n {
                                        for k in 0..3 {
                                            if cl[i][k][j].bits64() != want_clamped[j][i][k].bits64() && !(cl[i][k][j] == want_clamped[j][i][k]) {
                                                bad = Some((i, j, k, cl[i][k][j].to64(), want_clamped[j][i][k].to64()));
                                            }
                                        }
                                    }
                                }
                                if let Some((i, j, k, g, w)) = bad {
                                    c.violation(&format!("{sigbase}/clamp_assign"), 1.0, || mk("[C]::clamp_assign() per lane", json!({"item": i, "lane": j, "component": k, "value": g}), json!(w)));
                                }
                            }
                            Err(msg) => c.violation(&format!("{sigbase}/clamp_assign/panic"), 1.0, || mk("panic", json!(msg), json!("no panic"))),
                        }
                    }
                }};
            }
            one_type!("Srgb", |a: [V; 3]| Rgb::<Srgb, V>::new(a[0], a[1], a[2]), |a: [S; 3]| Rgb::<Srgb, S>::new(a[0], a[1], a[2]), [-0.25, 0.5, 0.5], [0.5, 1.5, 0.5], [0.25, 0.5, 0.75]);
            one_type!("Hsv", |a: [V; 3]| Hsv::<Srgb, V>::new(a[0], a[1], a[2]), |a: [S; 3]| Hsv::<Srgb, S>::new(a[0], a[1], a[2]), [30.0, -0.25, 0.5], [30.0, 0.5, 1.5], [30.0, 0.5, 0.75]);
            one_type!("Lab", |a: [V; 3]| Lab::<D65, V>::new(a[0], a[1], a[2]), |a: [S; 3]| Lab::<D65, S>::new(a[0], a[1], a[2]), [-5.0, 10.0, 10.0], [50.0, 200.0, 10.0], [50.0, 10.0, -20.0]);
            one_type!("Srgba", |a: [V; 3]| Alpha { color: Rgb::<Srgb, V>::new(a[0], a[1], a[2]), alpha: a[1] }, |a: [S; 3]| Alpha { color: Rgb::<Srgb, S>::new(a[0], a[1], a[2]), alpha: a[1] }, [0.5, -0.25, 0.5], [0.5, 1.5, 0.5], [0.25, 0.5, 0.75]);
            c.add(&sub, st, tr, st * n as u64, st);
            total.merge(c);
            total.exhaustive(&sub, true, &format!("{} : [C]::is_within_bounds (slice and Vec forms) and [C]::clamp_assign for C in {{Srgb, Hsv, Lab, Srgba}} over 3 items x every assignment of the 8 in/out patterns to the lanes ({} assignments{}); each lane against the scalar slice of that lane's colours", <V as Vect>::NAME, count, if n > 4 { "; lanes 4..7 carry the rotated pattern of lanes 0..3" } else { "" }));
        }
    };
}

/// the colour part of an item (Alpha or bare), for reading the components back
pub trait ColorPart {
    type C: palette::cast::ArrayCast;
    fn color_part(&self) -> Self::C;
}
macro_rules! bare {
    ($($C:ty),*) => {$( impl ColorPart for $C { type C = $C; fn color_part(&self) -> $C { *self } } )*};
}
macro_rules! all_bare {
    ($($T:ty),*) => {$(
        bare!(Rgb<Srgb, $T>, Hsv<Srgb, $T>, Lab<D65, $T>);
        impl ColorPart for Alpha<Rgb<Srgb, $T>, $T> { type C = Rgb<Srgb, $T>; fn color_part(&self) -> Rgb<Srgb, $T> { self.color } }
    )*};
}
all_bare!(f32, f64, f32x4, f32x8, f64x2, f64x4);

slice_check!(run_f32x4, f32x4, f32);
slice_check!(run_f32x8, f32x8, f32);
slice_check!(run_f64x2, f64x2, f64);
slice_check!(run_f64x4, f64x4, f64);

pub fn run(ctx: &Ctx, total: &mut Collector) {
    run_f32x4(ctx, total);
    run_f32x8(ctx, total);
    run_f64x2(ctx, total);
    run_f64x4(ctx, total);
}
