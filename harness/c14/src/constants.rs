//! The white point tristimulus constants themselves against the published tables: ASTM E308 / CIE 15
//! (2° observer: five decimals; 10° observer: palette stores four), cross-checked (to 2e-3: the chromaticity tables are rounded independently) with the CIE
//! chromaticity coordinates (X = x/y, Z = (1-x-y)/y). A transposed digit is 1e-4 .. 1e-2.
use palette::white_point::{self as wp, WhitePoint};
use pv::{json, Collector, Ctx};

/// (name, published XYZ (Y = 1), published chromaticity (x, y), tolerance)
const TABLE: [(&str, [f64; 3], [f64; 2], f64); 16] = [
    ("A", [1.09850, 1.0, 0.35585], [0.44757, 0.40745], 2e-5),
    ("B", [0.99072, 1.0, 0.85223], [0.34842, 0.35161], 2e-5),
    ("C", [0.98074, 1.0, 1.18232], [0.31006, 0.31616], 2e-5),
    ("D50", [0.96422, 1.0, 0.82521], [0.34567, 0.35850], 2e-5),
    ("D55", [0.95682, 1.0, 0.92149], [0.33242, 0.34743], 2e-5),
    ("D65", [0.95047, 1.0, 1.08883], [0.31271, 0.32902], 2e-5),
    ("D75", [0.94972, 1.0, 1.22638], [0.29902, 0.31485], 2e-5),
    ("E", [1.0, 1.0, 1.0], [1.0 / 3.0, 1.0 / 3.0], 1e-9),
    ("F2", [0.99186, 1.0, 0.67393], [0.37208, 0.37529], 2e-5),
    ("F7", [0.95041, 1.0, 1.08747], [0.31292, 0.32933], 2e-5),
    ("F11", [1.00962, 1.0, 0.64350], [0.38052, 0.37713], 2e-5),
    ("D50Degree10", [0.96720, 1.0, 0.81427], [0.34773, 0.35952], 6e-5),
    ("D55Degree10", [0.95799, 1.0, 0.90926], [0.33411, 0.34877], 6e-5),
    ("D65Degree10", [0.94811, 1.0, 1.07304], [0.31382, 0.33100], 6e-5),
    ("D75Degree10", [0.94416, 1.0, 1.20641], [0.29968, 0.31740], 6e-5),
    // SMPTE RP 431-2: x = 0.314, y = 0.351
    ("DciP3", [0.314 / 0.351, 1.0, 0.335 / 0.351], [0.314, 0.351], 1e-6),
];

fn observed() -> Vec<(&'static str, [f64; 3], [f32; 3])> {
    macro_rules! w {
        ($n:literal, $W:ty) => {{
            let a = <$W as WhitePoint<f64>>::get_xyz();
            let b = <$W as WhitePoint<f32>>::get_xyz();
            ($n, [a.x, a.y, a.z], [b.x, b.y, b.z])
        }};
    }
    vec![
        w!("A", wp::A), w!("B", wp::B), w!("C", wp::C), w!("D50", wp::D50), w!("D55", wp::D55), w!("D65", wp::D65), w!("D75", wp::D75), w!("E", wp::E),
        w!("F2", wp::F2), w!("F7", wp::F7), w!("F11", wp::F11),
        w!("D50Degree10", wp::D50Degree10), w!("D55Degree10", wp::D55Degree10), w!("D65Degree10", wp::D65Degree10), w!("D75Degree10", wp::D75Degree10),
        w!("DciP3", palette::encoding::DciP3),
    ]
}

pub fn run(ctx: &Ctx, total: &mut Collector) {
    let sub = "white-point-constants";
    if !ctx.wants(sub) {
        return;
    }
    let mut c = Collector::new();
    let obs = observed();
    let mut n = 0u64;
    for (name, o64, o32) in &obs {
        let Some((_, tab, xy, tol)) = TABLE.iter().find(|t| t.0 == *name) else {
            eprintln!("MACHINERY-FAILURE: no published value for white point {name}");
            std::process::exit(3);
        };
        // the published table and the published chromaticity agree with each other (machinery self-check)
        let from_xy = [xy[0] / xy[1], 1.0, (1.0 - xy[0] - xy[1]) / xy[1]];
        for k in 0..3 {
            if (from_xy[k] - tab[k]).abs() > 2e-3 {
                eprintln!("MACHINERY-FAILURE: published XYZ and chromaticity of {name} disagree: {:?} vs {:?}", tab, from_xy);
                std::process::exit(3);
            }
        }
        for k in 0..3 {
            n += 2;
            let e64 = (o64[k] - tab[k]).abs();
            let e32 = (o32[k] as f64 - tab[k]).abs();
            let t32 = tol + 1.2e-7 * tab[k];
            c.ratio(sub, e64 / tol, || json!({"white_point": name, "component": k, "observed": o64[k], "published": tab[k]}));
            if !(e64 <= *tol) {
                c.violation(&format!("C14/white-point-constant/{}/f64/{}", name, ["X", "Y", "Z"][k]), e64, || json!({"sub": "constants", "white_point": name, "float": "f64", "component": k, "input": name, "observed": o64, "expected": {"published_xyz": tab, "from_chromaticity": from_xy, "tol": tol}}));
            }
            if !(e32 <= t32) {
                c.violation(&format!("C14/white-point-constant/{}/f32/{}", name, ["X", "Y", "Z"][k]), e32, || json!({"sub": "constants", "white_point": name, "float": "f32", "component": k, "input": name, "observed": o32, "expected": {"published_xyz": tab, "tol": t32}}));
            }
        }
        c.outcome(o64[0].to_bits() ^ o64[2].to_bits().rotate_left(17));
    }
    c.add(sub, obs.len() as u64, 2 * obs.len() as u64, n, obs.len() as u64);
    total.merge(c);
    total.exhaustive(sub, true, "all 15 white point types of palette::white_point and the DCI white (encoding::DciP3), f32 and f64, every component against the published table (tolerance 2e-5 for five-decimal constants, 6e-5 for the four-decimal 10° ones, 1e-6 for DCI x/y); table and chromaticity cross-checked at start");
}
