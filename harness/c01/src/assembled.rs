//! Standards assembled from parts, which the compiler-discovered graphs (named standards only) do not
//! contain: `Gamma<Space, N>` RGB / luma standards and tuple standards `(Space, TransferFn)`,
//! `(Primaries, WhitePoint, TransferFn)`, `Linear<(Primaries, WhitePoint)>`. For each: every cycle
//! S -> B -> S over B in {Xyz, linear RGB of the space, Lab, Hsv<S>} returns the colour, and the direct
//! conversion S -> Xyz equals the stepwise one through the linear RGB of the space; with alpha attached the
//! colour is bit-identical and the alpha unchanged. Values: the unit lattice cubed.
use palette::convert::FromColorUnclamped;
use palette::encoding::{self, Gamma, Linear};
use palette::rgb::{Rgb, RgbStandard};
use palette::white_point::{D50, D65};
use palette::{Alpha, Hsv, Lab, Xyz};
use pv::{json, Collector, Ctx};

macro_rules! one_std {
    ($c:expr, $n:expr, $name:literal, $S:ty, $W:ty, $T:ty, $tol:expr) => {{
        type S = $S;
        type Lin = Linear<<S as RgbStandard>::Space>;
        let unit: [f64; 7] = [0.0, 1e-9, 0.04, 0.2, 0.5, 0.9, 1.0];
        let tol: f64 = $tol;
        for &r in &unit {
            for &g in &unit {
                for &b in &unit {
                    $n += 1;
                    let v: Rgb<S, $T> = Rgb::new(r as $T, g as $T, b as $T);
                    let arr = |x: Rgb<S, $T>| [x.red as f64, x.green as f64, x.blue as f64];
                    let case = |what: &str, obs: Vec<f64>, exp: Vec<f64>| json!({"sub": "assembled", "standard": $name, "float": stringify!($T), "what": what, "input": [r, g, b], "observed": obs, "expected": exp});
                    let res = pv::catch(|| {
                        let x: Xyz<$W, $T> = Xyz::from_color_unclamped(v);
                        let lin: Rgb<Lin, $T> = Rgb::from_color_unclamped(v);
                        let x_step: Xyz<$W, $T> = Xyz::from_color_unclamped(lin);
                        let lab: Lab<$W, $T> = Lab::from_color_unclamped(v);
                        let hsv: Hsv<S, $T> = Hsv::from_color_unclamped(v);
                        let backs: [(&'static str, Rgb<S, $T>); 4] = [
                            ("-> Xyz ->", Rgb::from_color_unclamped(x)),
                            ("-> linear RGB ->", Rgb::from_color_unclamped(lin)),
                            ("-> Lab ->", Rgb::from_color_unclamped(lab)),
                            ("-> Hsv ->", Rgb::from_color_unclamped(hsv)),
                        ];
                        let va: Alpha<Rgb<S, $T>, $T> = Alpha { color: v, alpha: 0.25 as $T };
                        let xa: Alpha<Xyz<$W, $T>, $T> = Alpha::<Xyz<$W, $T>, $T>::from_color_unclamped(va);
                        ([x.x as f64, x.y as f64, x.z as f64], [x_step.x as f64, x_step.y as f64, x_step.z as f64], backs.map(|(w, b)| (w, arr(b))), [xa.color.x as f64, xa.color.y as f64, xa.color.z as f64, xa.alpha as f64])
                    });
                    match res {
                        Err(msg) => $c.violation(&format!("C01/assembled/{}/{}/panic", $name, stringify!($T)), 1.0, || case("panic", vec![], vec![])),
                        Ok((x, x_step, backs, xa)) => {
                            let _ = &msg_unused();
                            let d = (0..3).map(|i| (x[i] - x_step[i]).abs()).fold(0.0, f64::max);
                            if !(d <= tol) {
                                $c.violation(&format!("C01/assembled/{}/{}/direct-vs-stepwise", $name, stringify!($T)), d, || case("S -> Xyz vs S -> linear RGB -> Xyz", x.to_vec(), x_step.to_vec()));
                            }
                            for (w, bk) in backs {
                                // compared in linear light: decode both through the standard's own transfer function is not
                                // available here, so the cycle is judged on the encoded components with the slope of the
                                // encoding at black taken out (1e-9 is far below every knee)
                                let d = (0..3).map(|i| (bk[i] - [r, g, b][i]).abs()).fold(0.0, f64::max);
                                if !(d <= 30.0 * tol) {
                                    $c.violation(&format!("C01/assembled/{}/{}/cycle{}", $name, stringify!($T), w.replace(' ', "")), d, || case(w, bk.to_vec(), vec![r, g, b]));
                                }
                            }
                            if xa[..3].iter().zip(x.iter()).any(|(p, q)| p.to_bits() != q.to_bits()) || xa[3] != 0.25 {
                                $c.violation(&format!("C01/assembled/{}/{}/alpha", $name, stringify!($T)), 1.0, || case("Alpha<S> -> Alpha<Xyz>", xa.to_vec(), vec![x[0], x[1], x[2], 0.25]));
                            }
                            $c.outcome(pv::splitmix(x[0].to_bits() ^ x[1].to_bits().rotate_left(13) ^ x[2].to_bits().rotate_left(29)));
                        }
                    }
                }
            }
        }
    }};
}

fn msg_unused() {}

/// The six `From` impls between `Srgb(a)` and `LinSrgb(a)` (any component types): the colour must be the one
/// `into_linear` / `from_linear` give (bit for bit, same component types), an attached alpha comes out unchanged
/// (converted as a stimulus when its type changes), a missing one becomes the maximum.
fn srgb_from_impls(c: &mut Collector, n: &mut u64) {
    use palette::stimulus::FromStimulus;
    use palette::{LinSrgb, LinSrgba, Srgb, Srgba};
    let unit: [f32; 9] = [0.0, 1e-6, 0.0031308, 0.04045, 0.1, 0.5, 0.75, 0.999, 1.0];
    let bits = |v: [f32; 4]| v.map(|x| x.to_bits());
    for &r in &unit {
        for &g in &[0.0f32, 0.3, 1.0] {
            for &a in &unit {
                *n += 1;
                let b = 1.0 - r;
                let case = |what: &str, obs: Vec<f64>, exp: Vec<f64>| json!({"sub": "assembled", "standard": "Srgb<->LinSrgb From impls", "float": "f32", "what": what, "input": [r, g, b, a], "observed": obs, "expected": exp});
                let mut judge = |what: &str, got: [f32; 4], want: [f32; 4]| {
                    if bits(got) != bits(want) {
                        c.violation(&format!("C01/assembled/From/{}", what), 1.0, || case(what, got.iter().map(|x| *x as f64).collect(), want.iter().map(|x| *x as f64).collect()));
                    }
                };
                let (s, sa) = (Srgb::<f32>::new(r, g, b), Srgba::<f32>::new(r, g, b, a));
                let (l, la) = (LinSrgb::<f32>::new(r, g, b), LinSrgba::<f32>::new(r, g, b, a));
                let lin = s.into_linear::<f32>();
                let enc = Srgb::<f32>::from_linear(l);
                let x: LinSrgb<f32> = LinSrgb::from(s);
                judge("LinSrgb::from(Srgb)", [x.red, x.green, x.blue, 1.0], [lin.red, lin.green, lin.blue, 1.0]);
                let x: LinSrgba<f32> = LinSrgba::from(s);
                judge("LinSrgba::from(Srgb)", [x.red, x.green, x.blue, x.alpha], [lin.red, lin.green, lin.blue, 1.0]);
                let x: LinSrgba<f32> = LinSrgba::from(sa);
                judge("LinSrgba::from(Srgba)", [x.red, x.green, x.blue, x.alpha], [lin.red, lin.green, lin.blue, a]);
                let x: Srgb<f32> = Srgb::from(l);
                judge("Srgb::from(LinSrgb)", [x.red, x.green, x.blue, 1.0], [enc.red, enc.green, enc.blue, 1.0]);
                let x: Srgba<f32> = Srgba::from(l);
                judge("Srgba::from(LinSrgb)", [x.red, x.green, x.blue, x.alpha], [enc.red, enc.green, enc.blue, 1.0]);
                let x: Srgba<f32> = Srgba::from(la);
                judge("Srgba::from(LinSrgba)", [x.red, x.green, x.blue, x.alpha], [enc.red, enc.green, enc.blue, a]);
                // component type changes on the way: u8 sRGB with alpha -> f32 linear and back
                let s8 = Srgba::<u8>::new(<u8 as FromStimulus<f32>>::from_stimulus(r), <u8 as FromStimulus<f32>>::from_stimulus(g), 200, <u8 as FromStimulus<f32>>::from_stimulus(a));
                let want = s8.into_linear::<f32, f32>();
                let x: LinSrgba<f32> = LinSrgba::from(s8);
                judge("LinSrgba<f32>::from(Srgba<u8>)", [x.red, x.green, x.blue, x.alpha], [want.red, want.green, want.blue, <f32 as FromStimulus<u8>>::from_stimulus(s8.alpha)]);
                let back: Srgba<u8> = Srgba::from(x);
                if (back.red, back.green, back.blue, back.alpha) != (s8.red, s8.green, s8.blue, s8.alpha) {
                    c.violation("C01/assembled/From/Srgba<u8>->LinSrgba<f32>->Srgba<u8>", 1.0, || case("u8 -> f32 linear -> u8 through the From impls", vec![back.red as f64, back.green as f64, back.blue as f64, back.alpha as f64], vec![s8.red as f64, s8.green as f64, s8.blue as f64, s8.alpha as f64]));
                }
            }
        }
    }
}

pub fn run(ctx: &Ctx, total: &mut Collector) {
    let sub = "assembled-standards";
    if !ctx.wants(sub) {
        return;
    }
    let mut c = Collector::new();
    let mut n = 0u64;
    one_std!(c, n, "Gamma<Srgb,F2p2>", Gamma<encoding::Srgb, encoding::F2p2>, D65, f64, 4e-6);
    one_std!(c, n, "Gamma<Srgb,F2p2>", Gamma<encoding::Srgb, encoding::F2p2>, D65, f32, 1e-4);
    one_std!(c, n, "Gamma<ProPhotoRgb,F2p2>", Gamma<encoding::ProPhotoRgb, encoding::F2p2>, D50, f64, 4e-6);
    one_std!(c, n, "(Srgb,RecOetf)", (encoding::Srgb, encoding::RecOetf), D65, f64, 4e-6);
    one_std!(c, n, "(Rec2020,Srgb)", (encoding::Rec2020, encoding::Srgb), D65, f32, 1e-4);
    one_std!(c, n, "(AdobeRgb,D50,Srgb)", (encoding::AdobeRgb, D50, encoding::Srgb), D50, f64, 4e-6);
    one_std!(c, n, "(Srgb,D50,P3Gamma)", (encoding::Srgb, D50, encoding::P3Gamma), D50, f32, 1e-4);
    one_std!(c, n, "Linear<(DisplayP3,D50)>", Linear<(encoding::DisplayP3, D50)>, D50, f64, 4e-6);
    srgb_from_impls(&mut c, &mut n);
    c.add(sub, n, 11 * n, 7 * n, n);
    total.merge(c);
    total.exhaustive(sub, true, "8 assembled RGB standards (Gamma<..>, (Space, Tf), (Primaries, Wp, Tf), Linear<(Primaries, Wp)>; f32 / f64) x the 7^3 unit lattice: cycles through Xyz, the linear RGB of the space, Lab and Hsv; direct vs stepwise to Xyz; alpha form; the six From impls between Srgb(a) and LinSrgb(a) (same and different component types): colour as into_linear / from_linear, alpha unchanged / maximal");
}
