//! Reference models in plain f64, written from the published definitions — not from palette.
//!
//! * CIEDE2000: G. Sharma, W. Wu, E. N. Dalal, "The CIEDE2000 Color-Difference Formula:
//!   Implementation Notes, Supplementary Test Data, and Mathematical Observations",
//!   Color Res. Appl. 30 (2005), eqs. (2)–(22), k_L = k_C = k_H = 1.
//! * ΔE*ab (CIE 1976): Euclidean distance in L*a*b*; HyAB (Abasi, Amani Tehran, Fairchild 2019):
//!   |ΔL| + sqrt(Δa² + Δb²); power-function corrections of Huang et al. (Opt. Express 23, 2015):
//!   ΔE' = a·ΔE^b with (a, b) = (1.26, 0.55) for CIELAB, (1.43, 0.70) for CIEDE2000 and
//!   (1.41, 0.63) for CAM16-UCS.
//! * WCAG 2.1 relative luminance and contrast ratio.

/// Which branch of Sharma's case analysis (eq. 10 for Δh', eq. 14 for the mean hue) a pair takes.
#[derive(Clone, Copy, Debug, PartialEq, Eq)]
pub enum HueCase {
    ZeroChroma,
    Le180,
    Gt180H2LeH1SumLt360,
    Gt180H2LeH1SumGe360,
    Gt180H2GtH1SumLt360,
    Gt180H2GtH1SumGe360,
}
pub const HUE_CASES: [HueCase; 6] = [HueCase::ZeroChroma, HueCase::Le180, HueCase::Gt180H2LeH1SumLt360, HueCase::Gt180H2LeH1SumGe360, HueCase::Gt180H2GtH1SumLt360, HueCase::Gt180H2GtH1SumGe360];
impl HueCase {
    pub fn name(self) -> &'static str {
        match self {
            HueCase::ZeroChroma => "zero-chroma",
            HueCase::Le180 => "dh<=180",
            HueCase::Gt180H2LeH1SumLt360 => "dh>180,h2<=h1,sum<360",
            HueCase::Gt180H2LeH1SumGe360 => "dh>180,h2<=h1,sum>=360",
            HueCase::Gt180H2GtH1SumLt360 => "dh>180,h2>h1,sum<360",
            HueCase::Gt180H2GtH1SumGe360 => "dh>180,h2>h1,sum>=360",
        }
    }
    pub fn index(self) -> usize {
        HUE_CASES.iter().position(|c| *c == self).unwrap()
    }
}

#[derive(Clone, Copy, Debug)]
pub struct De00 {
    pub de: f64,
    pub h1: f64,
    pub h2: f64,
    pub c1p: f64,
    pub c2p: f64,
    pub case: HueCase,
    /// | |h2' − h1'| − 180 | in degrees (infinite when a chroma is zero: no hue involved)
    pub dist180: f64,
}

/// Sharma eq. (7): hue angle in degrees in [0, 360), 0 when a' = b = 0.
fn h_prime(b: f64, ap: f64) -> f64 {
    if b == 0.0 && ap == 0.0 {
        return 0.0;
    }
    let h = b.atan2(ap).to_degrees();
    if h < 0.0 {
        h + 360.0
    } else {
        h
    }
}

const P25_7: f64 = 6103515625.0; // 25^7

/// `mean_plus_360`: use (h1'+h2'+360)/2 for every pair with |h1'−h2'| > 180 (a variant that
/// ignores the sum ≥ 360 split of eq. 14) — only used to *measure* what that variant changes.
pub fn ciede2000_ex(x: [f64; 3], y: [f64; 3], mean_plus_360: bool) -> De00 {
    let (l1, a1, b1) = (x[0], x[1], x[2]);
    let (l2, a2, b2) = (y[0], y[1], y[2]);
    // step 1: C'_i, h'_i
    let c1 = (a1 * a1 + b1 * b1).sqrt(); // eq. 2
    let c2 = (a2 * a2 + b2 * b2).sqrt();
    let cb = (c1 + c2) / 2.0; // eq. 3
    let cb7 = cb.powi(7);
    let g = 0.5 * (1.0 - (cb7 / (cb7 + P25_7)).sqrt()); // eq. 4
    let a1p = (1.0 + g) * a1; // eq. 5
    let a2p = (1.0 + g) * a2;
    let c1p = (a1p * a1p + b1 * b1).sqrt(); // eq. 6
    let c2p = (a2p * a2p + b2 * b2).sqrt();
    let h1 = h_prime(b1, a1p); // eq. 7
    let h2 = h_prime(b2, a2p);
    // step 2: ΔL', ΔC', ΔH'
    let dl = l2 - l1; // eq. 8
    let dc = c2p - c1p; // eq. 9
    let zero = c1p * c2p == 0.0;
    let diff = h2 - h1;
    let dh = if zero {
        0.0
    } else if diff.abs() <= 180.0 {
        diff
    } else if diff > 180.0 {
        diff - 360.0
    } else {
        diff + 360.0
    }; // eq. 10
    let dbh = 2.0 * (c1p * c2p).sqrt() * (dh / 2.0).to_radians().sin(); // eq. 11
    // step 3
    let lb = (l1 + l2) / 2.0; // eq. 12
    let cbp = (c1p + c2p) / 2.0; // eq. 13
    let sum = h1 + h2;
    let (hb, case) = if zero {
        (sum, HueCase::ZeroChroma)
    } else if (h1 - h2).abs() <= 180.0 {
        (sum / 2.0, HueCase::Le180)
    } else if sum < 360.0 {
        ((sum + 360.0) / 2.0, if h2 <= h1 { HueCase::Gt180H2LeH1SumLt360 } else { HueCase::Gt180H2GtH1SumLt360 })
    } else {
        (if mean_plus_360 { (sum + 360.0) / 2.0 } else { (sum - 360.0) / 2.0 }, if h2 <= h1 { HueCase::Gt180H2LeH1SumGe360 } else { HueCase::Gt180H2GtH1SumGe360 })
    }; // eq. 14
    let t = 1.0 - 0.17 * (hb - 30.0).to_radians().cos() + 0.24 * (2.0 * hb).to_radians().cos() + 0.32 * (3.0 * hb + 6.0).to_radians().cos() - 0.20 * (4.0 * hb - 63.0).to_radians().cos(); // eq. 15
    let dtheta = 30.0 * (-((hb - 275.0) / 25.0).powi(2)).exp(); // eq. 16
    let cbp7 = cbp.powi(7);
    let rc = 2.0 * (cbp7 / (cbp7 + P25_7)).sqrt(); // eq. 17
    let lb50 = (lb - 50.0) * (lb - 50.0);
    let sl = 1.0 + 0.015 * lb50 / (20.0 + lb50).sqrt(); // eq. 18
    let sc = 1.0 + 0.045 * cbp; // eq. 19
    let sh = 1.0 + 0.015 * cbp * t; // eq. 20
    let rt = -(2.0 * dtheta).to_radians().sin() * rc; // eq. 21
    let (tl, tc, th) = (dl / sl, dc / sc, dbh / sh);
    let de = (tl * tl + tc * tc + th * th + rt * tc * th).sqrt(); // eq. 22
    De00 { de, h1, h2, c1p, c2p, case, dist180: if zero { f64::INFINITY } else { (diff.abs() - 180.0).abs() } }
}

pub fn ciede2000(x: [f64; 3], y: [f64; 3]) -> De00 {
    ciede2000_ex(x, y, false)
}

/// sin and cos of an angle in degrees, exact at the multiples of 90°.
pub fn sincos_deg(deg: f64) -> (f64, f64) {
    let r = deg.rem_euclid(360.0);
    let k = (r / 90.0).round();
    let t = (r - 90.0 * k).to_radians();
    let (s, c) = t.sin_cos();
    match (k as i64).rem_euclid(4) {
        0 => (s, c),
        1 => (c, -s),
        2 => (-s, -c),
        _ => (-c, s),
    }
}

/// (L, C, h°) → (L, C·cos h, C·sin h)
pub fn polar_to_rect(p: [f64; 3]) -> [f64; 3] {
    let (s, c) = sincos_deg(p[2]);
    [p[0], p[1] * c, p[1] * s]
}

/// Smallest and largest value of `f` on the centre and the 2^6 corners of the box
/// centre ± half (DESIGN §3.4 backward-error envelope). Degenerate axes are not doubled.
pub fn hull6(centre: &[f64; 6], half: &[f64; 6], f: impl Fn(&[f64; 6]) -> f64) -> (f64, f64) {
    let v0 = f(centre);
    let (mut lo, mut hi) = (v0, v0);
    let live: Vec<usize> = (0..6).filter(|i| half[*i] > 0.0).collect();
    for mask in 0u32..(1u32 << live.len()) {
        let mut p = *centre;
        for (bit, &i) in live.iter().enumerate() {
            p[i] += if mask >> bit & 1 == 1 { half[i] } else { -half[i] };
        }
        let v = f(&p);
        if v.is_nan() {
            return (f64::NAN, f64::NAN);
        }
        lo = lo.min(v);
        hi = hi.max(v);
    }
    (lo, hi)
}

pub fn split6(p: &[f64; 6]) -> ([f64; 3], [f64; 3]) {
    ([p[0], p[1], p[2]], [p[3], p[4], p[5]])
}

// ---- closed forms --------------------------------------------------------------------------

pub fn euclid_sq(x: [f64; 3], y: [f64; 3]) -> f64 {
    let (d0, d1, d2) = (x[0] - y[0], x[1] - y[1], x[2] - y[2]);
    d0 * d0 + d1 * d1 + d2 * d2
}
pub fn euclid(x: [f64; 3], y: [f64; 3]) -> f64 {
    euclid_sq(x, y).sqrt()
}
/// |ΔL| + sqrt(Δa² + Δb²); component 0 is the lightness.
pub fn hyab(x: [f64; 3], y: [f64; 3]) -> f64 {
    let (d1, d2) = (x[1] - y[1], x[2] - y[2]);
    (x[0] - y[0]).abs() + (d1 * d1 + d2 * d2).sqrt()
}
/// Euclidean distance of two polar colours (L, C, h°), in the cancellation-free form
/// ΔL² + ΔC² + 4·C1·C2·sin²(Δh/2).
pub fn euclid_polar(p: [f64; 3], q: [f64; 3]) -> f64 {
    let (s, _) = sincos_deg((p[2] - q[2]) / 2.0);
    let (dl, dc) = (p[0] - q[0], p[1] - q[1]);
    (dl * dl + dc * dc + 4.0 * p[1] * q[1] * s * s).sqrt()
}
/// Huang et al. power function a·ΔE^b.
pub fn improved(a: f64, b: f64, de: f64) -> f64 {
    a * de.powf(b)
}
pub const HUANG_CIELAB: (f64, f64) = (1.26, 0.55);
pub const HUANG_CIEDE2000: (f64, f64) = (1.43, 0.70);
pub const HUANG_CAM16UCS: (f64, f64) = (1.41, 0.63);

// ---- WCAG 2.1 ---------------------------------------------------------------------------------

/// sRGB decoding. WCAG 2.1's text has the knee at 0.03928, IEC 61966-2-1 (which palette
/// documents for `Srgb` and therefore for `LinLuma`) at 0.04045; `knee` selects.
pub fn srgb_decode(v: f64, knee: f64) -> f64 {
    if v <= knee {
        v / 12.92
    } else {
        ((v + 0.055) / 1.055).powf(2.4)
    }
}
pub const KNEE_IEC: f64 = 0.04045;
pub const KNEE_WCAG: f64 = 0.03928;

/// Coefficients of the luminance row as WCAG 2.1 prints them (4 digits) …
pub const Y_WCAG: [f64; 3] = [0.2126, 0.7152, 0.0722];

/// … and the same row derived from the sRGB primaries (x, y) and the D65 white point
/// (Lindbloom's construction, ASTM E308 D65 — `pv::refmodel::rgb`), which is what "Y of linear
/// sRGB" (palette's documented `LinLuma`) means to full precision. The row derived with the
/// 4-digit white of IEC 61966-2-1 (0.212639, 0.715169, 0.072192) lies between the two,
/// component by component.
pub fn y_row_from_primaries() -> [f64; 3] {
    pv::refmodel::rgb::SRGB.rgb_to_xyz()[1]
}

/// Relative luminance interval of a *linear* RGB interval [lin_lo, lin_hi] (componentwise,
/// non-negative) over every reading of the coefficients between the two rows: (lo, hi).
pub fn luminance_hull(lin_lo: [f64; 3], lin_hi: [f64; 3], yrow: &[f64; 3]) -> (f64, f64) {
    let (mut a, mut b) = (0.0, 0.0);
    for i in 0..3 {
        a += Y_WCAG[i].min(yrow[i]) * lin_lo[i];
        b += Y_WCAG[i].max(yrow[i]) * lin_hi[i];
    }
    (a.clamp(0.0, 1.0), b.clamp(0.0, 1.0))
}

/// Decoded components for both knees: (componentwise min, componentwise max).
pub fn decode_hull(enc: [f64; 3]) -> ([f64; 3], [f64; 3]) {
    let mut lo = [0.0; 3];
    let mut hi = [0.0; 3];
    for i in 0..3 {
        let (a, b) = (srgb_decode(enc[i], KNEE_IEC), srgb_decode(enc[i], KNEE_WCAG));
        lo[i] = a.min(b);
        hi[i] = a.max(b);
    }
    (lo, hi)
}

/// (L1 + 0.05) / (L2 + 0.05), L1 the lighter.
pub fn contrast(la: f64, lb: f64) -> f64 {
    (la.max(lb) + 0.05) / (la.min(lb) + 0.05)
}

pub const THRESHOLDS: [(&str, f64); 5] = [("has_min_contrast_text", 4.5), ("has_min_contrast_large_text", 3.0), ("has_enhanced_contrast_text", 7.0), ("has_enhanced_contrast_large_text", 4.5), ("has_min_contrast_graphics", 3.0)];

// ---- self-validation -----------------------------------------------------------------------

/// The 34 published pairs of Sharma, Wu, Dalal (Table 1) as shipped in /repo; every one must be
/// reproduced to the published precision (1e-4), otherwise the reference is wrong.
pub fn validate_ciede2000(csv: &str) -> Result<(usize, f64), String> {
    let mut n = 0;
    let mut worst: f64 = 0.0;
    for (ln, line) in csv.lines().enumerate() {
        if ln == 0 || line.trim().is_empty() {
            continue;
        }
        let f: Vec<f64> = line.split(',').map(|s| s.trim().parse::<f64>().map_err(|e| format!("line {}: {e}", ln + 1))).collect::<Result<_, _>>()?;
        if f.len() != 7 {
            return Err(format!("line {}: {} fields", ln + 1, f.len()));
        }
        let r = ciede2000([f[0], f[1], f[2]], [f[3], f[4], f[5]]);
        let back = ciede2000([f[3], f[4], f[5]], [f[0], f[1], f[2]]);
        let e = (r.de - f[6]).abs().max((back.de - f[6]).abs());
        // the table is rounded to 4 decimals: 0.5e-4 rounding + 0.5e-4 margin
        if !(e <= 1.0e-4) {
            return Err(format!("pair {} of data_ciede_2000.csv: reference {} / {} (swapped), published {}", ln, r.de, back.de, f[6]));
        }
        worst = worst.max(e);
        n += 1;
    }
    if n != 34 {
        return Err(format!("expected the 34 published pairs, found {n}"));
    }
    Ok((n, worst))
}

pub fn selftest() -> Result<(), String> {
    // exact trig at the axes
    for (d, s, c) in [(0.0, 0.0, 1.0), (90.0, 1.0, 0.0), (180.0, 0.0, -1.0), (270.0, -1.0, 0.0), (-90.0, -1.0, 0.0), (450.0, 1.0, 0.0)] {
        let (ss, cc) = sincos_deg(d);
        if ss != s || cc != c {
            return Err(format!("sincos_deg({d}) = ({ss}, {cc})"));
        }
    }
    let (s, c) = sincos_deg(30.0);
    if (s - 0.5).abs() > 1e-15 || (c - 0.75f64.sqrt()).abs() > 1e-15 {
        return Err("sincos_deg(30)".into());
    }
    // WCAG worked values: white/black = 21, #777 on white ≈ 4.478 (the well-known "just fails AA")
    let yrow = y_row_from_primaries();
    if (yrow[0] - 0.2126729).abs() > 2e-6 || (yrow[1] - 0.7151522).abs() > 2e-6 || (yrow[2] - 0.0721750).abs() > 2e-6 {
        return Err(format!("Y row derived from the sRGB primaries = {yrow:?}"));
    }
    if (contrast(1.0, 0.0) - 21.0).abs() > 1e-12 {
        return Err("contrast(1, 0) != 21".into());
    }
    let g = srgb_decode(119.0 / 255.0, KNEE_WCAG);
    let r = contrast(1.0, g);
    if (r - 4.478).abs() > 1e-3 {
        return Err(format!("#777 on white = {r}, expected 4.478"));
    }
    // polar distance: (50, 10, 0°) vs (50, 10, 180°) = 20; hyab of (0,3,4) vs (1,0,0) = 1 + 5
    if (euclid_polar([50.0, 10.0, 0.0], [50.0, 10.0, 180.0]) - 20.0).abs() > 1e-12 || hyab([0.0, 3.0, 4.0], [1.0, 0.0, 0.0]) != 6.0 {
        return Err("closed forms".into());
    }
    Ok(())
}
