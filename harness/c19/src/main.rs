fn main() {
    eprintln!("C19: check not built yet");
    std::process::exit(3);
}
