//! CAM16 conversions on the boundary lattice: XYZ (the D65 XYZ lattice and the images of the sRGB /
//! Rec.2020 cube lattices) -> Cam16 (full and the six partial types) -> XYZ, Cam16 -> CAM16-UCS and
//! back, and the inverse model on the boundary lattice of the partial types (black: J = 0 / Q = 0).
//! Invariant: finite components, no panic. The input class of the one known defect (stimuli whose
//! achromatic response A is not positive, where the published J = 100 (A/A_w)^(cz) is not real) is
//! decided by the f64 reference model of c16, never from palette's output.
#[path = "../../c16/src/oracle.rs"]
#[allow(dead_code)]
mod cam_oracle;

use cam_oracle::{Cond64, Disc, Sur};
use palette::cam16::{Cam16, Cam16Jch, Cam16Jmh, Cam16Jsh, Cam16Qch, Cam16Qmh, Cam16Qsh, Cam16UcsJab, Cam16UcsJmh, Discounting, Parameters, StaticWp, Surround};
use palette::convert::FromColorUnclamped;
use palette::white_point::D65;
use palette::Xyz;
use pv::fl::Fl;
use pv::{json, Collector, Ctx, Tier, Value};

fn fin<T: Fl>(v: &[T]) -> bool {
    v.iter().all(|x| x.finite())
}
fn f64s<T: Fl>(v: &[T]) -> Vec<Value> {
    v.iter().map(|x| pv::report::fnum(x.to64())).collect()
}
fn hex<T: Fl>(v: &[T]) -> Vec<String> {
    v.iter().map(|x| format!("{:#x}", x.bits64())).collect()
}

#[derive(Clone, Copy)]
struct Cond {
    name: &'static str,
    la: f64,
    sur: Sur,
    disc: Disc,
}
const CONDS: [Cond; 3] = [
    Cond { name: "la40-average-auto", la: 40.0, sur: Sur::Average, disc: Disc::Auto },
    Cond { name: "la4-dim-custom1", la: 4.0, sur: Sur::Dim, disc: Disc::Custom(1.0) },
    Cond { name: "la318-dark-auto", la: 318.31, sur: Sur::Dark, disc: Disc::Auto },
];

/// Which correlates are given to the inverse model.
#[derive(Clone, Copy)]
enum Given {
    Jc,
    Jm,
    Js,
    Qc,
    Qm,
    Qs,
}

/// Reference inverse model (Li et al. 2017, Appendix A, inverse steps 1-4) up to the post-adaptation
/// responses R_a, G_a, B_a (without the 0.1 offset): the published inverse compression
/// 100/F_L (27.13 |x| / (400 - |x|))^(1/0.42) is real-valued only for |x| < 400. Returns the largest
/// |x|; correlates with max |x| >= 400 belong to no stimulus ("unrealisable").
fn ref_inverse_max_response(p: &cam_oracle::RefParams, g: Given, a: f64, b: f64, h_deg: f64) -> f64 {
    let fl4 = p.f_l.powf(0.25);
    let (j, q) = match g {
        Given::Jc | Given::Jm | Given::Js => (a, (4.0 / p.c) * (a / 100.0).sqrt() * (p.a_w + 4.0) * fl4),
        Given::Qc | Given::Qm | Given::Qs => (6.25 * (p.c * a / ((p.a_w + 4.0) * fl4)).powi(2), a),
    };
    if j == 0.0 {
        return 0.0; // black
    }
    let c = match g {
        Given::Jc | Given::Qc => b,
        Given::Jm | Given::Qm => b / fl4,
        Given::Js | Given::Qs => (b / 100.0).powi(2) * q / fl4,
    };
    let t = (c / ((j / 100.0).sqrt() * (1.64 - 0.29f64.powf(p.n)).powf(0.73))).powf(1.0 / 0.9);
    let h = h_deg.to_radians();
    let e_t = 0.25 * ((h + 2.0).cos() + 3.8);
    let a_cap = p.a_w * (j / 100.0).powf(1.0 / (p.c * p.z));
    let p2 = a_cap / p.n_bb + 0.305;
    let (ca, cb) = if t == 0.0 || !t.is_finite() {
        (0.0, 0.0)
    } else {
        // a = gamma cos h, b = gamma sin h, gamma = 23 p2 t / (23 p1 + 11 t cos h + 108 t sin h) with
        // p1 = (50000/13) N_c N_cb e_t (the closed form of the paper's case distinction on |sin h| >= |cos h|)
        let p1 = (50000.0 / 13.0) * p.n_c * p.n_cb * e_t;
        let gamma = 23.0 * p2 * t / (23.0 * p1 + 11.0 * t * h.cos() + 108.0 * t * h.sin());
        (gamma * h.cos(), gamma * h.sin())
    };
    let ra = (460.0 * p2 + 451.0 * ca + 288.0 * cb) / 1403.0;
    let ga = (460.0 * p2 - 891.0 * ca - 261.0 * cb) / 1403.0;
    let ba = (460.0 * p2 - 220.0 * ca - 6300.0 * cb) / 1403.0;
    // p2 already contains the +0.305 = 2*0.1 + 0.1 + 0.005 of the offsets: remove the 0.1 of each response
    let m = (ra - 0.1).abs().max((ga - 0.1).abs()).max((ba - 0.1).abs());
    if t.is_finite() { m } else { f64::INFINITY }
}

macro_rules! impl_cam {
    ($T:ty, $run:ident) => {
        fn $run(ctx: &Ctx, total: &mut Collector) {
            type T = $T;
            let sub = format!("cam16/{}", <T as Fl>::NAME);
            if !ctx.wants(&sub) {
                return;
            }
            let dense = ctx.tier == Tier::Thorough;
            // sources
            let mut xyzs: Vec<[f64; 3]> = pg::Kind::Xyz(pv::refmodel::cie::Wp::D65).lattice(dense);
            for spec in [pv::refmodel::rgb::SRGB, pv::refmodel::rgb::REC2020, pv::refmodel::rgb::ADOBE] {
                for v in pg::Kind::Rgb(spec).lattice(false) {
                    xyzs.push(spec.to_xyz(v));
                }
            }
            let hues: Vec<f64> = vec![0.0, 20.14, 90.0, 164.25, 180.0, 237.53, 270.0, 359.999999, -30.0, 380.14];
            let mut c = Collector::new();
            let (mut st, mut tr) = (0u64, 0u64);
            for cond in CONDS {
                let mut p: Parameters<StaticWp<D65>, T> = Parameters::default_static_wp(cond.la as T);
                p.surround = match cond.sur {
                    Sur::Average => Surround::Average,
                    Sur::Dim => Surround::Dim,
                    Sur::Dark => Surround::Dark,
                    Sur::Percent(x) => Surround::Percent(x as T),
                };
                p.discounting = match cond.disc {
                    Disc::Auto => Discounting::Auto,
                    Disc::Custom(d) => Discounting::Custom(d as T),
                };
                let baked = match pv::catch(|| p.bake()) {
                    Ok(b) => b,
                    Err(msg) => {
                        c.violation(&format!("C07/cam16/{}/{}/bake/panic", <T as Fl>::NAME, cond.name), 1.0, || json!({"sub": "cam16", "float": <T as Fl>::NAME, "cond": cond.name, "input": [], "observed": {"panic": msg}, "expected": "no panic"}));
                        continue;
                    }
                };
                let rp = cam_oracle::params(&Cond64 { la: cond.la, yb: 0.2, sur: cond.sur, disc: cond.disc, white: pv::refmodel::cie::Wp::D65.xyz() });
                // forward: XYZ -> everything
                for x64 in &xyzs {
                    let xv: [T; 3] = [x64[0] as T, x64[1] as T, x64[2] as T];
                    let x: Xyz<D65, T> = Xyz::new(xv[0], xv[1], xv[2]);
                    let r = cam_oracle::forward(&rp, [xv[0] as f64, xv[1] as f64, xv[2] as f64]);
                    // the published forward model is real-valued only for a positive achromatic response
                    let class = if r.a_cap > 0.0 || (xv[0] == 0.0 && xv[1] == 0.0 && xv[2] == 0.0) { "" } else { "@cam16-nonpositive-achromatic-response" };
                    st += 1;
                    let mk = |what: &str, obs: Value| json!({"sub": "cam16", "float": <T as Fl>::NAME, "cond": cond.name, "what": what, "input": hex(&xv), "value": f64s(&xv), "reference_A": pv::report::fnum(r.a_cap), "observed": obs, "expected": "finite components, no panic"});
                    macro_rules! chk {
                        ($what:expr, $e:expr) => {{
                            tr += 1;
                            match pv::catch(|| $e) {
                                Ok(v) => {
                                    if !fin(&v) {
                                        c.violation(&format!("C07/cam16/{}/{}/{}/non-finite{}", <T as Fl>::NAME, cond.name, $what, class), 1.0, || mk($what, json!(f64s(&v))));
                                    }
                                    c.outcome(v.iter().fold(0u64, |h, x| pv::splitmix(h ^ x.bits64())));
                                }
                                Err(msg) => c.violation(&format!("C07/cam16/{}/{}/{}/panic{}", <T as Fl>::NAME, cond.name, $what, class), 1.0, || mk($what, json!({"panic": msg}))),
                            }
                        }};
                    }
                    chk!("Xyz->Cam16", {
                        let k = Cam16::from_xyz(x, baked);
                        vec![k.lightness, k.chroma, k.hue.into_inner(), k.brightness, k.colorfulness, k.saturation]
                    });
                    chk!("Xyz->Cam16->Xyz", {
                        let b = Cam16::from_xyz(x, baked).into_xyz(baked);
                        vec![b.x, b.y, b.z]
                    });
                    macro_rules! partial {
                        ($name:literal, $P:ident, $a:ident, $b:ident) => {
                            chk!(concat!("Xyz->", $name), {
                                let k = $P::from_xyz(x, baked);
                                vec![k.$a, k.$b, k.hue.into_inner()]
                            });
                            chk!(concat!("Xyz->", $name, "->Xyz"), {
                                let b = $P::from_xyz(x, baked).into_xyz(baked);
                                vec![b.x, b.y, b.z]
                            });
                        };
                    }
                    partial!("Cam16Jch", Cam16Jch, lightness, chroma);
                    partial!("Cam16Jmh", Cam16Jmh, lightness, colorfulness);
                    partial!("Cam16Jsh", Cam16Jsh, lightness, saturation);
                    partial!("Cam16Qch", Cam16Qch, brightness, chroma);
                    partial!("Cam16Qmh", Cam16Qmh, brightness, colorfulness);
                    partial!("Cam16Qsh", Cam16Qsh, brightness, saturation);
                    chk!("Xyz->Cam16->Cam16UcsJmh->Cam16UcsJab->Cam16UcsJmh->Cam16Jmh", {
                        let k = Cam16::from_xyz(x, baked);
                        let u = Cam16UcsJmh::from_color_unclamped(k);
                        let ab = Cam16UcsJab::from_color_unclamped(u);
                        let u2 = Cam16UcsJmh::from_color_unclamped(ab);
                        let jm = Cam16Jmh::from_color_unclamped(u2);
                        vec![u.lightness, u.colorfulness, u.hue.into_inner(), ab.lightness, ab.a, ab.b, u2.colorfulness, jm.lightness, jm.colorfulness]
                    });
                }
                // inverse: boundary lattice of the partial types (documented ranges: lightness [0, 100],
                // the other attributes [0, inf): 0, tiny, ordinary, large), every hue of the list
                let js = [0.0, 1e-7, 50.0, 100.0];
                let qs = [0.0, 1e-7, 100.0, 200.0];
                let cs = [0.0, 1e-7, 40.0, 120.0];
                for &h in &hues {
                    for (ia, _) in js.iter().enumerate() {
                        for &cc in &cs {
                            st += 1;
                            let hv = h as T;
                            macro_rules! inv {
                                ($name:literal, $P:ident, $given:expr, $a:ident, $av:expr, $b:ident) => {{
                                    tr += 1;
                                    let (a, b) = ($av as T, cc as T);
                                    let k = $P { $a: a, $b: b, hue: hv.into() };
                                    let inp = [a, b, hv];
                                    let mresp = ref_inverse_max_response(&rp, $given, a as f64, b as f64, hv as f64);
                                    let class = if mresp < 399.0 { "" } else { "@cam16-unrealisable-correlates" };
                                    match pv::catch(|| {
                                        let x = k.into_xyz(baked);
                                        vec![x.x, x.y, x.z]
                                    }) {
                                        Ok(v) => {
                                            if !fin(&v) {
                                                c.violation(&format!("C07/cam16/{}/{}/{}->Xyz/non-finite{}", <T as Fl>::NAME, cond.name, $name, class), 1.0, || json!({"sub": "cam16", "float": <T as Fl>::NAME, "cond": cond.name, "what": concat!($name, "->Xyz"), "input": hex(&inp), "value": f64s(&inp), "reference_max_post_adaptation_response": pv::report::fnum(mresp), "observed": f64s(&v), "expected": "finite components, no panic"}));
                                            }
                                            c.outcome(v.iter().fold(1u64, |h, x| pv::splitmix(h ^ x.bits64())));
                                        }
                                        Err(msg) => c.violation(&format!("C07/cam16/{}/{}/{}->Xyz/panic", <T as Fl>::NAME, cond.name, $name), 1.0, || json!({"sub": "cam16", "float": <T as Fl>::NAME, "cond": cond.name, "what": concat!($name, "->Xyz"), "input": hex(&inp), "value": f64s(&inp), "observed": {"panic": msg}, "expected": "no panic"})),
                                    }
                                    // partial -> full colour: attribute algebra only (J <-> Q, C <-> M <-> s), defined on the whole
                                    // boundary lattice incl. black with a non-zero chromatic attribute
                                    tr += 1;
                                    match pv::catch(|| {
                                        let f = k.into_full(baked);
                                        vec![f.lightness, f.chroma, f.hue.into_inner(), f.brightness, f.colorfulness, f.saturation]
                                    }) {
                                        Ok(v) => {
                                            if !fin(&v) {
                                                c.violation(&format!("C07/cam16/{}/{}/{}->Cam16/non-finite", <T as Fl>::NAME, cond.name, $name), 1.0, || json!({"sub": "cam16", "float": <T as Fl>::NAME, "cond": cond.name, "what": concat!($name, "->Cam16 (into_full)"), "input": hex(&inp), "value": f64s(&inp), "observed": f64s(&v), "expected": "finite components, no panic"}));
                                            }
                                        }
                                        Err(msg) => c.violation(&format!("C07/cam16/{}/{}/{}->Cam16/panic", <T as Fl>::NAME, cond.name, $name), 1.0, || json!({"sub": "cam16", "float": <T as Fl>::NAME, "cond": cond.name, "what": concat!($name, "->Cam16 (into_full)"), "input": hex(&inp), "value": f64s(&inp), "observed": {"panic": msg}, "expected": "no panic"})),
                                    }
                                }};
                            }
                            inv!("Cam16Jch", Cam16Jch, Given::Jc, lightness, js[ia], chroma);
                            inv!("Cam16Jmh", Cam16Jmh, Given::Jm, lightness, js[ia], colorfulness);
                            inv!("Cam16Jsh", Cam16Jsh, Given::Js, lightness, js[ia], saturation);
                            inv!("Cam16Qch", Cam16Qch, Given::Qc, brightness, qs[ia], chroma);
                            inv!("Cam16Qmh", Cam16Qmh, Given::Qm, brightness, qs[ia], colorfulness);
                            inv!("Cam16Qsh", Cam16Qsh, Given::Qs, brightness, qs[ia], saturation);
                        }
                    }
                }
            }
            c.add(&sub, st, tr, tr, st);
            total.merge(c);
            total.exhaustive(&sub, true, &format!("{} viewing conditions (L_A 40 / 4 / 318, average / dim / dark, auto / full discounting; D65) x ({} XYZ values: the {} XYZ boundary lattice + the cube lattices of sRGB, Rec.2020 and Adobe RGB) x (Cam16 + 6 partial types forward and back, the UCS chain) + the boundary lattice of the 6 partial types (4 x 4 x {} hues) through the inverse model and into_full", CONDS.len(), xyzs.len(), if dense { "dense" } else { "coarse" }, hues.len()));
        }
    };
}
impl_cam!(f32, run_f32);
impl_cam!(f64, run_f64);

pub fn run(ctx: &Ctx, total: &mut Collector) {
    if let Err(e) = cam_oracle::selftest() {
        eprintln!("MACHINERY-FAILURE: CAM16 reference self-test: {e}");
        std::process::exit(3);
    }
    // the reference inverse reproduces the post-adaptation responses of the reference forward model
    let rp = cam_oracle::params(&Cond64 { la: 40.0, yb: 0.2, sur: Sur::Average, disc: Disc::Auto, white: pv::refmodel::cie::Wp::D65.xyz() });
    for xyz in [[0.1901, 0.2, 0.2178], [0.4, 0.2, 0.02], [0.18, 0.07, 0.95], [0.05, 0.1, 0.02]] {
        let r = cam_oracle::forward(&rp, xyz);
        let m = &cam_oracle::M16;
        let x = [xyz[0] * 100.0, xyz[1] * 100.0, xyz[2] * 100.0];
        let mut want = 0.0f64;
        for i in 0..3 {
            let rc = rp.d_rgb[i] * (m[i][0] * x[0] + m[i][1] * x[1] + m[i][2] * x[2]);
            let pw = (rp.f_l * rc.abs() / 100.0).powf(0.42);
            want = want.max((400.0 * pw / (pw + 27.13)).abs());
        }
        for (g, a, b) in [(Given::Jc, r.j, r.c), (Given::Jm, r.j, r.m), (Given::Js, r.j, r.s), (Given::Qc, r.q, r.c), (Given::Qm, r.q, r.m), (Given::Qs, r.q, r.s)] {
            let got = ref_inverse_max_response(&rp, g, a, b, r.h);
            if !((got - want).abs() <= 1e-6 * want) {
                eprintln!("MACHINERY-FAILURE: CAM16 reference inverse does not invert the reference forward model at {xyz:?}: {got} vs {want}");
                std::process::exit(3);
            }
        }
    }
    run_f32(ctx, total);
    run_f64(ctx, total);
}
