//! The value lattice, the `Case` abstraction and its implementations for every palette type
//! that implements Serialize/Deserialize under the `serializing` feature.
use crate::fmt::{roundtrip, Fmt, Got};
use crate::tok::{alpha_rule, Tok};
use palette::blend::{PreAlpha, Premultiply};
use palette::stimulus::Stimulus;
use palette::Alpha;
use serde::de::DeserializeOwned;
use serde::Serialize;
use std::collections::HashMap;

/// number of lattice points per scalar type
pub const LN: usize = 21;

/// A primitive component type with its value lattice.
pub trait Prim: Serialize + DeserializeOwned + Copy + Stimulus + Send + Sync + 'static {
    const NAME: &'static str;
    fn lat(i: usize) -> Self;
    fn pbits(self) -> u128;
    fn tok(self) -> Tok;
    /// full opacity, stated independently of `Stimulus::max_intensity`
    fn opaque() -> Self;
    /// the documented optional-alpha helper at this concrete alpha type (called per concrete type so
    /// that the harness type-checks whatever trait bound the helper puts on its alpha parameter)
    fn opt_alpha<'de, C: serde::Deserialize<'de>, D: serde::Deserializer<'de>>(d: D) -> Result<Alpha<C, Self>, D::Error>;
    fn opt_pre<'de, C: Premultiply<Scalar = Self> + serde::Deserialize<'de>, D: serde::Deserializer<'de>>(d: D) -> Result<PreAlpha<C>, D::Error>;
}
macro_rules! opt_alpha_body {
    () => {
        fn opt_alpha<'de, C: serde::Deserialize<'de>, D: serde::Deserializer<'de>>(d: D) -> Result<Alpha<C, Self>, D::Error> {
            palette::serde::deserialize_with_optional_alpha(d)
        }
        fn opt_pre<'de, C: Premultiply<Scalar = Self> + serde::Deserialize<'de>, D: serde::Deserializer<'de>>(d: D) -> Result<PreAlpha<C>, D::Error> {
            palette::serde::deserialize_with_optional_pre_alpha(d)
        }
    };
}

impl Prim for f32 {
    opt_alpha_body!();
    const NAME: &'static str = "f32";
    fn lat(i: usize) -> f32 {
        [
            0.0, 1.0, 0.1, 0.25, 0.5, 0.75, -0.0, -1.5, 1.0 / 3.0, 255.0, 1e-30, 1e10, f32::MAX, f32::MIN, f32::MIN_POSITIVE,
            f32::from_bits(1), 360.0, f32::INFINITY, f32::NEG_INFINITY, f32::NAN, f32::from_bits(0xffc0_0001),
        ][i]
    }
    fn pbits(self) -> u128 {
        self.to_bits() as u128
    }
    fn tok(self) -> Tok {
        Tok::F32(self.to_bits())
    }
    fn opaque() -> f32 {
        1.0
    }
}
impl Prim for f64 {
    opt_alpha_body!();
    const NAME: &'static str = "f64";
    fn lat(i: usize) -> f64 {
        [
            0.0, 1.0, 0.1, 0.25, 0.5, 0.75, -0.0, -1.5, 1.0 / 3.0, 255.0, 1e-30, 1e10, f64::MAX, f64::MIN, f64::MIN_POSITIVE,
            f64::from_bits(1), 360.0, f64::INFINITY, f64::NEG_INFINITY, f64::NAN, f64::from_bits(0xfff8_0000_0000_0001),
        ][i]
    }
    fn pbits(self) -> u128 {
        self.to_bits() as u128
    }
    fn tok(self) -> Tok {
        Tok::F64(self.to_bits())
    }
    fn opaque() -> f64 {
        1.0
    }
}
impl Prim for u8 {
    opt_alpha_body!();
    const NAME: &'static str = "u8";
    fn lat(i: usize) -> u8 {
        [0, 255, 1, 2, 3, 4, 128, 127, 254, 10, 20, 30, 40, 50, 60, 70, 80, 90, 100, 200, 250][i]
    }
    fn pbits(self) -> u128 {
        self as u128
    }
    fn tok(self) -> Tok {
        Tok::U8(self)
    }
    fn opaque() -> u8 {
        255
    }
}
impl Prim for u16 {
    opt_alpha_body!();
    const NAME: &'static str = "u16";
    fn lat(i: usize) -> u16 {
        [0, 65535, 1, 2, 3, 4, 32768, 32767, 65534, 255, 256, 257, 1000, 10000, 12345, 54321, 0x0102, 0x0201, 0xff00, 0x00ff, 0x8001][i]
    }
    fn pbits(self) -> u128 {
        self as u128
    }
    fn tok(self) -> Tok {
        Tok::U16(self)
    }
    fn opaque() -> u16 {
        65535
    }
}

/// control cache: which primitive values a format can carry at all
#[derive(Default)]
pub struct Env {
    prim: HashMap<(u8, &'static str, u128), bool>,
    /// subject + control operations executed (for the counters)
    pub ops: u64,
}
impl Env {
    pub fn prim_ok<P: Prim>(&mut self, f: Fmt, v: P) -> bool {
        let k = (f.id(), P::NAME, v.pbits());
        if let Some(b) = self.prim.get(&k) {
            return *b;
        }
        let ok = matches!(roundtrip::<P>(f, &v).1, Got::Value(y) if y.pbits() == v.pbits());
        self.prim.insert(k, ok);
        ok
    }
    /// does `x`, taken alone, survive format `f` bit for bit
    pub fn rt_ok<T: Case>(&mut self, f: Fmt, x: &T) -> bool {
        self.ops += 2;
        matches!(roundtrip::<T>(f, x).1, Got::Value(y) if y.bits() == x.bits())
    }
}

pub trait Case: Serialize + DeserializeOwned + 'static {
    /// number of lattice-driven components
    const N: usize;
    /// inside the property statement: must round-trip. Otherwise only "never a wrong value".
    const STRICT: bool = true;
    /// strictness when wrapped in Alpha / PreAlpha
    const WRAP_STRICT: bool = Self::STRICT;
    const ALPHA_DEPTH: usize = 0;
    fn name() -> String;
    /// serde shape label (used in signatures of the wrapped forms)
    fn shape() -> String {
        "struct".into()
    }
    /// serde shape class: the AlphaSerializer / AlphaDeserializer method that handles the type
    /// (used in signatures of the wrapped forms: one forwarding method, one signature)
    fn class() -> String {
        Self::shape()
    }
    /// call-site label in finding signatures
    fn sig() -> String {
        Self::name()
    }
    /// formats in which the type itself is expected to work (serde attribute limitations)
    fn applicable(_f: Fmt) -> bool {
        true
    }
    fn build(ix: &[usize]) -> Self;
    /// bitwise identity of the data
    fn bits(&self) -> Vec<u128>;
    /// independent prediction of the serde data-model calls
    fn expect(&self) -> Option<Vec<Tok>> {
        None
    }
    /// control: every part of the value, taken alone, survives the format
    fn parts_ok(&self, f: Fmt, env: &mut Env) -> bool;
}

macro_rules! fv {
    (n, $e:expr) => {
        $e
    };
    (h, $e:expr) => {
        $e.into_inner()
    };
}

/// palette colour struct: label, type, component type, serde struct name, fields in
/// declaration order with kind (n = number, h = hue)
macro_rules! color {
    ($label:expr, $ty:ty, $comp:ty, $sname:expr, [$($f:ident $k:tt),+]) => {
        impl Case for $ty {
            const N: usize = [$(stringify!($f)),+].len();
            fn name() -> String { $label.to_string() }
            fn build(ix: &[usize]) -> Self {
                let mut it = ix.iter();
                <$ty>::new($({ let _ = stringify!($f); <$comp as Prim>::lat(*it.next().unwrap()) }),+)
            }
            fn bits(&self) -> Vec<u128> { vec![$(Prim::pbits(fv!($k, self.$f))),+] }
            fn expect(&self) -> Option<Vec<Tok>> {
                let mut t = vec![Tok::Struct($sname, Self::N)];
                let mut i = 0u32;
                $( t.push(Tok::Field(stringify!($f), i)); i += 1; t.push(Prim::tok(fv!($k, self.$f))); )+
                let _ = i;
                t.push(Tok::StructEnd);
                Some(t)
            }
            fn parts_ok(&self, f: Fmt, env: &mut Env) -> bool { true $(&& env.prim_ok(f, fv!($k, self.$f)))+ }
        }
    };
}

macro_rules! hue {
    ($label:expr, $ty:ty, $comp:ty) => {
        impl Case for $ty {
            const N: usize = 1;
            // a hue is not a colour: Alpha<Hue> is outside the statement
            const WRAP_STRICT: bool = false;
            fn name() -> String {
                $label.to_string()
            }
            fn shape() -> String {
                "hue".into()
            }
            fn build(ix: &[usize]) -> Self {
                <$ty>::new(<$comp as Prim>::lat(ix[0]))
            }
            fn bits(&self) -> Vec<u128> {
                vec![Prim::pbits(self.into_inner())]
            }
            fn expect(&self) -> Option<Vec<Tok>> {
                Some(vec![Prim::tok(self.into_inner())])
            }
            fn parts_ok(&self, f: Fmt, env: &mut Env) -> bool {
                env.prim_ok(f, self.into_inner())
            }
        }
    };
}

use palette::cam16::{Cam16UcsJab, Cam16UcsJmh};
use palette::encoding::{Linear, Srgb as SrgbStd};
use palette::hues::{Cam16Hue, LabHue, LuvHue, OklabHue, RgbHue};
use palette::lms::{BradfordLms, VonKriesLms};
use palette::luma::Luma;
use palette::rgb::Rgb;
use palette::white_point::{D50, D65};
use palette::{Hsl, Hsluv, Hsv, Hwb, Lab, Lch, Lchuv, Luv, Okhsl, Okhsv, Okhwb, Oklab, Oklch, Xyz, Yxy};

macro_rules! float_colors {
    ($t:ident) => {
        color!(concat!("Rgb<Srgb,", stringify!($t), ">"), Rgb<SrgbStd, $t>, $t, "Rgb", [red n, green n, blue n]);
        color!(concat!("Rgb<Linear<Srgb>,", stringify!($t), ">"), Rgb<Linear<SrgbStd>, $t>, $t, "Rgb", [red n, green n, blue n]);
        color!(concat!("Luma<Srgb,", stringify!($t), ">"), Luma<SrgbStd, $t>, $t, "Luma", [luma n]);
        color!(concat!("Luma<Linear<D65>,", stringify!($t), ">"), Luma<Linear<D65>, $t>, $t, "Luma", [luma n]);
        color!(concat!("Hsl<Srgb,", stringify!($t), ">"), Hsl<SrgbStd, $t>, $t, "Hsl", [hue h, saturation n, lightness n]);
        color!(concat!("Hsv<Srgb,", stringify!($t), ">"), Hsv<SrgbStd, $t>, $t, "Hsv", [hue h, saturation n, value n]);
        color!(concat!("Hwb<Srgb,", stringify!($t), ">"), Hwb<SrgbStd, $t>, $t, "Hwb", [hue h, whiteness n, blackness n]);
        color!(concat!("Lab<D65,", stringify!($t), ">"), Lab<D65, $t>, $t, "Lab", [l n, a n, b n]);
        color!(concat!("Lab<D50,", stringify!($t), ">"), Lab<D50, $t>, $t, "Lab", [l n, a n, b n]);
        color!(concat!("Lch<D65,", stringify!($t), ">"), Lch<D65, $t>, $t, "Lch", [l n, chroma n, hue h]);
        color!(concat!("Luv<D65,", stringify!($t), ">"), Luv<D65, $t>, $t, "Luv", [l n, u n, v n]);
        color!(concat!("Lchuv<D65,", stringify!($t), ">"), Lchuv<D65, $t>, $t, "Lchuv", [l n, chroma n, hue h]);
        color!(concat!("Hsluv<D65,", stringify!($t), ">"), Hsluv<D65, $t>, $t, "Hsluv", [hue h, saturation n, l n]);
        color!(concat!("Xyz<D65,", stringify!($t), ">"), Xyz<D65, $t>, $t, "Xyz", [x n, y n, z n]);
        color!(concat!("Yxy<D65,", stringify!($t), ">"), Yxy<D65, $t>, $t, "Yxy", [x n, y n, luma n]);
        color!(concat!("Oklab<", stringify!($t), ">"), Oklab<$t>, $t, "Oklab", [l n, a n, b n]);
        color!(concat!("Oklch<", stringify!($t), ">"), Oklch<$t>, $t, "Oklch", [l n, chroma n, hue h]);
        color!(concat!("Okhsl<", stringify!($t), ">"), Okhsl<$t>, $t, "Okhsl", [hue h, saturation n, lightness n]);
        color!(concat!("Okhsv<", stringify!($t), ">"), Okhsv<$t>, $t, "Okhsv", [hue h, saturation n, value n]);
        color!(concat!("Okhwb<", stringify!($t), ">"), Okhwb<$t>, $t, "Okhwb", [hue h, whiteness n, blackness n]);
        color!(concat!("VonKriesLms<D65,", stringify!($t), ">"), VonKriesLms<D65, $t>, $t, "Lms", [long n, medium n, short n]);
        color!(concat!("BradfordLms<D65,", stringify!($t), ">"), BradfordLms<D65, $t>, $t, "Lms", [long n, medium n, short n]);
        color!(concat!("Cam16UcsJab<", stringify!($t), ">"), Cam16UcsJab<$t>, $t, "Cam16UcsJab", [lightness n, a n, b n]);
        color!(concat!("Cam16UcsJmh<", stringify!($t), ">"), Cam16UcsJmh<$t>, $t, "Cam16UcsJmh", [lightness n, colorfulness n, hue h]);
        hue!(concat!("RgbHue<", stringify!($t), ">"), RgbHue<$t>, $t);
        hue!(concat!("LabHue<", stringify!($t), ">"), LabHue<$t>, $t);
        hue!(concat!("LuvHue<", stringify!($t), ">"), LuvHue<$t>, $t);
        hue!(concat!("OklabHue<", stringify!($t), ">"), OklabHue<$t>, $t);
        hue!(concat!("Cam16Hue<", stringify!($t), ">"), Cam16Hue<$t>, $t);
    };
}
float_colors!(f32);
float_colors!(f64);
color!("Rgb<Srgb,u8>", Rgb<SrgbStd, u8>, u8, "Rgb", [red n, green n, blue n]);
color!("Rgb<Srgb,u16>", Rgb<SrgbStd, u16>, u16, "Rgb", [red n, green n, blue n]);
color!("Luma<Srgb,u8>", Luma<SrgbStd, u8>, u8, "Luma", [luma n]);
color!("Luma<Srgb,u16>", Luma<SrgbStd, u16>, u16, "Luma", [luma n]);
hue!("RgbHue<u8>", RgbHue<u8>, u8);

// ---------------------------------------------------------------------------------------
// the transparent wrappers, generically

impl<C: Case, A: Prim> Case for Alpha<C, A> {
    const N: usize = C::N + 1;
    const STRICT: bool = C::WRAP_STRICT;
    const WRAP_STRICT: bool = false; // two `alpha` fields at one level: outside the statement
    const ALPHA_DEPTH: usize = C::ALPHA_DEPTH + 1;
    fn name() -> String {
        format!("Alpha<{},{}>", C::name(), A::NAME)
    }
    fn shape() -> String {
        format!("Alpha<{}>", C::shape())
    }
    fn class() -> String {
        format!("Alpha<{}>", C::class())
    }
    fn sig() -> String {
        format!("Alpha<{}>", C::class())
    }
    fn applicable(f: Fmt) -> bool {
        C::applicable(f)
    }
    fn build(ix: &[usize]) -> Self {
        Alpha { color: C::build(&ix[..C::N]), alpha: A::lat(ix[C::N]) }
    }
    fn bits(&self) -> Vec<u128> {
        let mut b = self.color.bits();
        b.push(self.alpha.pbits());
        b
    }
    fn expect(&self) -> Option<Vec<Tok>> {
        self.color.expect().and_then(|t| alpha_rule(&t, &[self.alpha.tok()]))
    }
    fn parts_ok(&self, f: Fmt, env: &mut Env) -> bool {
        self.color.parts_ok(f, env) && env.prim_ok(f, self.alpha) && env.rt_ok(f, &self.color)
    }
}

impl<C: Case + Premultiply> Case for PreAlpha<C>
where
    C::Scalar: Prim,
{
    const N: usize = C::N + 1;
    const STRICT: bool = C::WRAP_STRICT;
    const WRAP_STRICT: bool = false;
    const ALPHA_DEPTH: usize = C::ALPHA_DEPTH + 1;
    fn name() -> String {
        format!("PreAlpha<{}>", C::name())
    }
    fn shape() -> String {
        format!("PreAlpha<{}>", C::shape())
    }
    fn class() -> String {
        format!("PreAlpha<{}>", C::class())
    }
    fn sig() -> String {
        format!("PreAlpha<{}>", C::class())
    }
    fn applicable(f: Fmt) -> bool {
        C::applicable(f)
    }
    fn build(ix: &[usize]) -> Self {
        PreAlpha { color: C::build(&ix[..C::N]), alpha: <C::Scalar as Prim>::lat(ix[C::N]) }
    }
    fn bits(&self) -> Vec<u128> {
        let mut b = self.color.bits();
        b.push(self.alpha.pbits());
        b
    }
    fn expect(&self) -> Option<Vec<Tok>> {
        self.color.expect().and_then(|t| alpha_rule(&t, &[self.alpha.tok()]))
    }
    fn parts_ok(&self, f: Fmt, env: &mut Env) -> bool {
        self.color.parts_ok(f, env) && env.prim_ok(f, self.alpha) && env.rt_ok(f, &self.color)
    }
}

/// The two transparent wrappers seen uniformly, with their optional-alpha helper.
pub trait AlphaLike: Case {
    type Color: Case;
    type Al: Prim;
    /// deserializes through the documented optional-alpha helper
    type Opt: DeserializeOwned;
    const HELPER: &'static str;
    fn color(&self) -> &Self::Color;
    fn alpha(&self) -> Self::Al;
    fn with_alpha(&self, a: Self::Al) -> Vec<u128> {
        let mut b = self.color().bits();
        b.push(a.pbits());
        b
    }
    fn unopt(o: Self::Opt) -> Self;
}

pub struct OptA<C, A>(pub Alpha<C, A>);
impl<'de, C: serde::Deserialize<'de>, A: Prim> serde::Deserialize<'de> for OptA<C, A> {
    fn deserialize<D: serde::Deserializer<'de>>(d: D) -> Result<Self, D::Error> {
        A::opt_alpha(d).map(OptA)
    }
}
pub struct OptP<C: Premultiply>(pub PreAlpha<C>);
impl<'de, C: Premultiply + serde::Deserialize<'de>> serde::Deserialize<'de> for OptP<C>
where
    C::Scalar: Prim,
{
    fn deserialize<D: serde::Deserializer<'de>>(d: D) -> Result<Self, D::Error> {
        <C::Scalar as Prim>::opt_pre(d).map(OptP)
    }
}

impl<C: Case, A: Prim> AlphaLike for Alpha<C, A> {
    type Color = C;
    type Al = A;
    type Opt = OptA<C, A>;
    const HELPER: &'static str = "deserialize_with_optional_alpha";
    fn color(&self) -> &C {
        &self.color
    }
    fn alpha(&self) -> A {
        self.alpha
    }
    fn unopt(o: OptA<C, A>) -> Self {
        o.0
    }
}
impl<C: Case + Premultiply> AlphaLike for PreAlpha<C>
where
    C::Scalar: Prim,
{
    type Color = C;
    type Al = C::Scalar;
    type Opt = OptP<C>;
    const HELPER: &'static str = "deserialize_with_optional_pre_alpha";
    fn color(&self) -> &C {
        &self.color
    }
    fn alpha(&self) -> C::Scalar {
        self.alpha
    }
    fn unopt(o: OptP<C>) -> Self {
        o.0
    }
}
