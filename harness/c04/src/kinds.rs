//! Element kinds, buffer owners, erased observations and the generic runners that execute one
//! cast on one buffer and record what happened (pointers, lengths, capacities, contents,
//! allocator events). Everything that *judges* an observation is non-generic (main.rs).
use crate::subjects::{Prim, Subject, USubject};
use crate::track;
use core::marker::PhantomData;

#[derive(Clone, Copy, Debug, PartialEq, Eq)]
pub enum Owner {
    Slice,
    Array,
    Box,
    Vec,
    Value,
}
impl Owner {
    pub fn name(self) -> &'static str {
        match self {
            Owner::Slice => "slice",
            Owner::Array => "array",
            Owner::Box => "box",
            Owner::Vec => "vec",
            Owner::Value => "value",
        }
    }
    pub fn parse(s: &str) -> Option<Owner> {
        Some(match s {
            "slice" => Owner::Slice,
            "array" => Owner::Array,
            "box" => Owner::Box,
            "vec" => Owner::Vec,
            "value" => Owner::Value,
            _ => return None,
        })
    }
}

/// One case: buffer length (elements of the input kind), requested capacity (Vec owners; for the
/// by-value component-array forms: the output array length M), sentinel pattern, owner.
#[derive(Clone, Copy, Debug)]
pub struct P {
    pub len: usize,
    pub cap: usize,
    pub pat: u8,
    pub owner: Owner,
}

#[derive(Clone, Debug)]
pub enum Outcome {
    Ok { ptr: usize, len: usize, cap: usize, bits: Vec<u128> },
    Rej { kind: &'static str, ptr: usize, len: usize, cap: usize, bits: Vec<u128> },
    Panic(String),
}

#[derive(Clone, Debug)]
pub struct Obs {
    pub in_ptr: usize,
    pub in_len: usize,
    pub in_cap: usize,
    pub in_per: usize,
    pub out_per: usize,
    pub in_elem_size: usize,
    pub in_elem_align: usize,
    pub out_elem_size: usize,
    pub out_elem_align: usize,
    /// pointer identity is meaningful (borrowed / boxed / vector forms)
    pub has_ptr: bool,
    /// capacity is meaningful (a Vec was moved through the cast)
    pub has_cap: bool,
    pub outcome: Outcome,
    /// shared-reference forms: the original buffer read again after the cast
    pub orig_after: Option<Vec<u128>>,
    /// mutable forms: the original buffer read after generation-1 sentinels were written through the view
    pub wt_after: Option<Vec<u128>>,
    /// allocator log: phase 0 = building the input, 1 = the cast, 2 = dropping the result
    pub ev: Vec<Vec<track::Ev>>,
    pub ev_overflow: bool,
    /// subject operations executed
    pub ops: u64,
}

// -----------------------------------------------------------------------------------------
// element kinds

pub trait Kind: 'static {
    type E: 'static;
    /// components per element
    const PER: usize;
    /// element whose first component has sentinel index `i0`
    fn mk(i0: usize, pat: u8, gen: u8) -> Self::E;
    fn flat(e: &Self::E, out: &mut Vec<u128>);
}

/// the colour type itself (built field by field, read with its own `into_components()`)
pub struct KC<C, T, const N: usize>(PhantomData<(C, T)>);
/// its array type `[T; N]`
pub struct KA<C, T, const N: usize>(PhantomData<(C, T)>);
/// its component type `T`
pub struct KT<C, T, const N: usize>(PhantomData<(C, T)>);

impl<C: Subject<T, N>, T: Prim, const N: usize> Kind for KC<C, T, N> {
    type E = C;
    const PER: usize = N;
    #[inline(never)]
    fn mk(i0: usize, pat: u8, gen: u8) -> C {
        C::build(core::array::from_fn(|k| T::sent(i0 + k, pat, gen)))
    }
    #[inline(never)]
    fn flat(e: &C, out: &mut Vec<u128>) {
        for x in e.clone().comps() {
            out.push(x.bits());
        }
    }
}
impl<C: 'static, T: Prim, const N: usize> Kind for KA<C, T, N> {
    type E = [T; N];
    const PER: usize = N;
    #[inline(never)]
    fn mk(i0: usize, pat: u8, gen: u8) -> [T; N] {
        core::array::from_fn(|k| T::sent(i0 + k, pat, gen))
    }
    #[inline(never)]
    fn flat(e: &[T; N], out: &mut Vec<u128>) {
        for x in e {
            out.push(x.bits());
        }
    }
}
impl<C: 'static, T: Prim, const N: usize> Kind for KT<C, T, N> {
    type E = T;
    const PER: usize = 1;
    #[inline(never)]
    fn mk(i0: usize, pat: u8, gen: u8) -> T {
        T::sent(i0, pat, gen)
    }
    #[inline(never)]
    fn flat(e: &T, out: &mut Vec<u128>) {
        out.push(e.bits());
    }
}

/// a `UintCast` colour (one unsigned integer), built and read through its field
pub struct KUC<C, U>(PhantomData<(C, U)>);
/// the unsigned integer
pub struct KUU<C, U>(PhantomData<(C, U)>);
impl<C: USubject<U>, U: Prim> Kind for KUC<C, U> {
    type E = C;
    const PER: usize = 1;
    #[inline(never)]
    fn mk(i0: usize, pat: u8, gen: u8) -> C {
        C::build(U::sent(i0, pat, gen))
    }
    #[inline(never)]
    fn flat(e: &C, out: &mut Vec<u128>) {
        out.push(e.get().bits());
    }
}
impl<C: 'static, U: Prim> Kind for KUU<C, U> {
    type E = U;
    const PER: usize = 1;
    #[inline(never)]
    fn mk(i0: usize, pat: u8, gen: u8) -> U {
        U::sent(i0, pat, gen)
    }
    #[inline(never)]
    fn flat(e: &U, out: &mut Vec<u128>) {
        out.push(e.bits());
    }
}

#[inline(never)]
pub fn flat_all<K: Kind>(s: &[K::E]) -> Vec<u128> {
    track::off(|| {
        let mut v = Vec::with_capacity(s.len() * K::PER);
        for e in s {
            K::flat(e, &mut v);
        }
        v
    })
}

/// Build the input vector. The capacity is obtained with `with_capacity` (even patterns) or
/// `with_capacity(len)` + `reserve_exact` (odd patterns); callers read `capacity()` back.
#[inline(never)]
pub fn mk_vec<K: Kind>(len: usize, cap: usize, pat: u8) -> Vec<K::E> {
    let cap = cap.max(len);
    let mut v: Vec<K::E> = if pat & 1 == 0 { Vec::with_capacity(cap) } else { Vec::with_capacity(len) };
    for j in 0..len {
        v.push(K::mk(j * K::PER, pat, 0));
    }
    if v.capacity() < cap {
        v.reserve_exact(cap - len);
    }
    v
}

// -----------------------------------------------------------------------------------------
// type erasure: raw parts + per-kind tables of typed operations, so that the code generated
// per (type, form) is only the cast call itself

#[derive(Clone, Copy, Debug)]
pub struct RawBuf {
    pub ptr: *mut u8,
    pub len: usize,
    pub cap: usize,
}

fn raw_of_vec<E>(v: Vec<E>) -> RawBuf {
    let mut v = core::mem::ManuallyDrop::new(v);
    RawBuf { ptr: v.as_mut_ptr() as *mut u8, len: v.len(), cap: v.capacity() }
}
unsafe fn vec_of_raw<E>(r: RawBuf) -> Vec<E> {
    Vec::from_raw_parts(r.ptr as *mut E, r.len, r.cap)
}
fn raw_of_box<E>(b: Box<[E]>) -> RawBuf {
    let len = b.len();
    let p = Box::into_raw(b) as *mut E;
    RawBuf { ptr: p as *mut u8, len, cap: len }
}
unsafe fn box_of_raw<E>(r: RawBuf) -> Box<[E]> {
    Box::from_raw(core::ptr::slice_from_raw_parts_mut(r.ptr as *mut E, r.len))
}

pub struct KindVt {
    pub per: usize,
    pub size: usize,
    pub align: usize,
    pub mk_vec: fn(usize, usize, u8) -> RawBuf,
    pub mk_box: fn(usize, u8) -> RawBuf,
    pub mk_box1: fn(u8) -> *mut u8,
    pub flat: unsafe fn(*const u8, usize) -> Vec<u128>,
    pub write: unsafe fn(*mut u8, usize, u8),
    pub drop_vec: unsafe fn(RawBuf),
    pub drop_box: unsafe fn(RawBuf),
    pub drop_box1: unsafe fn(*mut u8),
}
fn vt_mk_vec<K: Kind>(len: usize, cap: usize, pat: u8) -> RawBuf {
    raw_of_vec(mk_vec::<K>(len, cap, pat))
}
fn vt_mk_box<K: Kind>(len: usize, pat: u8) -> RawBuf {
    raw_of_box(mk_vec::<K>(len, len, pat).into_boxed_slice())
}
fn vt_mk_box1<K: Kind>(pat: u8) -> *mut u8 {
    Box::into_raw(Box::new(K::mk(0, pat, 0))) as *mut u8
}
unsafe fn vt_flat<K: Kind>(p: *const u8, len: usize) -> Vec<u128> {
    flat_all::<K>(core::slice::from_raw_parts(p as *const K::E, len))
}
unsafe fn vt_write<K: Kind>(p: *mut u8, len: usize, pat: u8) {
    let p = p as *mut K::E;
    for j in 0..len {
        // the element types have no destructors: overwrite in place
        core::ptr::write(p.add(j), K::mk(j * K::PER, pat, 1));
    }
}
unsafe fn vt_drop_vec<K: Kind>(r: RawBuf) {
    drop(vec_of_raw::<K::E>(r))
}
unsafe fn vt_drop_box<K: Kind>(r: RawBuf) {
    drop(box_of_raw::<K::E>(r))
}
unsafe fn vt_drop_box1<K: Kind>(p: *mut u8) {
    drop(Box::from_raw(p as *mut K::E))
}
pub fn kind_vt<K: Kind>() -> KindVt {
    KindVt {
        per: K::PER,
        size: core::mem::size_of::<K::E>(),
        align: core::mem::align_of::<K::E>(),
        mk_vec: vt_mk_vec::<K>,
        mk_box: vt_mk_box::<K>,
        mk_box1: vt_mk_box1::<K>,
        flat: vt_flat::<K>,
        write: vt_write::<K>,
        drop_vec: vt_drop_vec::<K>,
        drop_box: vt_drop_box::<K>,
        drop_box1: vt_drop_box1::<K>,
    }
}

// -----------------------------------------------------------------------------------------
// owners

pub trait Own<E>: Sized + 'static {
    type View: ?Sized + 'static;
    const USES_CAP: bool;
    fn from_vec(v: Vec<E>) -> Self;
    fn data_mut(&mut self) -> &mut [E];
    fn cap(&self) -> usize;
    /// rebuild the view reference from the erased owner address (sized owners) or data (slices)
    unsafe fn view_ref<'a>(obj: *mut u8, data: *mut u8, len: usize) -> &'a Self::View;
    unsafe fn view_mut<'a>(obj: *mut u8, data: *mut u8, len: usize) -> &'a mut Self::View;
    const IS_SLICE: bool = false;
}
/// a plain slice (backed by a vector with exact capacity)
pub struct Sl<E>(Vec<E>);
impl<E: 'static> Own<E> for Sl<E> {
    type View = [E];
    const USES_CAP: bool = false;
    const IS_SLICE: bool = true;
    fn from_vec(v: Vec<E>) -> Self {
        Sl(v)
    }
    fn data_mut(&mut self) -> &mut [E] {
        &mut self.0
    }
    fn cap(&self) -> usize {
        self.0.len()
    }
    unsafe fn view_ref<'a>(_obj: *mut u8, data: *mut u8, len: usize) -> &'a [E] {
        core::slice::from_raw_parts(data as *const E, len)
    }
    unsafe fn view_mut<'a>(_obj: *mut u8, data: *mut u8, len: usize) -> &'a mut [E] {
        core::slice::from_raw_parts_mut(data as *mut E, len)
    }
}
macro_rules! sized_view {
    () => {
        unsafe fn view_ref<'a>(obj: *mut u8, _data: *mut u8, _len: usize) -> &'a Self {
            &*(obj as *const Self)
        }
        unsafe fn view_mut<'a>(obj: *mut u8, _data: *mut u8, _len: usize) -> &'a mut Self {
            &mut *(obj as *mut Self)
        }
    };
}
impl<E: 'static> Own<E> for Vec<E> {
    type View = Vec<E>;
    const USES_CAP: bool = true;
    fn from_vec(v: Vec<E>) -> Self {
        v
    }
    fn data_mut(&mut self) -> &mut [E] {
        self
    }
    fn cap(&self) -> usize {
        self.capacity()
    }
    sized_view!();
}
impl<E: 'static> Own<E> for Box<[E]> {
    type View = Box<[E]>;
    const USES_CAP: bool = false;
    fn from_vec(v: Vec<E>) -> Self {
        v.into_boxed_slice()
    }
    fn data_mut(&mut self) -> &mut [E] {
        self
    }
    fn cap(&self) -> usize {
        self.len()
    }
    sized_view!();
}
impl<E: 'static, const K: usize> Own<E> for [E; K] {
    type View = [E; K];
    const USES_CAP: bool = false;
    fn from_vec(v: Vec<E>) -> Self {
        match <[E; K]>::try_from(v) {
            Ok(a) => a,
            Err(_) => panic!("C04 machinery: array owner built with the wrong length"),
        }
    }
    fn data_mut(&mut self) -> &mut [E] {
        self
    }
    fn cap(&self) -> usize {
        K
    }
    sized_view!();
}

pub trait ErasedOwner {
    /// address of the owner object (not used for slices)
    fn obj(&mut self) -> *mut u8;
    /// the data it owns
    fn raw(&mut self) -> RawBuf;
}
struct Holder<W, E>(W, PhantomData<E>);
impl<W: Own<E>, E: 'static> ErasedOwner for Holder<W, E> {
    fn obj(&mut self) -> *mut u8 {
        &mut self.0 as *mut W as *mut u8
    }
    fn raw(&mut self) -> RawBuf {
        let cap = self.0.cap();
        let s = self.0.data_mut();
        RawBuf { ptr: s.as_mut_ptr() as *mut u8, len: s.len(), cap }
    }
}
#[inline(never)]
fn make_owner<W: Own<I::E>, I: Kind>(len: usize, cap: usize, pat: u8) -> Box<dyn ErasedOwner> {
    Box::new(Holder::<W, I::E>(W::from_vec(mk_vec::<I>(len, if W::USES_CAP { cap } else { len }, pat)), PhantomData))
}

// -----------------------------------------------------------------------------------------
// runners: a thin generic shim around the cast + a non-generic core

fn new_obs(i: &KindVt, o: &KindVt) -> Obs {
    Obs {
        in_ptr: 0,
        in_len: 0,
        in_cap: 0,
        in_per: i.per,
        out_per: o.per,
        in_elem_size: i.size,
        in_elem_align: i.align,
        out_elem_size: o.size,
        out_elem_align: o.align,
        has_ptr: true,
        has_cap: false,
        outcome: Outcome::Panic(String::new()),
        orig_after: None,
        wt_after: None,
        ev: vec![],
        ev_overflow: false,
        ops: 1,
    }
}

fn finish(mut o: Obs) -> Obs {
    let (ev, ov) = track::end();
    o.ev = ev;
    o.ev_overflow = ov;
    o
}

type MakeOwner = fn(usize, usize, u8) -> Box<dyn ErasedOwner>;
type BorrowShim<'s> = &'s dyn Fn(*mut u8, *mut u8, usize) -> Option<(*mut u8, usize)>;

#[inline(never)]
fn core_borrow(p: &P, i: &KindVt, o: &KindVt, make: MakeOwner, is_slice: bool, mutable: bool, shim: BorrowShim<'_>) -> Obs {
    let mut ob = new_obs(i, o);
    track::begin();
    let mut w = make(p.len, p.cap, p.pat);
    let r0 = w.raw();
    ob.in_ptr = r0.ptr as usize;
    ob.in_len = r0.len;
    ob.in_cap = r0.cap;
    // after obj() the owner is not touched again until the view and everything derived from it is dead
    let obj = if is_slice { core::ptr::null_mut() } else { w.obj() };
    track::mark();
    let r = pv::catch(|| shim(obj, r0.ptr, r0.len));
    track::mark();
    let mut wrote = false;
    let mut rejected = false;
    ob.outcome = match r {
        Ok(Some((optr, olen))) => {
            let bits = unsafe { (o.flat)(optr, olen) };
            if mutable {
                unsafe { (o.write)(optr, olen, p.pat) };
                wrote = true;
            }
            Outcome::Ok { ptr: optr as usize, len: olen, cap: olen, bits }
        }
        Ok(None) => {
            rejected = true;
            Outcome::Panic(String::new())
        }
        Err(m) => Outcome::Panic(m),
    };
    // fresh pointers into the owner
    let r1 = w.raw();
    let now = unsafe { (i.flat)(r1.ptr, r1.len) };
    if rejected {
        ob.outcome = Outcome::Rej { kind: "slice", ptr: r1.ptr as usize, len: r1.len, cap: r1.cap, bits: track::off(|| now.clone()) };
    }
    if wrote {
        ob.wt_after = Some(now);
    } else if !mutable {
        ob.orig_after = Some(now);
    }
    drop(w);
    finish(ob)
}

/// shared-reference cast: `&Owner -> &[O]` (None = the cast returned its error value)
#[inline(always)]
pub fn run_ref<W, I, O, F>(p: &P, f: F) -> Obs
where
    I: Kind,
    O: Kind,
    W: Own<I::E>,
    F: for<'a> Fn(&'a W::View) -> Option<&'a [O::E]>,
{
    let shim = move |obj: *mut u8, data: *mut u8, len: usize| -> Option<(*mut u8, usize)> {
        let v: &W::View = unsafe { W::view_ref(obj, data, len) };
        f(v).map(|s| (s.as_ptr() as *mut u8, s.len()))
    };
    core_borrow(p, &kind_vt::<I>(), &kind_vt::<O>(), make_owner::<W, I>, W::IS_SLICE, false, &shim)
}

/// mutable-reference cast: `&mut Owner -> &mut [O]`, followed by a write of generation-1
/// sentinels through the view and a read of the original.
#[inline(always)]
pub fn run_mut<W, I, O, F>(p: &P, f: F) -> Obs
where
    I: Kind,
    O: Kind,
    W: Own<I::E>,
    F: for<'a> Fn(&'a mut W::View) -> Option<&'a mut [O::E]>,
{
    let shim = move |obj: *mut u8, data: *mut u8, len: usize| -> Option<(*mut u8, usize)> {
        let v: &mut W::View = unsafe { W::view_mut(obj, data, len) };
        f(v).map(|s| (s.as_mut_ptr() as *mut u8, s.len()))
    };
    core_borrow(p, &kind_vt::<I>(), &kind_vt::<O>(), make_owner::<W, I>, W::IS_SLICE, true, &shim)
}

type OwnedShim<'s> = &'s dyn Fn(RawBuf) -> Result<RawBuf, (&'static str, RawBuf)>;

#[inline(never)]
fn core_owned(p: &P, i: &KindVt, o: &KindVt, vec: bool, shim: OwnedShim<'_>) -> Obs {
    let mut ob = new_obs(i, o);
    ob.has_cap = vec;
    track::begin();
    let r0 = if vec { (i.mk_vec)(p.len, p.cap, p.pat) } else { (i.mk_box)(p.len, p.pat) };
    ob.in_ptr = r0.ptr as usize;
    ob.in_len = r0.len;
    ob.in_cap = r0.cap;
    track::mark();
    let r = pv::catch(|| shim(r0));
    track::mark();
    ob.outcome = match r {
        Ok(Ok(q)) => {
            let bits = unsafe { (o.flat)(q.ptr, q.len) };
            unsafe {
                if vec {
                    (o.drop_vec)(q)
                } else {
                    (o.drop_box)(q)
                }
            }
            Outcome::Ok { ptr: q.ptr as usize, len: q.len, cap: q.cap, bits }
        }
        Ok(Err((kind, q))) => {
            let bits = unsafe { (i.flat)(q.ptr, q.len) };
            unsafe {
                if vec {
                    (i.drop_vec)(q)
                } else {
                    (i.drop_box)(q)
                }
            }
            Outcome::Rej { kind, ptr: q.ptr as usize, len: q.len, cap: q.cap, bits }
        }
        Err(m) => Outcome::Panic(m),
    };
    finish(ob)
}

/// owned boxed-slice cast
#[inline(always)]
pub fn run_box<I, O, F>(p: &P, f: F) -> Obs
where
    I: Kind,
    O: Kind,
    F: Fn(Box<[I::E]>) -> Result<Box<[O::E]>, Box<[I::E]>>,
{
    let shim = move |r: RawBuf| -> Result<RawBuf, (&'static str, RawBuf)> {
        match f(unsafe { box_of_raw::<I::E>(r) }) {
            Ok(b) => Ok(raw_of_box(b)),
            Err(b) => Err(("box", raw_of_box(b))),
        }
    };
    core_owned(p, &kind_vt::<I>(), &kind_vt::<O>(), false, &shim)
}

/// owned vector cast
#[inline(always)]
pub fn run_vec<I, O, F>(p: &P, f: F) -> Obs
where
    I: Kind,
    O: Kind,
    F: Fn(Vec<I::E>) -> Result<Vec<O::E>, (&'static str, Vec<I::E>)>,
{
    let shim = move |r: RawBuf| -> Result<RawBuf, (&'static str, RawBuf)> {
        match f(unsafe { vec_of_raw::<I::E>(r) }) {
            Ok(v) => Ok(raw_of_vec(v)),
            Err((k, v)) => Err((k, raw_of_vec(v))),
        }
    };
    core_owned(p, &kind_vt::<I>(), &kind_vt::<O>(), true, &shim)
}

#[inline(never)]
fn core_box1(p: &P, i: &KindVt, o: &KindVt, shim: &dyn Fn(*mut u8) -> *mut u8) -> Obs {
    let mut ob = new_obs(i, o);
    track::begin();
    let b = (i.mk_box1)(p.pat);
    ob.in_ptr = b as usize;
    ob.in_len = 1;
    ob.in_cap = 1;
    track::mark();
    let r = pv::catch(|| shim(b));
    track::mark();
    ob.outcome = match r {
        Ok(q) => {
            let bits = unsafe { (o.flat)(q, 1) };
            unsafe { (o.drop_box1)(q) };
            Outcome::Ok { ptr: q as usize, len: 1, cap: 1, bits }
        }
        Err(m) => Outcome::Panic(m),
    };
    finish(ob)
}

/// owned single box: `Box<I> -> Box<O>`
#[inline(always)]
pub fn run_box1<I, O, F>(p: &P, f: F) -> Obs
where
    I: Kind,
    O: Kind,
    F: Fn(Box<I::E>) -> Box<O::E>,
{
    let shim = move |b: *mut u8| -> *mut u8 { Box::into_raw(f(unsafe { Box::from_raw(b as *mut I::E) })) as *mut u8 };
    core_box1(p, &kind_vt::<I>(), &kind_vt::<O>(), &shim)
}

#[inline(never)]
fn core_val(p: &P, i: &KindVt, o: &KindVt, k: usize, m: usize, shim: &dyn Fn(u8) -> Vec<u128>) -> Obs {
    let mut ob = new_obs(i, o);
    ob.has_ptr = false;
    track::begin();
    ob.in_len = k;
    ob.in_cap = k;
    track::mark();
    let r = pv::catch(|| shim(p.pat));
    track::mark();
    ob.outcome = match r {
        Ok(bits) => Outcome::Ok { ptr: 0, len: m, cap: m, bits },
        Err(msg) => Outcome::Panic(msg),
    };
    finish(ob)
}

/// by-value array cast `[I; K] -> [O; M]`
#[inline(always)]
pub fn run_val<I, O, F, const K: usize, const M: usize>(p: &P, f: F) -> Obs
where
    I: Kind,
    O: Kind,
    F: Fn([I::E; K]) -> [O::E; M],
{
    let shim = move |pat: u8| -> Vec<u128> {
        let a: [I::E; K] = core::array::from_fn(|j| I::mk(j * I::PER, pat, 0));
        let out = f(a);
        flat_all::<O>(&out)
    };
    core_val(p, &kind_vt::<I>(), &kind_vt::<O>(), K, M, &shim)
}
