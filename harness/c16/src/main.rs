fn main() {
    eprintln!("C16: check not built yet");
    std::process::exit(3);
}
