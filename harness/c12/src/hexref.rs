//! The ten `FromStr` impls under test, the reference hex parser, the input-class partition and
//! the single-case check `check_parse` used by every string sub-check and by `--replay`.
use core::str::FromStr;
use palette::rgb::FromHexError;
use palette::{Srgb, Srgba};
use pv::{json, Collector, Value};

// ---------------------------------------------------------------------------------------
// components

pub trait Comp: Copy + PartialEq + Send + Sync + 'static {
    fn bits(self) -> u64;
    fn show(self) -> String;
}
impl Comp for u8 {
    fn bits(self) -> u64 {
        self as u64
    }
    fn show(self) -> String {
        format!("0x{:02x}", self)
    }
}
impl Comp for u16 {
    fn bits(self) -> u64 {
        self as u64
    }
    fn show(self) -> String {
        format!("0x{:04x}", self)
    }
}
impl Comp for u32 {
    fn bits(self) -> u64 {
        self as u64
    }
    fn show(self) -> String {
        format!("0x{:08x}", self)
    }
}
impl Comp for f32 {
    fn bits(self) -> u64 {
        self.to_bits() as u64
    }
    fn show(self) -> String {
        format!("{:?} (0x{:08x})", self, self.to_bits())
    }
}
impl Comp for f64 {
    fn bits(self) -> u64 {
        self.to_bits()
    }
    fn show(self) -> String {
        format!("{:?} (0x{:016x})", self, self.to_bits())
    }
}

// ---------------------------------------------------------------------------------------
// parsable types

/// A colour type with a `FromStr` impl. `DIGITS` are the digit counts its documentation names.
pub trait HexTy: Sized + FromStr<Err = FromHexError> + 'static {
    const NAME: &'static str;
    const NCH: usize;
    const DIGITS: &'static [usize];
    /// The documented value: the colour written with `native_bits`-bit channels, converted to
    /// this type's component format with `into_format`.
    fn expect(native_bits: u32, ch: [u32; 4]) -> Self;
    fn chan(&self) -> [u64; 4];
    fn show(&self) -> String;
    fn via_from_hex(s: &str) -> Result<Self, FromHexError>;
}

macro_rules! hexty {
    (rgb, $t:ty, $name:literal, $digits:expr) => {
        impl HexTy for Srgb<$t> {
            const NAME: &'static str = $name;
            const NCH: usize = 3;
            const DIGITS: &'static [usize] = &$digits;
            fn expect(native: u32, ch: [u32; 4]) -> Self {
                match native {
                    8 => Srgb::<u8>::new(ch[0] as u8, ch[1] as u8, ch[2] as u8).into_format(),
                    16 => Srgb::<u16>::new(ch[0] as u16, ch[1] as u16, ch[2] as u16).into_format(),
                    _ => Srgb::<u32>::new(ch[0], ch[1], ch[2]).into_format(),
                }
            }
            fn chan(&self) -> [u64; 4] {
                [self.red.bits(), self.green.bits(), self.blue.bits(), 0]
            }
            fn show(&self) -> String {
                format!("[{}, {}, {}]", self.red.show(), self.green.show(), self.blue.show())
            }
            fn via_from_hex(s: &str) -> Result<Self, FromHexError> {
                Srgb::<$t>::from_hex(s)
            }
        }
    };
    (rgba, $t:ty, $name:literal, $digits:expr) => {
        impl HexTy for Srgba<$t> {
            const NAME: &'static str = $name;
            const NCH: usize = 4;
            const DIGITS: &'static [usize] = &$digits;
            fn expect(native: u32, ch: [u32; 4]) -> Self {
                match native {
                    8 => Srgba::<u8>::new(ch[0] as u8, ch[1] as u8, ch[2] as u8, ch[3] as u8).into_format(),
                    16 => Srgba::<u16>::new(ch[0] as u16, ch[1] as u16, ch[2] as u16, ch[3] as u16).into_format(),
                    _ => Srgba::<u32>::new(ch[0], ch[1], ch[2], ch[3]).into_format(),
                }
            }
            fn chan(&self) -> [u64; 4] {
                [self.red.bits(), self.green.bits(), self.blue.bits(), self.alpha.bits()]
            }
            fn show(&self) -> String {
                format!("[{}, {}, {}, {}]", self.red.show(), self.green.show(), self.blue.show(), self.alpha.show())
            }
            fn via_from_hex(s: &str) -> Result<Self, FromHexError> {
                Srgba::<$t>::from_hex(s)
            }
        }
    };
}

// digit counts as documented on each impl (palette/src/rgb/rgb.rs: "'#ff00bb' or '#abc'",
// "'#ffff0000bbbb', or shorter", "16 bit components or less", "32 bit components or less")
hexty!(rgb, u8, "Rgb<u8>", [3, 6]);
hexty!(rgba, u8, "Rgba<u8>", [4, 8]);
hexty!(rgb, u16, "Rgb<u16>", [3, 6, 12]);
hexty!(rgba, u16, "Rgba<u16>", [4, 8, 16]);
hexty!(rgb, u32, "Rgb<u32>", [3, 6, 12, 24]);
hexty!(rgba, u32, "Rgba<u32>", [4, 8, 16, 32]);
hexty!(rgb, f32, "Rgb<f32>", [3, 6, 12]);
hexty!(rgba, f32, "Rgba<f32>", [4, 8, 16]);
hexty!(rgb, f64, "Rgb<f64>", [3, 6, 12, 24]);
hexty!(rgba, f64, "Rgba<f64>", [4, 8, 16, 32]);

#[derive(Clone, Copy)]
pub struct TyEntry {
    pub name: &'static str,
    pub nch: usize,
    pub digits: &'static [usize],
    /// returns (outcome code, hash of the accepted value)
    pub check: fn(&mut Collector, &str) -> (u8, u64),
}

macro_rules! entry {
    ($t:ty) => {
        TyEntry { name: <$t as HexTy>::NAME, nch: <$t as HexTy>::NCH, digits: <$t as HexTy>::DIGITS, check: check_parse::<$t> }
    };
}

pub fn types() -> Vec<TyEntry> {
    vec![
        entry!(Srgb<u8>),
        entry!(Srgba<u8>),
        entry!(Srgb<u16>),
        entry!(Srgba<u16>),
        entry!(Srgb<u32>),
        entry!(Srgba<u32>),
        entry!(Srgb<f32>),
        entry!(Srgba<f32>),
        entry!(Srgb<f64>),
        entry!(Srgba<f64>),
    ]
}

// ---------------------------------------------------------------------------------------
// reference parser

pub struct RefParse {
    pub digits: usize,
    pub native: u32,
    pub ch: [u32; 4],
}

/// optional single leading '#', then exactly one of `counts` digits of [0-9a-fA-F];
/// the digits are split evenly over `nch` channels, most significant first, in r,g,b(,a) order;
/// one digit per channel means the digit repeated (0xN -> 0xNN).
pub fn ref_parse(s: &str, nch: usize, counts: &[usize]) -> Option<RefParse> {
    let b = s.as_bytes();
    let b = if b.first() == Some(&b'#') { &b[1..] } else { b };
    if !counts.contains(&b.len()) {
        return None;
    }
    let mut nib = [0u32; 32];
    for (i, &x) in b.iter().enumerate() {
        nib[i] = match x {
            b'0'..=b'9' => (x - b'0') as u32,
            b'a'..=b'f' => (x - b'a') as u32 + 10,
            b'A'..=b'F' => (x - b'A') as u32 + 10,
            _ => return None,
        };
    }
    let per = b.len() / nch;
    let mut ch = [0u32; 4];
    for (k, out) in ch.iter_mut().enumerate().take(nch) {
        let mut v = 0u32;
        for j in 0..per {
            v = (v << 4) | nib[k * per + j];
        }
        if per == 1 {
            v *= 17;
        }
        *out = v;
    }
    let native = match per {
        1 | 2 => 8,
        4 => 16,
        _ => 32,
    };
    Some(RefParse { digits: b.len(), native, ch })
}

/// Fixed partition of all strings into input classes (first matching rule wins).
pub fn classify(s: &str, counts: &[usize]) -> &'static str {
    if !s.is_ascii() {
        return "multibyte";
    }
    let b = s.as_bytes();
    let b = if b.first() == Some(&b'#') { &b[1..] } else { b };
    if b.iter().any(|x| *x == b'+' || *x == b'-') {
        return "sign-char";
    }
    if b.contains(&b'#') {
        return "extra-hash";
    }
    if b.iter().any(|x| *x <= 0x20 || *x == 0x7f) {
        return "whitespace-or-control";
    }
    if b.iter().any(|x| !x.is_ascii_hexdigit()) {
        return "non-hex-char";
    }
    if counts.contains(&b.len()) {
        return match b.len() {
            3 => "valid-3-digit",
            4 => "valid-4-digit",
            6 => "valid-6-digit",
            8 => "valid-8-digit",
            12 => "valid-12-digit",
            16 => "valid-16-digit",
            24 => "valid-24-digit",
            _ => "valid-32-digit",
        };
    }
    if b.is_empty() {
        "empty"
    } else {
        "wrong-digit-count"
    }
}

pub fn hex_bytes(s: &str) -> String {
    s.as_bytes().iter().map(|b| format!("{:02x}", b)).collect::<Vec<_>>().join(" ")
}

thread_local! {
    /// set while a `from_str` call of the subject runs inside `pv::catch`
    static IN_SUBJECT: core::cell::Cell<bool> = const { core::cell::Cell::new(false) };
}

/// Panics of `from_str` are observations (they come back through `pv::catch` with their
/// message); formatting them a second time in the panic hook costs more than the parse
/// itself when hundreds of millions of inputs panic. Every other panic still reaches pv's hook.
pub fn install_hook() {
    let prev = std::panic::take_hook();
    std::panic::set_hook(Box::new(move |info| {
        if !IN_SUBJECT.with(|f| f.get()) {
            prev(info)
        }
    }));
}

pub const OUT_REJECT: u8 = 0;
pub const OUT_ACCEPT: u8 = 1;
pub const OUT_VIOL: u8 = 2;

/// Parse `s` with the real `FromStr` impl of `T` and compare with the reference parser:
/// accept <=> reference accepts, with equal value; never a panic.
pub fn check_parse<T: HexTy>(c: &mut Collector, s: &str) -> (u8, u64) {
    IN_SUBJECT.with(|f| f.set(true));
    let obs = pv::catch(|| T::from_str(s));
    // the `from_hex` constructors are a second entry point to the same parser: same verdict, same value
    let obs2 = pv::catch(|| T::via_from_hex(s));
    IN_SUBJECT.with(|f| f.set(false));
    let agree = match (&obs, &obs2) {
        (Ok(Ok(a)), Ok(Ok(b))) => a.chan() == b.chan(),
        (Ok(Err(_)), Ok(Err(_))) => true,
        (Err(_), Err(_)) => true,
        _ => false,
    };
    if !agree {
        let show = |r: &Result<Result<T, FromHexError>, String>| match r {
            Ok(Ok(v)) => json!({"accepted": v.show()}),
            Ok(Err(e)) => json!({"error": e.to_string()}),
            Err(m) => json!({"panic": m}),
        };
        c.violation(&format!("C12/parse-strict/{}/from_hex-vs-from_str", T::NAME), 1.0, || json!({"sub": "parse", "ty": T::NAME, "input": s, "input_bytes": hex_bytes(s), "class": "from_hex", "observed": {"from_hex": show(&obs2)}, "expected": {"from_str": show(&obs)}}));
    }
    let exp = ref_parse(s, T::NCH, T::DIGITS);
    let (kind, observed): (&str, Value) = match (&obs, &exp) {
        (Ok(Err(_)), None) => return (OUT_REJECT, 0),
        (Ok(Ok(v)), Some(r)) => {
            let e = T::expect(r.native, r.ch);
            let vc = v.chan();
            if vc == e.chan() {
                let h = vc[0] ^ vc[1].rotate_left(16) ^ vc[2].rotate_left(32) ^ vc[3].rotate_left(48);
                return (OUT_ACCEPT, pv::splitmix(h));
            }
            ("wrong-value", json!({"accepted": v.show()}))
        }
        (Ok(Ok(v)), None) => ("accepted", json!({"accepted": v.show()})),
        (Ok(Err(e)), Some(_)) => ("rejected", json!({"error": e.to_string()})),
        (Err(msg), _) => ("panic", json!({"panic": msg})),
    };
    report_parse::<T>(c, s, kind, observed, exp);
    (OUT_VIOL, 0)
}

#[cold]
#[inline(never)]
fn report_parse<T: HexTy>(c: &mut Collector, s: &str, kind: &str, observed: Value, exp: Option<RefParse>) {
    let class = classify(s, T::DIGITS);
    let expected = match exp {
        Some(r) => json!({"accept": T::expect(r.native, r.ch).show(), "digits": r.digits}),
        None => json!(format!("Err: not an optional '#' followed by exactly {:?} hexadecimal digits", T::DIGITS)),
    };
    c.violation(&format!("C12/parse-strict/{}/{}:{}", T::NAME, class, kind), 1.0, || {
        json!({"sub": "parse", "ty": T::NAME, "input": s, "input_bytes": hex_bytes(s), "class": class, "observed": observed, "expected": expected})
    });
}

/// self-test of the reference parser and the class partition on hand-computed cases
pub fn selftest() {
    let fail = |m: String| {
        eprintln!("MACHINERY-FAILURE: reference parser self-test: {m}");
        std::process::exit(3);
    };
    let t = |s: &str, nch: usize, counts: &[usize], want: Option<(u32, [u32; 4])>| {
        let got = ref_parse(s, nch, counts).map(|r| (r.native, r.ch));
        if got != want {
            fail(format!("ref_parse({s:?}, {nch}, {counts:?}) = {got:?}, want {want:?}"));
        }
    };
    t("#f034e6", 3, &[3, 6], Some((8, [0xf0, 0x34, 0xe6, 0])));
    t("F034E6", 3, &[3, 6], Some((8, [0xf0, 0x34, 0xe6, 0])));
    t("abc", 3, &[3, 6], Some((8, [0xaa, 0xbb, 0xcc, 0])));
    t("#08f0", 4, &[4, 8], Some((8, [0, 0x88, 0xff, 0])));
    t("ffff8888bbbbaaaa", 4, &[4, 8, 16], Some((16, [0xffff, 0x8888, 0xbbbb, 0xaaaa])));
    t("#0000000100000002fffffffe", 3, &[3, 6, 12, 24], Some((32, [1, 2, 0xffff_fffe, 0])));
    for bad in ["", "#", "##fff", "+f+f+f", "a\u{e9}", "fffff", "ffff", " fff", "fff ", "ggg", "#ff", "-ff", "f f", "0xffffff", "fff#", "\u{ff46}ff"] {
        t(bad, 3, &[3, 6], None);
    }
    let cl = |s: &str, want: &str| {
        let got = classify(s, &[3, 6]);
        if got != want {
            fail(format!("classify({s:?}) = {got}, want {want}"));
        }
    };
    cl("+f+f+f", "sign-char");
    cl("a\u{e9}", "multibyte");
    cl("+\u{e9}", "multibyte");
    cl("##fff", "extra-hash");
    cl("#fff", "valid-3-digit");
    cl("ffff", "wrong-digit-count");
    cl("", "empty");
    cl("#", "empty");
    cl(" fff", "whitespace-or-control");
    cl("ggg", "non-hex-char");
}
