fn main() {
    eprintln!("C08: check not built yet");
    std::process::exit(3);
}
