//! C06 — component number-format conversion: saturates, rounds to nearest, round-trips.
//! Complete f32 space for every float->uint target, complete u8/u16/u32 spaces for integer
//! sources, structured lattices for f64/u64/u128 sources; exact integer-arithmetic oracle.
use palette::stimulus::{FromStimulus, IntoStimulus};
use pv::fl::{f32_from_ord, hex32, hex64};
use pv::{json, Collector, Ctx, Mode, Value};

// ---------------------------------------------------------------------------------------
// exact oracle for float -> uint

/// 256-bit unsigned, little endian limbs; just enough arithmetic for the oracle.
#[derive(Clone, Copy, PartialEq, Eq, Debug)]
struct U256([u64; 4]);
impl U256 {
    fn from_u128(x: u128) -> Self {
        U256([x as u64, (x >> 64) as u64, 0, 0])
    }
    fn shl(self, n: u32) -> Self {
        let mut r = [0u64; 4];
        let w = (n / 64) as usize;
        let b = n % 64;
        for i in (w..4).rev() {
            let lo = self.0[i - w] << b;
            let carry = if b > 0 && i > w { self.0[i - w - 1] >> (64 - b) } else { 0 };
            r[i] = lo | carry;
        }
        U256(r)
    }
    fn shr(self, n: u32) -> Self {
        let mut r = [0u64; 4];
        let w = (n / 64) as usize;
        let b = n % 64;
        for i in 0..(4 - w.min(4)) {
            let hi = self.0[i + w] >> b;
            let carry = if b > 0 && i + w + 1 < 4 { self.0[i + w + 1] << (64 - b) } else { 0 };
            r[i] = hi | carry;
        }
        U256(r)
    }
    fn sub(self, o: U256) -> U256 {
        let mut r = [0u64; 4];
        let mut borrow = 0u64;
        for i in 0..4 {
            let (a, b1) = self.0[i].overflowing_sub(o.0[i]);
            let (a, b2) = a.overflowing_sub(borrow);
            r[i] = a;
            borrow = (b1 | b2) as u64;
        }
        U256(r)
    }
    fn low_bits(self, n: u32) -> U256 {
        // self mod 2^n
        if n >= 256 {
            return self;
        }
        let s = self.shr(n).shl(n);
        self.sub(s)
    }
    fn to_u128(self) -> Option<u128> {
        if self.0[2] != 0 || self.0[3] != 0 {
            None
        } else {
            Some(self.0[0] as u128 | ((self.0[1] as u128) << 64))
        }
    }
    fn cmp(self, o: U256) -> core::cmp::Ordering {
        for i in (0..4).rev() {
            if self.0[i] != o.0[i] {
                return self.0[i].cmp(&o.0[i]);
            }
        }
        core::cmp::Ordering::Equal
    }
    fn is_zero(self) -> bool {
        self.0 == [0; 4]
    }
}

/// Acceptable results for converting the finite float x = m·2^e (m > 0, 0 < x < 1) to an
/// N-bit unsigned target, when the product x·MAX is rounded once in a float type with
/// `wbits` significant bits: all integers r with |r − x·MAX| <= 1/2 + ulp_w(x·MAX).
/// Returns (lo, hi) inclusive.
fn accept_range(m: u64, e: i32, nbits: u32, wbits: u32) -> (u128, u128) {
    debug_assert!(m > 0 && e < 0);
    if nbits <= 64 {
        return accept_range_small(m, e, nbits, wbits);
    }
    accept_range_big(m, e, nbits, wbits)
}

/// u128 arithmetic version for targets of at most 64 bits (P = m·(2^N−1) < 2^117).
#[inline]
fn accept_range_small(m: u64, e: i32, nbits: u32, wbits: u32) -> (u128, u128) {
    let s = (-e) as u32;
    let max: u128 = (1u128 << nbits) - 1;
    if s > nbits + 64 + 8 {
        return (0, 0);
    }
    let p: u128 = (m as u128) * max;
    let (q, rem) = if s >= 128 { (0u128, p) } else { (p >> s, p & ((1u128 << s) - 1)) };
    let k: i32 = (127 - p.leading_zeros() as i32) - s as i32;
    let t = k + 1 - wbits as i32;
    // half = 2^(s-1); s <= 136, so compare via shifting rem instead when s > 128
    let cmp_half = |rem: u128, s: u32| -> core::cmp::Ordering {
        if s - 1 >= 128 {
            core::cmp::Ordering::Less
        } else {
            rem.cmp(&(1u128 << (s - 1)))
        }
    };
    if t >= 0 {
        let u: u128 = 1u128 << t.min(126);
        let o = cmp_half(rem, s);
        let frac_ge_half = o != core::cmp::Ordering::Less;
        let frac_gt_half = o == core::cmp::Ordering::Greater;
        let hi = q.saturating_add(u).saturating_add(frac_ge_half as u128).min(max);
        let lo = (q.saturating_add(frac_gt_half as u128)).saturating_sub(u);
        (lo, hi)
    } else {
        if s - 1 >= 127 {
            // x·MAX < 2^-9 here (p < 2^117 <= 2^(s-10)): only 0
            return (0, 0);
        }
        let half = 1u128 << (s - 1);
        let un: u128 = if (s as i32 + t) >= 0 { 1u128 << ((s as i32 + t) as u32).min(126) } else { 1 };
        let mut lo = u128::MAX;
        let mut hi = 0u128;
        if rem <= half.saturating_add(un) {
            lo = lo.min(q);
            hi = hi.max(q);
        }
        if rem >= half.saturating_sub(un) {
            lo = lo.min(q + 1);
            hi = hi.max(q + 1);
        }
        (lo, hi.min(max))
    }
}

fn accept_range_big(m: u64, e: i32, nbits: u32, wbits: u32) -> (u128, u128) {
    let s = (-e) as u32;
    let max: u128 = if nbits == 128 { u128::MAX } else { (1u128 << nbits) - 1 };
    if s > nbits + 64 + 8 {
        // x·MAX < 2^-8: only 0 is within 1/2 + ulp
        return (0, 0);
    }
    // P = m·(2^N − 1)  (< 2^(64+128)), p = P / 2^s = q + rem/2^s
    let pm = U256::from_u128(m as u128);
    let p = pm.shl(nbits).sub(pm);
    let q = p.shr(s).to_u128().expect("q fits u128");
    let rem = p.low_bits(s);
    // ulp of p in a wbits float: p in [2^k, 2^(k+1)) -> ulp = 2^(k+1-wbits)
    let k: i32 = {
        let mut bl = 0i32;
        for i in (0..4).rev() {
            if p.0[i] != 0 {
                bl = (i as i32) * 64 + (64 - p.0[i].leading_zeros() as i32);
                break;
            }
        }
        bl - 1 - s as i32
    };
    let t = k + 1 - wbits as i32; // ulp = 2^t
    let half = U256::from_u128(1).shl(s - 1);
    if t >= 0 {
        let u: u128 = 1u128 << t.min(126);
        let frac_ge_half = rem.cmp(half) != core::cmp::Ordering::Less;
        let frac_gt_half = rem.cmp(half) == core::cmp::Ordering::Greater;
        let hi = q.saturating_add(u).saturating_add(frac_ge_half as u128).min(max);
        let lo = (q.saturating_add(frac_gt_half as u128)).saturating_sub(u);
        (lo, hi)
    } else {
        let un = if (s as i32 + t) >= 0 { U256::from_u128(1).shl((s as i32 + t) as u32) } else { U256::from_u128(1) };
        let mut lo = u128::MAX;
        let mut hi = 0u128;
        let half_plus = {
            let mut r = half;
            let mut carry = 0u64;
            for i in 0..4 {
                let (a, c1) = r.0[i].overflowing_add(un.0[i]);
                let (a, c2) = a.overflowing_add(carry);
                r.0[i] = a;
                carry = (c1 | c2) as u64;
            }
            r
        };
        let half_minus = if half.cmp(un) == core::cmp::Ordering::Greater { half.sub(un) } else { U256::from_u128(0) };
        if rem.cmp(half_plus) != core::cmp::Ordering::Greater {
            lo = lo.min(q);
            hi = hi.max(q);
        }
        if rem.cmp(half_minus) != core::cmp::Ordering::Less {
            lo = lo.min(q + 1);
            hi = hi.max(q + 1);
        }
        let _ = rem.is_zero();
        (lo, hi.min(max))
    }
}

fn class_of(x: f64) -> &'static str {
    if x.is_nan() {
        "NaN"
    } else if x == f64::NEG_INFINITY {
        "-inf"
    } else if x == f64::INFINITY {
        "+inf"
    } else if x < -1.0 {
        "x<-1"
    } else if x < 0.0 {
        "-1<=x<0"
    } else if x == 0.0 {
        "x=0"
    } else if x < 1.0 {
        "0<x<1"
    } else if x == 1.0 {
        "x=1"
    } else {
        "x>1"
    }
}

#[derive(Clone, Copy)]
struct F2U {
    src: &'static str,
    dst: &'static str,
    nbits: u32,
    wbits: u32,
    f32f: Option<fn(f32) -> u128>,
    f64f: Option<fn(f64) -> u128>,
}
macro_rules! f2u {
    (f32, $d:ident, $w:expr) => {
        F2U { src: "f32", dst: stringify!($d), nbits: <$d>::BITS, wbits: $w, f32f: Some(|x| <f32 as IntoStimulus<$d>>::into_stimulus(x) as u128), f64f: None }
    };
    (f64, $d:ident, $w:expr) => {
        F2U { src: "f64", dst: stringify!($d), nbits: <$d>::BITS, wbits: $w, f32f: None, f64f: Some(|x| <f64 as IntoStimulus<$d>>::into_stimulus(x) as u128) }
    };
}
fn f2u_table() -> Vec<F2U> {
    vec![
        f2u!(f32, u8, 24),
        f2u!(f32, u16, 24),
        f2u!(f32, u32, 53),
        f2u!(f32, u64, 53),
        f2u!(f32, u128, 53),
        f2u!(f64, u8, 53),
        f2u!(f64, u16, 53),
        f2u!(f64, u32, 53),
        f2u!(f64, u64, 53),
        f2u!(f64, u128, 53),
    ]
}

/// Check one float -> uint conversion; returns the result for the chain (None if panicked/NaN).
#[inline]
fn check_f2u(c: &mut Collector, t: &F2U, x: f64, r: u128, bits: u64) {
    let max: u128 = if t.nbits == 128 { u128::MAX } else { (1u128 << t.nbits) - 1 };
    let (lo, hi) = if x.is_nan() || x >= 1.0 {
        (max, max)
    } else if x <= 0.0 {
        (0, 0)
    } else {
        let d = pv::fl::dyadic64(x).unwrap();
        accept_range(d.m as u64, d.e, t.nbits, t.wbits)
    };
    if r < lo || r > hi {
        let mag = if r < lo { (lo - r) as f64 } else { (r - hi) as f64 };
        let kind = if x.is_nan() || x >= 1.0 {
            "saturate-high"
        } else if x <= 0.0 {
            "saturate-low"
        } else {
            "nearest"
        };
        c.violation(&format!("C06/{}/{}->{}/{}", kind, t.src, t.dst, class_of(x)), mag, || {
            json!({"sub": "f2u", "src": t.src, "dst": t.dst, "input": if t.src == "f32" { hex32(f32::from_bits(bits as u32)) } else { hex64(f64::from_bits(bits)) },
                   "value": format!("{:e}", x), "observed": r.to_string(), "expected": {"lo": lo.to_string(), "hi": hi.to_string()}})
        });
    }
}

const CHUNK_BITS: u32 = 20;

/// complete walk of the f32 space through a float->uint conversion (f32 source), or through
/// the f64 source on every f32-representable double.
fn walk_f2u(ctx: &Ctx, total: &mut Collector, t: &F2U, widen: bool) {
    let sub = if widen { format!("f2u/{}(f32-representable)->{}", t.src, t.dst) } else { format!("f2u/{}->{}", t.src, t.dst) };
    if !ctx.wants(&sub) {
        return;
    }
    let tt = *t;
    let nch = 1usize << (32 - CHUNK_BITS);
    // per chunk: (first non-NaN result, last non-NaN result)
    let outs = pv::par::map_chunks(nch, |ci| {
        let mut c = Collector::new();
        let start = (ci as u32) << CHUNK_BITS;
        let mut prev: Option<u128> = None;
        let mut first: Option<u128> = None;
        let mut n = 0u64;
        let mut nt = 0u64;
        let mut distinct = 0u64;
        let body = |c: &mut Collector, prev: &mut Option<u128>, first: &mut Option<u128>, n: &mut u64, nt: &mut u64, distinct: &mut u64, k: u32| {
            let ord = start + k;
            let x = f32_from_ord(ord);
            let (r, xv, bits) = if widen { ((tt.f64f.unwrap())(x as f64), x as f64, (x as f64).to_bits()) } else { ((tt.f32f.unwrap())(x), x as f64, x.to_bits() as u64) };
            *n += 1;
            check_f2u(c, &tt, xv, r, bits);
            if x.is_nan() {
                return;
            }
            if xv > 0.0 && xv < 1.0 {
                *nt += 1;
            }
            if let Some(p) = *prev {
                if r < p {
                    c.violation(&format!("C06/monotone/{}->{}/{}", tt.src, tt.dst, class_of(xv)), (p - r) as f64, || {
                        json!({"sub": "f2u-pair", "src": tt.src, "dst": tt.dst, "widen": widen, "input": [hex32(f32_from_ord(ord - 1)), hex32(x)], "observed": [p.to_string(), r.to_string()], "expected": "non-decreasing"})
                    });
                }
                if r != p {
                    *distinct += 1;
                }
            } else {
                *first = Some(r);
            }
            *prev = Some(r);
        };
        let res = pv::catch(|| {
            for k in 0..(1u32 << CHUNK_BITS) {
                body(&mut c, &mut prev, &mut first, &mut n, &mut nt, &mut distinct, k);
            }
        });
        if let Err(msg) = res {
            c.violation(&format!("C06/panic/{}->{}", tt.src, tt.dst), 1.0, || json!({"sub": "f2u-chunk", "src": tt.src, "dst": tt.dst, "input": format!("chunk {ci}"), "observed": {"panic": msg}, "expected": "no panic"}));
        }
        c.add(&sub, n, n, n, nt);
        (c, first, prev, distinct)
    });
    let mut c = Collector::new();
    let mut last: Option<u128> = None;
    let mut distinct = 1u64;
    for (i, (cc, first, prev, d)) in outs.into_iter().enumerate() {
        c.merge(cc);
        distinct += d;
        if let (Some(l), Some(f)) = (last, first) {
            if f < l {
                let ord = (i as u32) << CHUNK_BITS;
                c.violation(&format!("C06/monotone/{}->{}/{}", t.src, t.dst, class_of(f32_from_ord(ord) as f64)), (l - f) as f64, || {
                    json!({"sub": "f2u-pair", "src": t.src, "dst": t.dst, "widen": widen, "input": [hex32(f32_from_ord(ord - 1)), hex32(f32_from_ord(ord))], "observed": [l.to_string(), f.to_string()], "expected": "non-decreasing"})
                });
            }
            if f != l {
                distinct += 1;
            }
        }
        if prev.is_some() {
            last = prev;
        }
    }
    c.exhaustive(&sub, true, "all 2^32 f32 bit patterns in numeric order");
    c.note(&format!("{sub}/distinct_results"), json!(distinct));
    c.outcome(pv::fnv(sub.as_bytes()) ^ distinct);
    c.sample(pv::splitmix(ctx.seed ^ pv::fnv(sub.as_bytes())), || {
        let x = 0.3f32;
        json!({"sub": sub, "input": hex32(x), "value": x, "result": if widen { (tt.f64f.unwrap())(x as f64).to_string() } else { (tt.f32f.unwrap())(x).to_string() }})
    });
    total.merge(c);
}

/// f64 lattice: around every tie (c+1/2)/MAX for N<=16, around j/2^12, powers of two,
/// magnitudes where the magic-number trick stops being valid, specials.
fn f64_lattice(nbits: u32) -> Vec<f64> {
    let mut v: Vec<f64> = vec![];
    let max = if nbits >= 64 { 2f64.powi(nbits as i32) } else { ((1u128 << nbits) - 1) as f64 };
    let push_around = |v: &mut Vec<f64>, x: f64, n: usize| {
        let mut a = x;
        let mut b = x;
        v.push(x);
        for _ in 0..n {
            a = a.next_down();
            b = b.next_up();
            v.push(a);
            v.push(b);
        }
    };
    if nbits <= 16 {
        for c in 0..(1u64 << nbits) {
            push_around(&mut v, (c as f64 + 0.5) / max, 3);
            push_around(&mut v, c as f64 / max, 1);
        }
    }
    for j in 0..=4096u32 {
        push_around(&mut v, j as f64 / 4096.0, 2);
    }
    for k in -1080..=1023 {
        let p = 2f64.powi(k);
        for s in [1.0, -1.0] {
            push_around(&mut v, s * p, 1);
            push_around(&mut v, s * p * 1.5, 0);
        }
    }
    for k in [23, 24, 52, 53, 63, 64, 127, 128] {
        for s in [1.0, -1.0] {
            push_around(&mut v, s * 2f64.powi(k) / max, 2);
            push_around(&mut v, s * 2f64.powi(k), 2);
        }
    }
    for x in [0.0, -0.0, 1.0, -1.0, f64::INFINITY, f64::NEG_INFINITY, f64::NAN, f64::MAX, f64::MIN, f64::MIN_POSITIVE, -f64::MIN_POSITIVE, 5e-324, -5e-324, -1e10, -4e4, -3.4e38, 1e10] {
        push_around(&mut v, x, 1);
    }
    // sort by total order, NaNs last, dedup
    v.sort_by(|a, b| a.total_cmp(b));
    v.dedup_by(|a, b| a.to_bits() == b.to_bits());
    v
}

fn lattice_f2u(ctx: &Ctx, total: &mut Collector, t: &F2U) {
    let sub = format!("f2u-lattice/{}->{}", t.src, t.dst);
    if !ctx.wants(&sub) {
        return;
    }
    let lat = f64_lattice(t.nbits);
    let mut c = Collector::new();
    let mut prev: Option<(f64, u128)> = None;
    let mut n = 0u64;
    let mut nt = 0u64;
    for &x in &lat {
        let res = if let Some(f) = t.f64f {
            pv::catch(|| (f(x), x, x.to_bits()))
        } else {
            let xf = x as f32;
            pv::catch(|| ((t.f32f.unwrap())(xf), xf as f64, xf.to_bits() as u64))
        };
        n += 1;
        match res {
            Err(msg) => c.violation(&format!("C06/panic/{}->{}/{}", t.src, t.dst, class_of(x)), 1.0, || json!({"sub": "f2u", "src": t.src, "dst": t.dst, "input": hex64(x), "observed": {"panic": msg}, "expected": "no panic"})),
            Ok((r, xv, bits)) => {
                check_f2u(&mut c, t, xv, r, bits);
                if xv.is_nan() {
                    continue;
                }
                if xv > 0.0 && xv < 1.0 {
                    nt += 1;
                }
                if let Some((px, p)) = prev {
                    if r < p && xv >= px {
                        c.violation(&format!("C06/monotone/{}->{}/{}", t.src, t.dst, class_of(xv)), (p - r) as f64, || {
                            json!({"sub": "f2u-pair64", "src": t.src, "dst": t.dst, "input": [hex64(px), hex64(xv)], "observed": [p.to_string(), r.to_string()], "expected": "non-decreasing"})
                        });
                    }
                }
                prev = Some((xv, r));
                c.outcome(r as u64 ^ (r >> 64) as u64);
            }
        }
    }
    c.add(&sub, n, n, n, nt);
    c.exhaustive(&sub, true, "f64 lattice: every tie (c+1/2)/MAX and code c/MAX ± ulps (N<=16), j/4096 ± 2 ulp, ±2^k and ±1.5·2^k for all k, ±2^{23,24,52,53,63,64,127,128}(/MAX) ± 2 ulp, specials; walked as a chain");
    total.merge(c);
}

// ---------------------------------------------------------------------------------------
// integer sources

trait UInt: Copy + Send + Sync + 'static {
    const BITS: u32;
    const NAME: &'static str;
    fn to128(self) -> u128;
    fn from128(x: u128) -> Self;
}
macro_rules! uint {
    ($($t:ident),*) => {$(impl UInt for $t {
        const BITS: u32 = <$t>::BITS;
        const NAME: &'static str = stringify!($t);
        fn to128(self) -> u128 { self as u128 }
        fn from128(x: u128) -> Self { x as $t }
    })*};
}
uint!(u8, u16, u32, u64, u128);

fn umax(bits: u32) -> u128 {
    if bits == 128 {
        u128::MAX
    } else {
        (1u128 << bits) - 1
    }
}

/// source values for an integer type: complete for <= 32 bits, structured lattice beyond.
fn int_lattice(bits: u32) -> Vec<u128> {
    let max = umax(bits);
    let mut v = vec![0u128, 1, 2, max, max - 1, max - 2, max / 2, max / 2 + 1, max / 3, max / 255, max / 65535];
    for k in 0..bits {
        let p = 1u128 << k;
        v.extend([p, p.wrapping_sub(1), p + 1, max - p, (max - p).saturating_add(1), (max - p).saturating_sub(1)]);
        for j in 0..k {
            v.push(p | (1 << j));
            for i in 0..j {
                v.push(p | (1 << j) | (1 << i));
            }
        }
    }
    for j in 0..=4096u128 {
        // j·MAX/4096 without overflow
        let x = (max / 4096) * j + ((max % 4096) * j) / 4096;
        v.extend([x, x.saturating_sub(1), x.saturating_add(1).min(max)]);
    }
    // bit-replicated images of every u8 and a stride of u16 / u32 (the widening images)
    for b in 0..=255u128 {
        let mut x = 0u128;
        for i in 0..(bits / 8) {
            x |= b << (8 * i);
        }
        v.push(x & max);
    }
    v.retain(|x| *x <= max);
    v.sort();
    v.dedup();
    v
}

/// generic integer -> X check over an ordered source iterator (chain).
fn int_source<S: UInt>(ctx: &Ctx, total: &mut Collector, force_lattice: bool)
where
    S: IntoStimulus<u8> + IntoStimulus<u16> + IntoStimulus<u32> + IntoStimulus<u64> + IntoStimulus<u128> + IntoStimulus<f32> + IntoStimulus<f64>,
    f32: IntoStimulus<S>,
    f64: IntoStimulus<S>,
    u8: IntoStimulus<S>,
    u16: IntoStimulus<S>,
    u32: IntoStimulus<S>,
    u64: IntoStimulus<S>,
    u128: IntoStimulus<S>,
{
    // quick tier: the u32 source is walked with stride 5 plus complete windows (both ends,
    // every multiple of 2^24 ± 2^10) and the structured lattice; thorough: every u32.
    let complete = S::BITS <= 32 && !force_lattice;
    let filtered = S::BITS == 32 && ctx.tier == pv::Tier::Quick && !force_lattice;
    let smax = umax(S::BITS);
    let lat = if complete { vec![] } else { int_lattice(S::BITS) };
    let include = move |v: u128| -> bool {
        !filtered || v % 5 == 0 || v < (1 << 18) || v > smax - (1 << 18) || ((v + 1024) & 0xFF_FFFF) < 2048
    };
    let count: u64 = if complete { 1u64 << S::BITS } else { lat.len() as u64 };
    let nch: u64 = if count >= (1 << 20) { 4096 } else { 1 };
    let sub = if force_lattice { format!("int-source-lattice/{}", S::NAME) } else { format!("int-source/{}", S::NAME) };
    if !ctx.wants(&sub) {
        return;
    }
    let lat_ref = &lat;
    let get = move |i: u64| -> u128 {
        if complete {
            i as u128
        } else {
            lat_ref[i as usize]
        }
    };
    // results per chunk: last values for cross-chunk monotonicity: [u8,u16,u32,u64,u128] + f32,f64
    let outs = pv::par::map_chunks(nch as usize, |ci| {
        let a = count * ci as u64 / nch;
        let b = count * (ci as u64 + 1) / nch;
        let mut c = Collector::new();
        let mut prev_i: [Option<u128>; 5] = [None; 5];
        let mut first_i: [Option<u128>; 5] = [None; 5];
        let mut prev_f: [Option<f64>; 2] = [None; 2];
        let mut first_f: [Option<f64>; 2] = [None; 2];
        let mut n = 0u64;
        for i in a..b {
            let v = get(i);
            if !include(v) {
                continue;
            }
            let s = S::from128(v);
            let r: [u128; 5] = [
                <S as IntoStimulus<u8>>::into_stimulus(s) as u128,
                <S as IntoStimulus<u16>>::into_stimulus(s) as u128,
                <S as IntoStimulus<u32>>::into_stimulus(s) as u128,
                <S as IntoStimulus<u64>>::into_stimulus(s) as u128,
                <S as IntoStimulus<u128>>::into_stimulus(s),
            ];
            let rf32 = <S as IntoStimulus<f32>>::into_stimulus(s);
            let rf64 = <S as IntoStimulus<f64>>::into_stimulus(s);
            n += 1;
            for (j, &tb) in [8u32, 16, 32, 64, 128].iter().enumerate() {
                let tname = ["u8", "u16", "u32", "u64", "u128"][j];
                let tmax = umax(tb);
                let mk = |obs: String, exp: String| json!({"sub": "int", "src": S::NAME, "dst": tname, "input": v.to_string(), "observed": obs, "expected": exp});
                if v == 0 && r[j] != 0 {
                    c.violation(&format!("C06/int-ends/{}->{}/0", S::NAME, tname), 1.0, || mk(r[j].to_string(), "0".into()));
                }
                if v == smax && r[j] != tmax {
                    c.violation(&format!("C06/int-ends/{}->{}/MAX", S::NAME, tname), 1.0, || mk(r[j].to_string(), tmax.to_string()));
                }
                if let Some(p) = prev_i[j] {
                    if r[j] < p {
                        c.violation(&format!("C06/int-monotone/{}->{}", S::NAME, tname), (p - r[j]) as f64, || mk(r[j].to_string(), format!(">= {p} (result for the previous source value)")));
                    }
                } else {
                    first_i[j] = Some(r[j]);
                }
                prev_i[j] = Some(r[j]);
                // proportionality (loose: ±1 code, ± 2^-52 relative for the wide targets)
                {
                    let ideal = (v as f64 / smax as f64) * tmax as f64;
                    let got = r[j] as f64;
                    let tol = 1.0 + ideal * 2f64.powi(-50);
                    if (got - ideal).abs() > tol {
                        c.violation(&format!("C06/int-proportional/{}->{}", S::NAME, tname), (got - ideal).abs(), || mk(r[j].to_string(), format!("{ideal} ± {tol}")));
                    }
                }
                // widen -> narrow identity for 8/16/32-bit sources
                if tb > S::BITS && S::BITS <= 32 {
                    let back: u128 = match tb {
                        16 => <u16 as IntoStimulus<S>>::into_stimulus(r[j] as u16).to128(),
                        32 => <u32 as IntoStimulus<S>>::into_stimulus(r[j] as u32).to128(),
                        64 => <u64 as IntoStimulus<S>>::into_stimulus(r[j] as u64).to128(),
                        _ => <u128 as IntoStimulus<S>>::into_stimulus(r[j]).to128(),
                    };
                    if back != v {
                        c.violation(&format!("C06/widen-narrow/{}->{}->{}", S::NAME, tname, S::NAME), 1.0, || mk(back.to_string(), v.to_string()));
                    }
                }
                if tb == S::BITS && r[j] != v {
                    c.violation(&format!("C06/int-identity/{}", S::NAME), 1.0, || mk(r[j].to_string(), v.to_string()));
                }
            }
            // floats
            for (j, rf) in [(0usize, rf32 as f64), (1usize, rf64)] {
                let tname = ["f32", "f64"][j];
                let mk = |obs: String, exp: String| json!({"sub": "int", "src": S::NAME, "dst": tname, "input": v.to_string(), "observed": obs, "expected": exp});
                if v == 0 && rf != 0.0 {
                    c.violation(&format!("C06/int-ends/{}->{}/0", S::NAME, tname), 1.0, || mk(rf.to_string(), "0".into()));
                }
                if v == smax && rf != 1.0 {
                    c.violation(&format!("C06/int-ends/{}->{}/MAX", S::NAME, tname), 1.0, || mk(rf.to_string(), "1".into()));
                }
                if !(0.0..=1.0).contains(&rf) {
                    c.violation(&format!("C06/int-float-range/{}->{}", S::NAME, tname), 1.0, || mk(rf.to_string(), "in [0,1]".into()));
                }
                if let Some(p) = prev_f[j] {
                    if rf < p {
                        c.violation(&format!("C06/int-monotone/{}->{}", S::NAME, tname), p - rf, || mk(rf.to_string(), format!(">= {p}")));
                    }
                } else {
                    first_f[j] = Some(rf);
                }
                prev_f[j] = Some(rf);
                // accuracy: within 2 ulp of v/MAX in the target float type
                let ideal = v as f64 / smax as f64;
                let ulp = if j == 0 { pv::fl::ulp32(ideal as f32) } else { pv::fl::ulp64(ideal) };
                if (rf - ideal).abs() > 2.0 * ulp + ideal * 2f64.powi(-52) {
                    c.violation(&format!("C06/int-float-accuracy/{}->{}", S::NAME, tname), (rf - ideal).abs(), || mk(rf.to_string(), ideal.to_string()));
                }
            }
            // int -> float -> same int identity (8, 16 via f32; <= 32 via f64)
            if S::BITS <= 16 {
                let back = <f32 as IntoStimulus<S>>::into_stimulus(rf32).to128();
                if back != v {
                    c.violation(&format!("C06/int-float-int/{}->f32->{}", S::NAME, S::NAME), 1.0, || json!({"sub": "int", "src": S::NAME, "dst": "f32", "input": v.to_string(), "observed": back.to_string(), "expected": v.to_string()}));
                }
            }
            if S::BITS <= 32 {
                let back = <f64 as IntoStimulus<S>>::into_stimulus(rf64).to128();
                if back != v {
                    c.violation(&format!("C06/int-float-int/{}->f64->{}", S::NAME, S::NAME), 1.0, || json!({"sub": "int", "src": S::NAME, "dst": "f64", "input": v.to_string(), "observed": back.to_string(), "expected": v.to_string()}));
                }
            }
            if i % 65521 == 0 {
                c.outcome((r[0] as u64) ^ ((r[2] as u64) << 8) ^ rf64.to_bits());
            }
        }
        c.add(&sub, n, 9 * n, 9 * n, n.saturating_sub(2));
        (c, first_i, prev_i, first_f, prev_f)
    });
    let mut c = Collector::new();
    let mut last_i: [Option<u128>; 5] = [None; 5];
    let mut last_f: [Option<f64>; 2] = [None; 2];
    for (cc, fi, pi, ff, pf) in outs {
        c.merge(cc);
        for j in 0..5 {
            if let (Some(l), Some(f)) = (last_i[j], fi[j]) {
                if f < l {
                    let tn = ["u8", "u16", "u32", "u64", "u128"][j];
                    c.violation(&format!("C06/int-monotone/{}->{}", S::NAME, tn), (l - f) as f64, || json!({"sub": "int", "src": S::NAME, "dst": tn, "input": "chunk boundary", "observed": f.to_string(), "expected": format!(">= {l}")}));
                }
            }
            if pi[j].is_some() {
                last_i[j] = pi[j];
            }
        }
        for j in 0..2 {
            if let (Some(l), Some(f)) = (last_f[j], ff[j]) {
                if f < l {
                    let tn = ["f32", "f64"][j];
                    c.violation(&format!("C06/int-monotone/{}->{}", S::NAME, tn), l - f, || json!({"sub": "int", "src": S::NAME, "dst": tn, "input": "chunk boundary", "observed": f, "expected": format!(">= {l}")}));
                }
            }
            if pf[j].is_some() {
                last_f[j] = pf[j];
            }
        }
    }
    c.exhaustive(&sub, true, if complete && !filtered { "every value of the source type, in order, to all 7 formats" } else if filtered { "every 5th u32 as a chain + complete windows (2^18 at both ends, ±2^10 around every multiple of 2^24) + structured lattice, to all 7 formats (thorough: every u32)" } else { "structured lattice (2^k, 2^k±1, MAX−2^k, ≤3 set bits, j·MAX/4096 ±1, byte-replicated values), in order, to all 7 formats" });
    c.sample(pv::splitmix(ctx.seed ^ S::BITS as u64), || {
        let v = smax / 3;
        json!({"sub": sub, "input": v.to_string(), "to_u8": <S as IntoStimulus<u8>>::into_stimulus(S::from128(v)), "to_f64": <S as IntoStimulus<f64>>::into_stimulus(S::from128(v))})
    });
    total.merge(c);
}

// ---------------------------------------------------------------------------------------
// float <-> float, and the into_format wrappers

fn float_float(ctx: &Ctx, total: &mut Collector) {
    let sub = "float-float";
    if !ctx.wants(sub) {
        return;
    }
    let nch = 1usize << (32 - CHUNK_BITS);
    let c = pv::par::run_chunks(nch, |ci, c| {
        let start = (ci as u32) << CHUNK_BITS;
        let mut n = 0;
        for k in 0..(1u32 << CHUNK_BITS) {
            let x = f32_from_ord(start + k);
            let w: f64 = x.into_stimulus();
            let back: f32 = w.into_stimulus();
            let id: f32 = <f32 as IntoStimulus<f32>>::into_stimulus(x);
            n += 1;
            let ok = if x.is_nan() { w.is_nan() && back.is_nan() } else { w == x as f64 && w.to_bits() == (x as f64).to_bits() && back.to_bits() == x.to_bits() && id.to_bits() == x.to_bits() };
            if !ok {
                c.violation("C06/float-float/f32->f64->f32", 1.0, || json!({"sub": "ff", "input": hex32(x), "observed": [w, back as f64], "expected": x}));
            }
        }
        c.add(sub, n, 3 * n, 3 * n, n);
    });
    total.merge(c);
    total.exhaustive(sub, true, "all 2^32 f32 patterns: f32->f64 exact, ->f32 identity; f64->f32 on lattice is nearest");
    let mut c = Collector::new();
    let mut n = 0;
    for &x in &f64_lattice(16) {
        let r: f32 = x.into_stimulus();
        n += 1;
        let want = x as f32;
        if !(r.to_bits() == want.to_bits() || (r.is_nan() && want.is_nan())) {
            c.violation("C06/float-float/f64->f32", 1.0, || json!({"sub": "ff", "input": hex64(x), "observed": r, "expected": want}));
        }
    }
    c.add("float-float/f64->f32", n, n, n, n);
    c.exhaustive("float-float/f64->f32", true, "f64 lattice");
    total.merge(c);
}

fn wrappers(ctx: &Ctx, c: &mut Collector) {
    use palette::lms::{VonKriesLms, VonKriesLmsa};
    use palette::white_point::D65;
    use palette::{Alpha, Hsl, Hsv, Hwb, LinSrgb, Srgb, SrgbLuma};
    let sub = "into_format-wrappers";
    if !ctx.wants(sub) {
        return;
    }
    let lat: Vec<f32> = vec![-1e10, -1.0, -0.0, 0.0, 1e-9, 0.001, 0.25, 0.5, 0.5019608, 0.75, 1.0f32.next_down(), 1.0, 1.5, 1e10, f32::INFINITY, f32::NEG_INFINITY];
    let mut n = 0u64;
    macro_rules! cmp {
        ($sig:expr, $obs:expr, $exp:expr, $inp:expr) => {{
            n += 1;
            if $obs != $exp {
                c.violation(&format!("C06/wrapper/{}", $sig), 1.0, || json!({"sub": "wrapper", "which": $sig, "input": format!("{:?}", $inp), "observed": format!("{:?}", $obs), "expected": format!("{:?}", $exp)}));
            }
        }};
    }
    macro_rules! per_target {
        ($t:ident) => {{
            for &a in &lat {
                for &b in &[0.0f32, 0.3, 1.0, 2.0] {
                    let e = |x: f32| -> $t { <$t as FromStimulus<f32>>::from_stimulus(x) };
                    let rgb = Srgb::new(a, b, 1.0 - b).into_format::<$t>();
                    cmp!(concat!("Rgb/f32->", stringify!($t)), (rgb.red, rgb.green, rgb.blue), (e(a), e(b), e(1.0 - b)), (a, b));
                    let rgb2 = Srgb::<$t>::from_format(Srgb::new(a, b, 1.0 - b));
                    cmp!(concat!("Rgb/from_format/f32->", stringify!($t)), (rgb2.red, rgb2.green, rgb2.blue), (e(a), e(b), e(1.0 - b)), (a, b));
                    let lin = LinSrgb::new(a, b, 1.0 - b).into_format::<$t>();
                    cmp!(concat!("LinRgb/f32->", stringify!($t)), (lin.red, lin.green, lin.blue), (e(a), e(b), e(1.0 - b)), (a, b));
                    let rgba = palette::Srgba::new(a, b, 1.0 - b, a).into_format::<$t, $t>();
                    cmp!(concat!("Rgba/f32->", stringify!($t)), (rgba.red, rgba.green, rgba.blue, rgba.alpha), (e(a), e(b), e(1.0 - b), e(a)), (a, b));
                    let l = SrgbLuma::new(a).into_format::<$t>();
                    cmp!(concat!("Luma/f32->", stringify!($t)), l.luma, e(a), a);
                    let la = palette::SrgbLumaa::new(a, b).into_format::<$t, $t>();
                    cmp!(concat!("Lumaa/f32->", stringify!($t)), (la.luma, la.alpha), (e(a), e(b)), (a, b));
                    // back to f64 from the integer format
                    let d = |x: $t| -> f64 { <f64 as FromStimulus<$t>>::from_stimulus(x) };
                    let rb = rgb.into_format::<f64>();
                    cmp!(concat!("Rgb/", stringify!($t), "->f64"), (rb.red.to_bits(), rb.green.to_bits(), rb.blue.to_bits()), (d(rgb.red).to_bits(), d(rgb.green).to_bits(), d(rgb.blue).to_bits()), (a, b));
                    let a2: Alpha<Srgb<f32>, $t> = Alpha { color: Srgb::new(b, b, b), alpha: e(a) };
                    let a3 = a2.into_format::<f32, f64>();
                    cmp!(concat!("Alpha/", stringify!($t), "->f64"), a3.alpha.to_bits(), d(e(a)).to_bits(), a);
                    // Lms (lower-bounded only) and its Alpha form, both directions of the call
                    let lms = VonKriesLms::<D65, f32>::new(a, b, 1.0 - b).into_format::<$t>();
                    cmp!(concat!("Lms/f32->", stringify!($t)), (lms.long, lms.medium, lms.short), (e(a), e(b), e(1.0 - b)), (a, b));
                    let lms2 = VonKriesLms::<D65, $t>::from_format(VonKriesLms::<D65, f32>::new(a, b, 1.0 - b));
                    cmp!(concat!("Lms/from_format/f32->", stringify!($t)), (lms2.long, lms2.medium, lms2.short), (e(a), e(b), e(1.0 - b)), (a, b));
                    let lmsa = VonKriesLmsa::<D65, f32>::new(a, b, 1.0 - b, a).into_format::<$t, $t>();
                    cmp!(concat!("Lmsa/f32->", stringify!($t)), (lmsa.long, lmsa.medium, lmsa.short, lmsa.alpha), (e(a), e(b), e(1.0 - b), e(a)), (a, b));
                    // colour and alpha converted to DIFFERENT formats: each follows its own component function
                    {
                        let e16 = |x: f32| -> u16 { <u16 as FromStimulus<f32>>::from_stimulus(x) };
                        let e8 = |x: f32| -> u8 { <u8 as FromStimulus<f32>>::from_stimulus(x) };
                        let la = palette::SrgbLumaa::new(a, b).into_format::<$t, u16>();
                        cmp!(concat!("Lumaa/f32->", stringify!($t), ",u16"), (la.luma, la.alpha), (e(a), e16(b)), (a, b));
                        let la = palette::SrgbLumaa::new(a, b).into_format::<u8, $t>();
                        cmp!(concat!("Lumaa/f32->u8,", stringify!($t)), (la.luma, la.alpha), (e8(a), e(b)), (a, b));
                        let la: Alpha<SrgbLuma<$t>, u16> = Alpha::<SrgbLuma<$t>, u16>::from_format(palette::SrgbLumaa::new(a, b));
                        cmp!(concat!("Lumaa/from_format/f32->", stringify!($t), ",u16"), (la.luma, la.alpha), (e(a), e16(b)), (a, b));
                        let ra = palette::Srgba::new(a, b, 1.0 - b, b).into_format::<$t, u16>();
                        cmp!(concat!("Rgba/f32->", stringify!($t), ",u16"), (ra.red, ra.green, ra.blue, ra.alpha), (e(a), e(b), e(1.0 - b), e16(b)), (a, b));
                        let ra = palette::Srgba::new(a, b, 1.0 - b, b).into_format::<u8, $t>();
                        cmp!(concat!("Rgba/f32->u8,", stringify!($t)), (ra.red, ra.green, ra.blue, ra.alpha), (e8(a), e8(b), e8(1.0 - b), e(b)), (a, b));
                        let ra: Alpha<Srgb<$t>, u16> = Alpha::<Srgb<$t>, u16>::from_format(palette::Srgba::new(a, b, 1.0 - b, b));
                        cmp!(concat!("Rgba/from_format/f32->", stringify!($t), ",u16"), (ra.red, ra.alpha), (e(a), e16(b)), (a, b));
                        let ma = VonKriesLmsa::<D65, f32>::new(a, b, 1.0 - b, b).into_format::<$t, u16>();
                        cmp!(concat!("Lmsa/f32->", stringify!($t), ",u16"), (ma.long, ma.medium, ma.short, ma.alpha), (e(a), e(b), e(1.0 - b), e16(b)), (a, b));
                        let ma = VonKriesLmsa::<D65, f32>::new(a, b, 1.0 - b, b).into_format::<u8, $t>();
                        cmp!(concat!("Lmsa/f32->u8,", stringify!($t)), (ma.long, ma.alpha), (e8(a), e(b)), (a, b));
                        // an integer alpha survives a change of the colour's format alone
                        let keep: Alpha<SrgbLuma<f32>, $t> = Alpha { color: SrgbLuma::new(b), alpha: e(a) };
                        let k2 = keep.into_format::<u8, $t>();
                        cmp!(concat!("Lumaa/alpha-kept/", stringify!($t)), (k2.luma, k2.alpha), (e8(b), e(a)), (a, b));
                        let keep: Alpha<Srgb<f32>, $t> = Alpha { color: Srgb::new(b, b, b), alpha: e(a) };
                        let k2 = keep.into_format::<u8, $t>();
                        cmp!(concat!("Rgba/alpha-kept/", stringify!($t)), (k2.red, k2.alpha), (e8(b), e(a)), (a, b));
                        let keep: Alpha<VonKriesLms<D65, f32>, $t> = Alpha { color: VonKriesLms::<D65, f32>::new(b, b, b), alpha: e(a) };
                        let k2 = keep.into_format::<u8, $t>();
                        cmp!(concat!("Lmsa/alpha-kept/", stringify!($t)), (k2.long, k2.alpha), (e8(b), e(a)), (a, b));
                    }
                    let lb = lms.into_format::<f64>();
                    cmp!(concat!("Lms/", stringify!($t), "->f64"), (lb.long.to_bits(), lb.medium.to_bits(), lb.short.to_bits()), (d(lms.long).to_bits(), d(lms.medium).to_bits(), d(lms.short).to_bits()), (a, b));
                    let lub = SrgbLuma::<$t>::new(e(a)).into_format::<f64>();
                    cmp!(concat!("Luma/", stringify!($t), "->f64"), lub.luma.to_bits(), d(e(a)).to_bits(), a);
                    let rgb3 = Srgb::<f64>::from_format(rgb);
                    cmp!(concat!("Rgb/from_format/", stringify!($t), "->f64"), (rgb3.red.to_bits(), rgb3.green.to_bits(), rgb3.blue.to_bits()), (d(rgb.red).to_bits(), d(rgb.green).to_bits(), d(rgb.blue).to_bits()), (a, b));
                }
            }
        }};
    }
    per_target!(u8);
    per_target!(u16);
    per_target!(u32);
    per_target!(u64);
    per_target!(u128);
    // integer -> integer wrappers: every u8 code, the ends and a middle code of u16 / u32, through Rgb, Rgba, Luma, Lms
    macro_rules! int_int {
        ($s:ident => $($t:ident),*) => {{
            let codes: Vec<$s> = if <$s>::MAX as u128 == 255 { (0..=255u32).map(|v| v as $s).collect() } else { vec![0, 1, <$s>::MAX / 2, <$s>::MAX / 2 + 1, <$s>::MAX - 1, <$s>::MAX, 12345u32 as $s, 257u32 as $s] };
            $(
                for &a in &codes {
                    let b: $s = <$s>::MAX - a;
                    let e = |x: $s| -> $t { <$t as FromStimulus<$s>>::from_stimulus(x) };
                    let rgb = Srgb::<$s>::new(a, b, a).into_format::<$t>();
                    cmp!(concat!("Rgb/", stringify!($s), "->", stringify!($t)), (rgb.red, rgb.green, rgb.blue), (e(a), e(b), e(a)), (a, b));
                    let rgb2 = Srgb::<$t>::from_format(Srgb::<$s>::new(a, b, a));
                    cmp!(concat!("Rgb/from_format/", stringify!($s), "->", stringify!($t)), (rgb2.red, rgb2.green, rgb2.blue), (e(a), e(b), e(a)), (a, b));
                    let rgba = palette::Srgba::<$s>::new(a, b, a, b).into_format::<$t, $t>();
                    cmp!(concat!("Rgba/", stringify!($s), "->", stringify!($t)), (rgba.red, rgba.green, rgba.blue, rgba.alpha), (e(a), e(b), e(a), e(b)), (a, b));
                    let rgba2 = palette::Srgba::<$t>::from_format(palette::Srgba::<$s>::new(a, b, a, b));
                    cmp!(concat!("Rgba/from_format/", stringify!($s), "->", stringify!($t)), (rgba2.red, rgba2.green, rgba2.blue, rgba2.alpha), (e(a), e(b), e(a), e(b)), (a, b));
                    let l = SrgbLuma::<$s>::new(a).into_format::<$t>();
                    cmp!(concat!("Luma/", stringify!($s), "->", stringify!($t)), l.luma, e(a), a);
                    let la = palette::SrgbLumaa::<$s>::new(a, b).into_format::<$t, $t>();
                    cmp!(concat!("Lumaa/", stringify!($s), "->", stringify!($t)), (la.luma, la.alpha), (e(a), e(b)), (a, b));
                    let lms = VonKriesLms::<D65, $s>::new(a, b, a).into_format::<$t>();
                    cmp!(concat!("Lms/", stringify!($s), "->", stringify!($t)), (lms.long, lms.medium, lms.short), (e(a), e(b), e(a)), (a, b));
                }
            )*
        }};
    }
    int_int!(u8 => u8, u16, u32, u64, u128, f32, f64);
    int_int!(u16 => u8, u16, u32, u64, u128, f32, f64);
    int_int!(u32 => u8, u16, u32, u64, u128, f32, f64);
    // `From` impls between component formats (Rgb / Rgba u8 <-> f32 <-> f64, Lms / Lmsa f32 <-> f64): the same
    // values as into_format, on every 8-bit rounding tie and both neighbours (f64: relative 1e-9 and 1 ulp; f32: 1 ulp)
    {
        let mut f64s: Vec<f64> = lat.iter().map(|&x| x as f64).collect();
        let mut f32s: Vec<f32> = lat.clone();
        for k in 0..255u32 {
            let t = (k as f64 + 0.5) / 255.0;
            f64s.extend([t, t * (1.0 + 1e-9), t * (1.0 - 1e-9), f64::from_bits(t.to_bits() + 1), f64::from_bits(t.to_bits() - 1), k as f64 / 255.0]);
            let t32 = t as f32;
            f32s.extend([t32, f32::from_bits(t32.to_bits() + 1), f32::from_bits(t32.to_bits() - 1), k as f32 / 255.0]);
        }
        let e8_64 = |x: f64| <u8 as FromStimulus<f64>>::from_stimulus(x);
        let e8_32 = |x: f32| <u8 as FromStimulus<f32>>::from_stimulus(x);
        for (i, &x) in f64s.iter().enumerate() {
            let y = f64s[(i * 7 + 3) % f64s.len()];
            let r = Srgb::<u8>::from(Srgb::<f64>::new(x, y, x));
            cmp!("From/Rgb<f64>->Rgb<u8>", (r.red, r.green, r.blue), (e8_64(x), e8_64(y), e8_64(x)), (x, y));
            let r = palette::Srgba::<u8>::from(palette::Srgba::<f64>::new(x, y, x, y));
            cmp!("From/Rgba<f64>->Rgba<u8>", (r.red, r.green, r.blue, r.alpha), (e8_64(x), e8_64(y), e8_64(x), e8_64(y)), (x, y));
            let r = LinSrgb::<u8>::from(LinSrgb::<f64>::new(x, y, x));
            cmp!("From/LinRgb<f64>->LinRgb<u8>", (r.red, r.green, r.blue), (e8_64(x), e8_64(y), e8_64(x)), (x, y));
            let r = Srgb::<f32>::from(Srgb::<f64>::new(x, y, x));
            cmp!("From/Rgb<f64>->Rgb<f32>", (r.red.to_bits(), r.green.to_bits(), r.blue.to_bits()), ((x as f32).to_bits(), (y as f32).to_bits(), (x as f32).to_bits()), (x, y));
            let r = palette::Srgba::<f32>::from(palette::Srgba::<f64>::new(x, y, x, y));
            cmp!("From/Rgba<f64>->Rgba<f32>", (r.red.to_bits(), r.alpha.to_bits()), ((x as f32).to_bits(), (y as f32).to_bits()), (x, y));
            let m = VonKriesLms::<D65, f32>::from(VonKriesLms::<D65, f64>::new(x, y, x));
            cmp!("From/Lms<f64>->Lms<f32>", (m.long.to_bits(), m.medium.to_bits(), m.short.to_bits()), ((x as f32).to_bits(), (y as f32).to_bits(), (x as f32).to_bits()), (x, y));
            let m = VonKriesLmsa::<D65, f32>::from(VonKriesLmsa::<D65, f64>::new(x, y, x, y));
            cmp!("From/Lmsa<f64>->Lmsa<f32>", (m.long.to_bits(), m.alpha.to_bits()), ((x as f32).to_bits(), (y as f32).to_bits()), (x, y));
        }
        for (i, &x) in f32s.iter().enumerate() {
            let y = f32s[(i * 7 + 3) % f32s.len()];
            let r = Srgb::<u8>::from(Srgb::<f32>::new(x, y, x));
            cmp!("From/Rgb<f32>->Rgb<u8>", (r.red, r.green, r.blue), (e8_32(x), e8_32(y), e8_32(x)), (x, y));
            let r = palette::Srgba::<u8>::from(palette::Srgba::<f32>::new(x, y, x, y));
            cmp!("From/Rgba<f32>->Rgba<u8>", (r.red, r.green, r.blue, r.alpha), (e8_32(x), e8_32(y), e8_32(x), e8_32(y)), (x, y));
            let r = Srgb::<f64>::from(Srgb::<f32>::new(x, y, x));
            cmp!("From/Rgb<f32>->Rgb<f64>", (r.red.to_bits(), r.green.to_bits(), r.blue.to_bits()), ((x as f64).to_bits(), (y as f64).to_bits(), (x as f64).to_bits()), (x, y));
            let r = palette::Srgba::<f64>::from(palette::Srgba::<f32>::new(x, y, x, y));
            cmp!("From/Rgba<f32>->Rgba<f64>", (r.red.to_bits(), r.alpha.to_bits()), ((x as f64).to_bits(), (y as f64).to_bits()), (x, y));
            let m = VonKriesLms::<D65, f64>::from(VonKriesLms::<D65, f32>::new(x, y, x));
            cmp!("From/Lms<f32>->Lms<f64>", (m.long.to_bits(), m.medium.to_bits(), m.short.to_bits()), ((x as f64).to_bits(), (y as f64).to_bits(), (x as f64).to_bits()), (x, y));
            let m = VonKriesLmsa::<D65, f64>::from(VonKriesLmsa::<D65, f32>::new(x, y, x, y));
            cmp!("From/Lmsa<f32>->Lmsa<f64>", (m.long.to_bits(), m.alpha.to_bits()), ((x as f64).to_bits(), (y as f64).to_bits()), (x, y));
        }
        for v in 0..=255u8 {
            let w = 255 - v;
            let d32 = |x: u8| <f32 as FromStimulus<u8>>::from_stimulus(x).to_bits();
            let d64 = |x: u8| <f64 as FromStimulus<u8>>::from_stimulus(x).to_bits();
            let r = Srgb::<f32>::from(Srgb::<u8>::new(v, w, v));
            cmp!("From/Rgb<u8>->Rgb<f32>", (r.red.to_bits(), r.green.to_bits(), r.blue.to_bits()), (d32(v), d32(w), d32(v)), (v, w));
            let r = palette::Srgba::<f32>::from(palette::Srgba::<u8>::new(v, w, v, w));
            cmp!("From/Rgba<u8>->Rgba<f32>", (r.red.to_bits(), r.alpha.to_bits()), (d32(v), d32(w)), (v, w));
            let r = Srgb::<f64>::from(Srgb::<u8>::new(v, w, v));
            cmp!("From/Rgb<u8>->Rgb<f64>", (r.red.to_bits(), r.green.to_bits(), r.blue.to_bits()), (d64(v), d64(w), d64(v)), (v, w));
            let r = palette::Srgba::<f64>::from(palette::Srgba::<u8>::new(v, w, v, w));
            cmp!("From/Rgba<u8>->Rgba<f64>", (r.red.to_bits(), r.alpha.to_bits()), (d64(v), d64(w)), (v, w));
        }
    }
    // hue-bearing types: float -> float
    for &a in &lat {
        for &b in &[0.0f32, 0.3, 1.0] {
            let h = Hsv::new_srgb(120.0f32, a, b).into_format::<f64>();
            cmp!("Hsv/f32->f64", (h.hue.into_inner(), h.saturation.to_bits(), h.value.to_bits()), (120.0f64, (a as f64).to_bits(), (b as f64).to_bits()), (a, b));
            let h = Hsl::new_srgb(120.0f32, a, b).into_format::<f64>();
            cmp!("Hsl/f32->f64", (h.hue.into_inner(), h.saturation.to_bits(), h.lightness.to_bits()), (120.0f64, (a as f64).to_bits(), (b as f64).to_bits()), (a, b));
            let h = Hwb::new_srgb(120.0f32, a, b).into_format::<f64>();
            cmp!("Hwb/f32->f64", (h.hue.into_inner(), h.whiteness.to_bits(), h.blackness.to_bits()), (120.0f64, (a as f64).to_bits(), (b as f64).to_bits()), (a, b));
            {
                let e8 = <u8 as FromStimulus<f32>>::from_stimulus(a);
                let e16 = <u16 as FromStimulus<f32>>::from_stimulus(a);
                let h = palette::Hsla::new_srgb(120.0f32, a, b, a).into_format::<f64, u8>();
                cmp!("Hsla/f32->f64,u8", (h.saturation.to_bits(), h.alpha), ((a as f64).to_bits(), e8), (a, b));
                let h = palette::Hwba::new_srgb(120.0f32, a, b, a).into_format::<f64, u16>();
                cmp!("Hwba/f32->f64,u16", (h.whiteness.to_bits(), h.alpha), ((a as f64).to_bits(), e16), (a, b));
                let h = palette::Okhsla::new(120.0f32, a, b, a).into_format::<f64, u8>();
                cmp!("Okhsla/f32->f64,u8", (h.saturation.to_bits(), h.lightness.to_bits(), h.alpha), ((a as f64).to_bits(), (b as f64).to_bits(), e8), (a, b));
                let h = palette::Okhsva::new(120.0f32, a, b, a).into_format::<f64, u16>();
                cmp!("Okhsva/f32->f64,u16", (h.saturation.to_bits(), h.value.to_bits(), h.alpha), ((a as f64).to_bits(), (b as f64).to_bits(), e16), (a, b));
                let h = palette::Okhwba::new(120.0f32, a, b, a).into_format::<f64, u8>();
                cmp!("Okhwba/f32->f64,u8", (h.whiteness.to_bits(), h.blackness.to_bits(), h.alpha), ((a as f64).to_bits(), (b as f64).to_bits(), e8), (a, b));
                let k: Alpha<palette::Okhsl<f32>, u16> = Alpha { color: palette::Okhsl::new(120.0f32, b, b), alpha: e16 };
                let k2 = k.into_format::<f64, u16>();
                cmp!("Okhsla/alpha-kept/u16", k2.alpha, e16, (a, b));
                let k: Alpha<Hsv<palette::encoding::Srgb, f32>, u16> = Alpha { color: Hsv::new_srgb(120.0f32, b, b), alpha: e16 };
                let k2 = k.into_format::<f64, u16>();
                cmp!("Hsva/alpha-kept/u16", k2.alpha, e16, (a, b));
            }
            // the non-hue components of the hue-bearing types are stimuli: float <-> u8 / u16 like any other component
            {
                let (e8a, e8b) = (<u8 as FromStimulus<f32>>::from_stimulus(a), <u8 as FromStimulus<f32>>::from_stimulus(b));
                let d = |x: u8| <f32 as FromStimulus<u8>>::from_stimulus(x).to_bits();
                macro_rules! hb {
                    ($name:literal, $mk:expr, $c1:ident, $c2:ident) => {{
                        let x = $mk;
                        let q8 = x.into_format::<u8>();
                        cmp!(concat!($name, "/f32->u8"), (q8.$c1, q8.$c2), (e8a, e8b), (a, b));
                        let back = q8.into_format::<f32>();
                        cmp!(concat!($name, "/u8->f32"), (back.$c1.to_bits(), back.$c2.to_bits()), (d(e8a), d(e8b)), (a, b));
                    }};
                }
                hb!("Hsv", Hsv::new_srgb(120.0f32, a, b), saturation, value);
                hb!("Hsl", Hsl::new_srgb(120.0f32, a, b), saturation, lightness);
                hb!("Hwb", Hwb::new_srgb(120.0f32, a, b), whiteness, blackness);
                hb!("Okhsl", palette::Okhsl::new(120.0f32, a, b), saturation, lightness);
                hb!("Okhsv", palette::Okhsv::new(120.0f32, a, b), saturation, value);
                hb!("Okhwb", palette::Okhwb::new(120.0f32, a, b), whiteness, blackness);
            }
            let h = palette::Hsva::new_srgb(120.0f32, a, b, a).into_format::<f64, u8>();
            cmp!("Hsva/f32->f64,u8", (h.saturation.to_bits(), h.alpha), ((a as f64).to_bits(), <u8 as FromStimulus<f32>>::from_stimulus(a)), (a, b));
        }
    }
    c.add(sub, n, n, n, n);
    c.exhaustive(sub, true, "16 component values (incl. out of range, infinities) × 4 × {Rgb, LinRgb, Rgba, Luma, Lumaa, Alpha, Lms, Lmsa, Hsv, Hsl, Hwb, Hsva} × {u8..u128,f64}, into_format and from_format, colour and alpha to the same and to different formats (T,u16 / u8,T / alpha kept); the 20 `From` impls between Rgb / Rgba / Lms / Lmsa formats on every 8-bit tie and its neighbours; integer sources: all 256 u8 codes / 8 codes of u16, u32 × {Rgb, Rgba, Luma, Lumaa, Lms} → {u8..u128, f32, f64}: wrapper ≡ component function, bitwise");
}

fn replay(c: &mut Collector, rep: &Value) {
    let case = &rep["case"];
    let hexp = |v: &Value| -> u64 { u64::from_str_radix(v.as_str().unwrap_or("0x0").trim_start_matches("0x"), 16).unwrap_or(0) };
    match case["sub"].as_str().unwrap_or("") {
        "f2u" | "f2u-pair" | "f2u-pair64" => {
            let src = case["src"].as_str().unwrap();
            let dst = case["dst"].as_str().unwrap();
            let t = f2u_table().into_iter().find(|t| t.src == src && t.dst == dst).expect("pair");
            let inputs: Vec<u64> = match &case["input"] {
                Value::Array(a) => a.iter().map(hexp).collect(),
                v => vec![hexp(v)],
            };
            let widen = case["widen"].as_bool().unwrap_or(false);
            let mut prev: Option<u128> = None;
            for b in inputs {
                let is32 = case["sub"] == "f2u-pair" || (case["sub"] == "f2u" && src == "f32");
                let (r, xv, bits) = if is32 {
                    let x = f32::from_bits(b as u32);
                    if widen || t.f32f.is_none() { ((t.f64f.unwrap())(x as f64), x as f64, (x as f64).to_bits()) } else { ((t.f32f.unwrap())(x), x as f64, b) }
                } else {
                    let x = f64::from_bits(b);
                    ((t.f64f.unwrap())(x), x, b)
                };
                println!("{src}->{dst}: {xv:e} -> {r}");
                check_f2u(c, &t, xv, r, bits);
                if let Some(p) = prev {
                    if r < p {
                        c.violation(&format!("C06/monotone/{}->{}/{}", src, dst, class_of(xv)), (p - r) as f64, || case.clone());
                    }
                }
                prev = Some(r);
            }
        }
        "wrapper" => {
            let ctx = Ctx::from_args("C06").0;
            wrappers(&ctx, c);
        }
        _ => {
            // integer-source cases re-run the (cheap) complete source sweep for the named type
            let ctx = Ctx::from_args("C06").0;
            match case["src"].as_str().unwrap_or("u8") {
                "u8" => int_source::<u8>(&ctx, c, false),
                "u16" => int_source::<u16>(&ctx, c, false),
                "u32" => int_source::<u32>(&ctx, c, false),
                "u64" => int_source::<u64>(&ctx, c, false),
                _ => int_source::<u128>(&ctx, c, false),
            }
        }
    }
}

fn selftest() {
    // oracle self-check on hand-computed values (a wrong oracle is a machinery failure)
    let chk = |x: f64, n: u32, w: u32, lo: u128, hi: u128| {
        let d = pv::fl::dyadic64(x).unwrap();
        let got = accept_range(d.m as u64, d.e, n, w);
        if got != (lo, hi) {
            eprintln!("MACHINERY-FAILURE: oracle self-test: accept_range({x}, {n}, {w}) = {got:?}, want ({lo}, {hi})");
            std::process::exit(3);
        }
    };
    chk(0.5, 8, 24, 127, 128); // 127.5: tie, both neighbours
    chk(0.25, 8, 24, 64, 64); // 63.75
    chk(1.0 / 255.0 * 3.0, 8, 53, 3, 3);
    chk(0.5, 64, 53, (1u128 << 63) - 1 - 1024, (1u128 << 63) + 1024); // p = 2^63 − 0.5, ulp = 2^10 (p < 2^63)
    chk(2f64.powi(-70), 64, 53, 0, 0);
    // the u128 fast path must agree with the 256-bit implementation
    let mut z = 0x1234_5678_9abc_def0u64;
    for i in 0..200_000u64 {
        z = pv::splitmix(z ^ i);
        let x = f64::from_bits((z >> 2) % 0x3ff0_0000_0000_0000);
        if !(x > 0.0 && x < 1.0) {
            continue;
        }
        let d = pv::fl::dyadic64(x).unwrap();
        for (n, w) in [(8, 24), (8, 53), (16, 24), (16, 53), (32, 53), (64, 53)] {
            let a = accept_range_small(d.m as u64, d.e, n, w);
            let b = accept_range_big(d.m as u64, d.e, n, w);
            if a != b {
                eprintln!("MACHINERY-FAILURE: oracle self-test: small/big disagree for {x:e} N={n} W={w}: {a:?} vs {b:?}");
                std::process::exit(3);
            }
        }
    }
}

fn main() {
    pv::main_guard(real_main)
}

fn real_main() -> i32 {
    selftest();
    let (ctx, mode) = Ctx::from_args("C06");
    if let Mode::Replay(rep) = mode {
        let mut c = Collector::new();
        replay(&mut c, &rep);
        return ctx.finish_replay(c);
    }
    let mut total = Collector::new();
    for t in f2u_table() {
        if t.src == "f32" {
            walk_f2u(&ctx, &mut total, &t, false);
        } else {
            // f64 source on every f32-representable double (thorough: all; quick: u8 and u64 targets)
            if ctx.tier == pv::Tier::Thorough || t.dst == "u8" || t.dst == "u64" {
                walk_f2u(&ctx, &mut total, &t, true);
            }
        }
        lattice_f2u(&ctx, &mut total, &t);
    }
    float_float(&ctx, &mut total);
    int_source::<u8>(&ctx, &mut total, false);
    int_source::<u16>(&ctx, &mut total, false);
    int_source::<u32>(&ctx, &mut total, false);
    int_source::<u32>(&ctx, &mut total, true);
    int_source::<u64>(&ctx, &mut total, false);
    int_source::<u128>(&ctx, &mut total, false);
    wrappers(&ctx, &mut total);
    let code = ctx.finish(
        total,
        "model_checking",
        "states = source values walked in numeric order (complete f32, u8, u16, u32 spaces; lattices for f64/u64/u128); every state is converted to each target format and compared with an exact integer-arithmetic prediction; non-trivial = float inputs strictly inside (0,1) resp. integer sources other than 0 and MAX",
        &["exact oracle: |r − x·MAX| <= 1/2 + ulp_W(x·MAX) with W the float type the implementation scales in (f32 for f32->u8/u16, f64 otherwise), evaluated in 256-bit integer arithmetic", "Rust `as` casts between float types are IEEE round-to-nearest (used to predict f64->f32)"],
    );
    code
}
