//! The node lists per configuration (white point × component type). Edges are discovered.
/// imports every group macro expansion needs
#[macro_export]
macro_rules! group_prelude {
    () => {
        #[allow(unused_imports)]
        use $crate::graph;
        #[allow(unused_imports)]
        use $crate::Kind as K;
        #[allow(unused_imports)]
        use $crate::palette::encoding::{self, Linear};
        #[allow(unused_imports)]
        use $crate::palette::lms::{BradfordLms, VonKriesLms};
        #[allow(unused_imports)]
        use $crate::palette::luma::Luma;
        #[allow(unused_imports)]
        use $crate::palette::rgb::Rgb;
        #[allow(unused_imports)]
        use $crate::palette::white_point::{self as wp};
        #[allow(unused_imports)]
        use $crate::palette::{Hsl, Hsluv, Hsv, Hwb, Lab, Lch, Lchuv, Luv, Okhsl, Okhsv, Okhwb, Oklab, Oklch, Xyz, Yxy};
        #[allow(unused_imports)]
        use $crate::pv::refmodel::cie::Wp;
        #[allow(unused_imports)]
        use $crate::pv::refmodel::rgb as R;
    };
}

#[macro_export]
macro_rules! d65_core {
    ($fname:ident, $T:ty) => {
        $crate::graph!($fname, "D65-core", $T, [
            ("Xyz", Xyz<wp::D65, $T>, K::Xyz(Wp::D65)),
            ("Yxy", Yxy<wp::D65, $T>, K::Yxy(Wp::D65)),
            ("Lab", Lab<wp::D65, $T>, K::Lab(Wp::D65)),
            ("Lch", Lch<wp::D65, $T>, K::Lch(Wp::D65)),
            ("Luv", Luv<wp::D65, $T>, K::Luv(Wp::D65)),
            ("Lchuv", Lchuv<wp::D65, $T>, K::Lchuv(Wp::D65)),
            ("Hsluv", Hsluv<wp::D65, $T>, K::Hsluv(Wp::D65)),
            ("LmsVonKries", VonKriesLms<wp::D65, $T>, K::LmsVonKries(Wp::D65)),
            ("LmsBradford", BradfordLms<wp::D65, $T>, K::LmsBradford(Wp::D65)),
            ("Oklab", Oklab<$T>, K::Oklab),
            ("Oklch", Oklch<$T>, K::Oklch),
            ("Okhsl", Okhsl<$T>, K::Okhsl),
            ("Okhsv", Okhsv<$T>, K::Okhsv),
            ("Okhwb", Okhwb<$T>, K::Okhwb),
            ("Srgb", Rgb<encoding::Srgb, $T>, K::Rgb(R::SRGB)),
            ("Hsl<Srgb>", Hsl<encoding::Srgb, $T>, K::Hsl(R::SRGB)),
            ("Hsv<Srgb>", Hsv<encoding::Srgb, $T>, K::Hsv(R::SRGB)),
            ("Hwb<Srgb>", Hwb<encoding::Srgb, $T>, K::Hwb(R::SRGB)),
            ("LinSrgb", Rgb<Linear<encoding::Srgb>, $T>, K::Rgb(R::LIN_SRGB)),
            ("Hsl<LinSrgb>", Hsl<Linear<encoding::Srgb>, $T>, K::Hsl(R::LIN_SRGB)),
            ("Hsv<LinSrgb>", Hsv<Linear<encoding::Srgb>, $T>, K::Hsv(R::LIN_SRGB)),
            ("Hwb<LinSrgb>", Hwb<Linear<encoding::Srgb>, $T>, K::Hwb(R::LIN_SRGB)),
            ("AdobeRgb", Rgb<encoding::AdobeRgb, $T>, K::Rgb(R::ADOBE)),
            ("Hsv<AdobeRgb>", Hsv<encoding::AdobeRgb, $T>, K::Hsv(R::ADOBE)),
            ("Rec709", Rgb<encoding::Rec709, $T>, K::Rgb(R::REC709)),
            ("Hsl<Rec709>", Hsl<encoding::Rec709, $T>, K::Hsl(R::REC709)),
            ("Rec2020", Rgb<encoding::Rec2020, $T>, K::Rgb(R::REC2020)),
            ("Hwb<Rec2020>", Hwb<encoding::Rec2020, $T>, K::Hwb(R::REC2020)),
            ("DisplayP3", Rgb<encoding::DisplayP3, $T>, K::Rgb(R::DISPLAY_P3)),
            ("Hsv<DisplayP3>", Hsv<encoding::DisplayP3, $T>, K::Hsv(R::DISPLAY_P3)),
            ("LinDisplayP3", Rgb<Linear<encoding::DisplayP3>, $T>, K::Rgb(R::LIN_DISPLAY_P3)),
            ("LinRec2020", Rgb<Linear<encoding::Rec2020>, $T>, K::Rgb(R::LIN_REC2020)),
            ("Luma<Srgb>", Luma<encoding::Srgb, $T>, K::Luma(R::SRGB)),
            ("LinLuma<D65>", Luma<Linear<wp::D65>, $T>, K::Luma(R::LIN_SRGB)),
        ]);
    };
}

// every cylindrical form of every D65 standard (thorough tier): the same-standard cliques
#[macro_export]
macro_rules! d65_cyl {
    ($fname:ident, $T:ty) => {
        $crate::graph!($fname, "D65-cylindrical", $T, [
            ("Xyz", Xyz<wp::D65, $T>, K::Xyz(Wp::D65)),
            ("Lab", Lab<wp::D65, $T>, K::Lab(Wp::D65)),
            ("Oklab", Oklab<$T>, K::Oklab),
            ("AdobeRgb", Rgb<encoding::AdobeRgb, $T>, K::Rgb(R::ADOBE)),
            ("Hsl<AdobeRgb>", Hsl<encoding::AdobeRgb, $T>, K::Hsl(R::ADOBE)),
            ("Hsv<AdobeRgb>", Hsv<encoding::AdobeRgb, $T>, K::Hsv(R::ADOBE)),
            ("Hwb<AdobeRgb>", Hwb<encoding::AdobeRgb, $T>, K::Hwb(R::ADOBE)),
            ("Rec709", Rgb<encoding::Rec709, $T>, K::Rgb(R::REC709)),
            ("Hsl<Rec709>", Hsl<encoding::Rec709, $T>, K::Hsl(R::REC709)),
            ("Hsv<Rec709>", Hsv<encoding::Rec709, $T>, K::Hsv(R::REC709)),
            ("Hwb<Rec709>", Hwb<encoding::Rec709, $T>, K::Hwb(R::REC709)),
            ("Rec2020", Rgb<encoding::Rec2020, $T>, K::Rgb(R::REC2020)),
            ("Hsl<Rec2020>", Hsl<encoding::Rec2020, $T>, K::Hsl(R::REC2020)),
            ("Hsv<Rec2020>", Hsv<encoding::Rec2020, $T>, K::Hsv(R::REC2020)),
            ("Hwb<Rec2020>", Hwb<encoding::Rec2020, $T>, K::Hwb(R::REC2020)),
            ("DisplayP3", Rgb<encoding::DisplayP3, $T>, K::Rgb(R::DISPLAY_P3)),
            ("Hsl<DisplayP3>", Hsl<encoding::DisplayP3, $T>, K::Hsl(R::DISPLAY_P3)),
            ("Hsv<DisplayP3>", Hsv<encoding::DisplayP3, $T>, K::Hsv(R::DISPLAY_P3)),
            ("Hwb<DisplayP3>", Hwb<encoding::DisplayP3, $T>, K::Hwb(R::DISPLAY_P3)),
            ("LinAdobeRgb", Rgb<Linear<encoding::AdobeRgb>, $T>, K::Rgb(R::LIN_ADOBE)),
            ("Luma<Rec709>", Luma<encoding::Rec709, $T>, K::Luma(R::REC709)),
            ("Luma<Rec2020>", Luma<encoding::Rec2020, $T>, K::Luma(R::REC2020)),
            ("Luma<AdobeRgb>", Luma<encoding::AdobeRgb, $T>, K::Luma(R::ADOBE)),
            ("Luma<DisplayP3>", Luma<encoding::DisplayP3, $T>, K::Luma(R::DISPLAY_P3)),
        ]);
    };
}

#[macro_export]
macro_rules! d50_group {
    ($fname:ident, $T:ty) => {
        $crate::graph!($fname, "D50", $T, [
            ("Xyz", Xyz<wp::D50, $T>, K::Xyz(Wp::D50)),
            ("Yxy", Yxy<wp::D50, $T>, K::Yxy(Wp::D50)),
            ("Lab", Lab<wp::D50, $T>, K::Lab(Wp::D50)),
            ("Lch", Lch<wp::D50, $T>, K::Lch(Wp::D50)),
            ("Luv", Luv<wp::D50, $T>, K::Luv(Wp::D50)),
            ("Lchuv", Lchuv<wp::D50, $T>, K::Lchuv(Wp::D50)),
            ("LmsBradford", BradfordLms<wp::D50, $T>, K::LmsBradford(Wp::D50)),
            ("ProPhotoRgb", Rgb<encoding::ProPhotoRgb, $T>, K::Rgb(R::PROPHOTO)),
            ("Hsl<ProPhotoRgb>", Hsl<encoding::ProPhotoRgb, $T>, K::Hsl(R::PROPHOTO)),
            ("Hsv<ProPhotoRgb>", Hsv<encoding::ProPhotoRgb, $T>, K::Hsv(R::PROPHOTO)),
            ("Hwb<ProPhotoRgb>", Hwb<encoding::ProPhotoRgb, $T>, K::Hwb(R::PROPHOTO)),
            ("LinProPhotoRgb", Rgb<Linear<encoding::ProPhotoRgb>, $T>, K::Rgb(R::LIN_PROPHOTO)),
            ("Hsv<LinProPhotoRgb>", Hsv<Linear<encoding::ProPhotoRgb>, $T>, K::Hsv(R::LIN_PROPHOTO)),
            ("Luma<ProPhotoRgb>", Luma<encoding::ProPhotoRgb, $T>, K::Luma(R::PROPHOTO)),
            ("LinLuma<D50>", Luma<Linear<wp::D50>, $T>, K::Luma(R::LIN_PROPHOTO)),
        ]);
    };
}

#[macro_export]
macro_rules! dci_group {
    ($fname:ident, $T:ty) => {
        $crate::graph!($fname, "DCI", $T, [
            ("Xyz", Xyz<encoding::DciP3, $T>, K::Xyz(Wp::Dci)),
            ("Yxy", Yxy<encoding::DciP3, $T>, K::Yxy(Wp::Dci)),
            ("Lab", Lab<encoding::DciP3, $T>, K::Lab(Wp::Dci)),
            ("Lch", Lch<encoding::DciP3, $T>, K::Lch(Wp::Dci)),
            ("Luv", Luv<encoding::DciP3, $T>, K::Luv(Wp::Dci)),
            ("Lchuv", Lchuv<encoding::DciP3, $T>, K::Lchuv(Wp::Dci)),
            ("DciP3", Rgb<encoding::DciP3, $T>, K::Rgb(R::DCI_P3)),
            ("Hsl<DciP3>", Hsl<encoding::DciP3, $T>, K::Hsl(R::DCI_P3)),
            ("Hsv<DciP3>", Hsv<encoding::DciP3, $T>, K::Hsv(R::DCI_P3)),
            ("Hwb<DciP3>", Hwb<encoding::DciP3, $T>, K::Hwb(R::DCI_P3)),
            ("LinDciP3", Rgb<Linear<encoding::DciP3>, $T>, K::Rgb(R::LIN_DCI_P3)),
            ("DciP3Plus", Rgb<encoding::DciP3Plus<encoding::P3Gamma>, $T>, K::Rgb(R::DCI_P3_PLUS)),
            ("Hsv<DciP3Plus>", Hsv<encoding::DciP3Plus<encoding::P3Gamma>, $T>, K::Hsv(R::DCI_P3_PLUS)),
            ("Luma<DciP3>", Luma<encoding::DciP3, $T>, K::Luma(R::DCI_P3)),
            ("LinLuma<DciP3>", Luma<Linear<encoding::DciP3>, $T>, K::Luma(R::LIN_DCI_P3)),
            ("Luma<DciP3Plus>", Luma<encoding::DciP3Plus<encoding::P3Gamma>, $T>, K::Luma(R::DCI_P3_PLUS)),
        ]);
    };
}

#[macro_export]
macro_rules! cie_group {
    ($fname:ident, $gname:literal, $W:ty, $w:expr, $T:ty) => {
        $crate::graph!($fname, $gname, $T, [
            ("Xyz", Xyz<$W, $T>, K::Xyz($w)),
            ("Yxy", Yxy<$W, $T>, K::Yxy($w)),
            ("Lab", Lab<$W, $T>, K::Lab($w)),
            ("Lch", Lch<$W, $T>, K::Lch($w)),
            ("Luv", Luv<$W, $T>, K::Luv($w)),
            ("Lchuv", Lchuv<$W, $T>, K::Lchuv($w)),
            ("LmsVonKries", VonKriesLms<$W, $T>, K::LmsVonKries($w)),
            ("LinLuma", Luma<Linear<$W>, $T>, K::Luma(R::lin_luma($w))),
        ]);
    };
}
