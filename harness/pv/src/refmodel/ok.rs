//! Björn Ottosson's Oklab (2020) and Okhsl / Okhsv / Okhwb (2021, "ok_color.h"), f64.
use super::{invert, mat_vec, M3, V3};

/// XYZ(D65) -> LMS. Two published versions exist: Ottosson's original post and the
/// matrix recalculated for CSS Color 4 (w3c/csswg-drafts#6642), consistent with the sRGB
/// matrices to more digits. `M1_CSS` is what CSS Color 4 and color.js publish.
pub const M1_ORIG: M3 = [
    [0.8189330101, 0.3618667424, -0.1288597137],
    [0.0329845436, 0.9293118715, 0.0361456387],
    [0.0482003018, 0.2643662691, 0.6338517070],
];
pub const M1_CSS: M3 = [
    [0.8190224379967030, 0.3619062600528904, -0.1288737815209879],
    [0.0329836539323885, 0.9292868615863434, 0.0361446663506424],
    [0.0481771893596242, 0.2642395317527308, 0.6335478284694309],
];
pub const M2: M3 = [
    [0.2104542553, 0.7936177850, -0.0040720468],
    [1.9779984951, -2.4285922050, 0.4505937099],
    [0.0259040371, 0.7827717662, -0.8086757660],
];

pub fn xyz_to_oklab_with(m1: &M3, xyz: V3) -> V3 {
    let lms = mat_vec(m1, xyz);
    mat_vec(&M2, [lms[0].cbrt(), lms[1].cbrt(), lms[2].cbrt()])
}
pub fn oklab_to_xyz_with(m1: &M3, lab: V3) -> V3 {
    let l_ = mat_vec(&invert(&M2), lab);
    mat_vec(&invert(m1), [l_[0] * l_[0] * l_[0], l_[1] * l_[1] * l_[1], l_[2] * l_[2] * l_[2]])
}
pub fn xyz_to_oklab(xyz: V3) -> V3 {
    xyz_to_oklab_with(&M1_CSS, xyz)
}
pub fn oklab_to_xyz(lab: V3) -> V3 {
    oklab_to_xyz_with(&M1_CSS, lab)
}

/// Ottosson's direct linear-sRGB <-> Oklab (the form published for sRGB input).
pub fn linear_srgb_to_oklab(c: V3) -> V3 {
    let l = 0.4122214708 * c[0] + 0.5363325363 * c[1] + 0.0514459929 * c[2];
    let m = 0.2119034982 * c[0] + 0.6806995451 * c[1] + 0.1073969566 * c[2];
    let s = 0.0883024619 * c[0] + 0.2817188376 * c[1] + 0.6299787005 * c[2];
    let (l_, m_, s_) = (l.cbrt(), m.cbrt(), s.cbrt());
    [
        0.2104542553 * l_ + 0.7936177850 * m_ - 0.0040720468 * s_,
        1.9779984951 * l_ - 2.4285922050 * m_ + 0.4505937099 * s_,
        0.0259040371 * l_ + 0.7827717662 * m_ - 0.8086757660 * s_,
    ]
}
pub fn oklab_to_linear_srgb(c: V3) -> V3 {
    let l_ = c[0] + 0.3963377774 * c[1] + 0.2158037573 * c[2];
    let m_ = c[0] - 0.1055613458 * c[1] - 0.0638541728 * c[2];
    let s_ = c[0] - 0.0894841775 * c[1] - 1.2914855480 * c[2];
    let (l, m, s) = (l_ * l_ * l_, m_ * m_ * m_, s_ * s_ * s_);
    [
        4.0767416621 * l - 3.3077115913 * m + 0.2309699292 * s,
        -1.2684380046 * l + 2.6097574011 * m - 0.3413193965 * s,
        -0.0041960863 * l - 0.7034186147 * m + 1.7076147010 * s,
    ]
}

const K1: f64 = 0.206;
const K2: f64 = 0.03;
const K3: f64 = (1.0 + K1) / (1.0 + K2);
pub fn toe(x: f64) -> f64 {
    0.5 * (K3 * x - K1 + ((K3 * x - K1) * (K3 * x - K1) + 4.0 * K2 * K3 * x).sqrt())
}
pub fn toe_inv(x: f64) -> f64 {
    (x * x + K1 * x) / (K3 * (x + K2))
}

pub fn compute_max_saturation(a: f64, b: f64) -> f64 {
    let (k0, k1, k2, k3, k4, wl, wm, ws);
    if -1.88170328 * a - 0.80936493 * b > 1.0 {
        (k0, k1, k2, k3, k4) = (1.19086277, 1.76576728, 0.59662641, 0.75515197, 0.56771245);
        (wl, wm, ws) = (4.0767416621, -3.3077115913, 0.2309699292);
    } else if 1.81444104 * a - 1.19445276 * b > 1.0 {
        (k0, k1, k2, k3, k4) = (0.73956515, -0.45954404, 0.08285427, 0.12541070, 0.14503204);
        (wl, wm, ws) = (-1.2684380046, 2.6097574011, -0.3413193965);
    } else {
        (k0, k1, k2, k3, k4) = (1.35733652, -0.00915799, -1.15130210, -0.50559606, 0.00692167);
        (wl, wm, ws) = (-0.0041960863, -0.7034186147, 1.7076147010);
    }
    let mut s = k0 + k1 * a + k2 * b + k3 * a * a + k4 * a * b;
    let k_l = 0.3963377774 * a + 0.2158037573 * b;
    let k_m = -0.1055613458 * a - 0.0638541728 * b;
    let k_s = -0.0894841775 * a - 1.2914855480 * b;
    {
        let (l_, m_, s_) = (1.0 + s * k_l, 1.0 + s * k_m, 1.0 + s * k_s);
        let (l, m, ss) = (l_ * l_ * l_, m_ * m_ * m_, s_ * s_ * s_);
        let (l_ds, m_ds, s_ds) = (3.0 * k_l * l_ * l_, 3.0 * k_m * m_ * m_, 3.0 * k_s * s_ * s_);
        let (l_ds2, m_ds2, s_ds2) = (6.0 * k_l * k_l * l_, 6.0 * k_m * k_m * m_, 6.0 * k_s * k_s * s_);
        let f = wl * l + wm * m + ws * ss;
        let f1 = wl * l_ds + wm * m_ds + ws * s_ds;
        let f2 = wl * l_ds2 + wm * m_ds2 + ws * s_ds2;
        s -= f * f1 / (f1 * f1 - 0.5 * f * f2);
    }
    s
}

/// (L_cusp, C_cusp)
pub fn find_cusp(a: f64, b: f64) -> (f64, f64) {
    let s_cusp = compute_max_saturation(a, b);
    let rgb = oklab_to_linear_srgb([1.0, s_cusp * a, s_cusp * b]);
    let l_cusp = (1.0 / rgb[0].max(rgb[1]).max(rgb[2])).cbrt();
    (l_cusp, l_cusp * s_cusp)
}

pub fn find_gamut_intersection(a: f64, b: f64, l1: f64, c1: f64, l0: f64, cusp: (f64, f64)) -> f64 {
    let (cl, cc) = cusp;
    if ((l1 - l0) * cc - (cl - l0) * c1) <= 0.0 {
        cc * l0 / (c1 * cl + cc * (l0 - l1))
    } else {
        let mut t = cc * (l0 - 1.0) / (c1 * (cl - 1.0) + cc * (l0 - l1));
        let dl = l1 - l0;
        let dc = c1;
        let k_l = 0.3963377774 * a + 0.2158037573 * b;
        let k_m = -0.1055613458 * a - 0.0638541728 * b;
        let k_s = -0.0894841775 * a - 1.2914855480 * b;
        let (l_dt, m_dt, s_dt) = (dl + dc * k_l, dl + dc * k_m, dl + dc * k_s);
        {
            let l = l0 * (1.0 - t) + t * l1;
            let c = t * c1;
            let (l_, m_, s_) = (l + c * k_l, l + c * k_m, l + c * k_s);
            let (ll, mm, ss) = (l_ * l_ * l_, m_ * m_ * m_, s_ * s_ * s_);
            let (ldt, mdt, sdt) = (3.0 * l_dt * l_ * l_, 3.0 * m_dt * m_ * m_, 3.0 * s_dt * s_ * s_);
            let (ldt2, mdt2, sdt2) = (6.0 * l_dt * l_dt * l_, 6.0 * m_dt * m_dt * m_, 6.0 * s_dt * s_dt * s_);
            let halley = |w: [f64; 3]| -> f64 {
                let r = w[0] * ll + w[1] * mm + w[2] * ss - 1.0;
                let r1 = w[0] * ldt + w[1] * mdt + w[2] * sdt;
                let r2 = w[0] * ldt2 + w[1] * mdt2 + w[2] * sdt2;
                let u = r1 / (r1 * r1 - 0.5 * r * r2);
                if u >= 0.0 {
                    -r * u
                } else {
                    f64::MAX
                }
            };
            let t_r = halley([4.0767416621, -3.3077115913, 0.2309699292]);
            let t_g = halley([-1.2684380046, 2.6097574011, -0.3413193965]);
            let t_b = halley([-0.0041960863, -0.7034186147, 1.7076147010]);
            t += t_r.min(t_g.min(t_b));
        }
        t
    }
}

fn get_st_mid(a: f64, b: f64) -> (f64, f64) {
    let s = 0.11516993
        + 1.0
            / (7.44778970
                + 4.15901240 * b
                + a * (-2.19557347 + 1.75198401 * b + a * (-2.13704948 - 10.02301043 * b + a * (-4.24894561 + 5.38770819 * b + 4.69891013 * a))));
    let t = 0.11239642
        + 1.0
            / (1.61320320 - 0.68124379 * b
                + a * (0.40370612 + 0.90148123 * b + a * (-0.27087943 + 0.61223990 * b + a * (0.00299215 - 0.45399568 * b - 0.14661872 * a))));
    (s, t)
}

/// (C_0, C_mid, C_max)
pub fn get_cs(l: f64, a: f64, b: f64) -> (f64, f64, f64) {
    let cusp = find_cusp(a, b);
    let c_max = find_gamut_intersection(a, b, l, 1.0, l, cusp);
    let (s_max, t_max) = (cusp.1 / cusp.0, cusp.1 / (1.0 - cusp.0));
    let k = c_max / (l * s_max).min((1.0 - l) * t_max);
    let c_mid = {
        let (s_mid, t_mid) = get_st_mid(a, b);
        let c_a = l * s_mid;
        let c_b = (1.0 - l) * t_mid;
        0.9 * k * (1.0 / (1.0 / (c_a * c_a * c_a * c_a) + 1.0 / (c_b * c_b * c_b * c_b))).sqrt().sqrt()
    };
    let c_0 = {
        let c_a = l * 0.4;
        let c_b = (1.0 - l) * 0.8;
        (1.0 / (1.0 / (c_a * c_a) + 1.0 / (c_b * c_b))).sqrt()
    };
    (c_0, c_mid, c_max)
}

/// Okhsl [h°, s, l] -> Oklab
pub fn okhsl_to_oklab(hsl: V3) -> V3 {
    let (h, s, l) = (hsl[0].to_radians(), hsl[1], hsl[2]);
    if l == 1.0 {
        return [1.0, 0.0, 0.0];
    } else if l == 0.0 {
        return [0.0, 0.0, 0.0];
    }
    let (a_, b_) = (h.cos(), h.sin());
    let ll = toe_inv(l);
    let (c_0, c_mid, c_max) = get_cs(ll, a_, b_);
    let (mid, mid_inv) = (0.8, 1.25);
    let c = if s < mid {
        let t = mid_inv * s;
        let k_1 = mid * c_0;
        let k_2 = 1.0 - k_1 / c_mid;
        t * k_1 / (1.0 - k_2 * t)
    } else {
        let t = (s - mid) / (1.0 - mid);
        let k_0 = c_mid;
        let k_1 = (1.0 - mid) * c_mid * c_mid * mid_inv * mid_inv / c_0;
        let k_2 = 1.0 - k_1 / (c_max - c_mid);
        k_0 + t * k_1 / (1.0 - k_2 * t)
    };
    [ll, c * a_, c * b_]
}
/// Oklab -> Okhsl [h°, s, l]; grey (C = 0) gives s = 0 and h = 0.
pub fn oklab_to_okhsl(lab: V3) -> V3 {
    let c = (lab[1] * lab[1] + lab[2] * lab[2]).sqrt();
    let l = lab[0];
    if c == 0.0 || l == 0.0 || l == 1.0 {
        return [0.0, 0.0, toe(l)];
    }
    let (a_, b_) = (lab[1] / c, lab[2] / c);
    let h = lab[2].atan2(lab[1]).to_degrees();
    let (c_0, c_mid, c_max) = get_cs(l, a_, b_);
    let (mid, mid_inv) = (0.8, 1.25);
    let s = if c < c_mid {
        let k_1 = mid * c_0;
        let k_2 = 1.0 - k_1 / c_mid;
        let t = c / (k_1 + k_2 * c);
        t * mid
    } else {
        let k_0 = c_mid;
        let k_1 = (1.0 - mid) * c_mid * c_mid * mid_inv * mid_inv / c_0;
        let k_2 = 1.0 - k_1 / (c_max - c_mid);
        let t = (c - k_0) / (k_1 + k_2 * (c - k_0));
        mid + (1.0 - mid) * t
    };
    [h, s, toe(l)]
}

/// Okhsv [h°, s, v] -> Oklab
pub fn okhsv_to_oklab(hsv: V3) -> V3 {
    let (h, s, v) = (hsv[0].to_radians(), hsv[1], hsv[2]);
    if v == 0.0 {
        return [0.0, 0.0, 0.0];
    }
    let (a_, b_) = (h.cos(), h.sin());
    let cusp = find_cusp(a_, b_);
    let (s_max, t_max) = (cusp.1 / cusp.0, cusp.1 / (1.0 - cusp.0));
    let s_0 = 0.5;
    let k = 1.0 - s_0 / s_max;
    let l_v = 1.0 - s * s_0 / (s_0 + t_max - t_max * k * s);
    let c_v = s * t_max * s_0 / (s_0 + t_max - t_max * k * s);
    let mut l = v * l_v;
    let mut c = v * c_v;
    let l_vt = toe_inv(l_v);
    let c_vt = c_v * l_vt / l_v;
    let l_new = toe_inv(l);
    c = c * l_new / l;
    l = l_new;
    let rgb_scale = oklab_to_linear_srgb([l_vt, a_ * c_vt, b_ * c_vt]);
    let scale_l = (1.0 / rgb_scale[0].max(rgb_scale[1]).max(rgb_scale[2].max(0.0))).cbrt();
    l *= scale_l;
    c *= scale_l;
    [l, c * a_, c * b_]
}
/// Oklab -> Okhsv [h°, s, v]
pub fn oklab_to_okhsv(lab: V3) -> V3 {
    let c0 = (lab[1] * lab[1] + lab[2] * lab[2]).sqrt();
    let mut l = lab[0];
    if l == 0.0 {
        return [0.0, 0.0, 0.0];
    }
    if c0 == 0.0 {
        return [0.0, 0.0, toe(l)];
    }
    let mut c = c0;
    let (a_, b_) = (lab[1] / c, lab[2] / c);
    let h = lab[2].atan2(lab[1]).to_degrees();
    let cusp = find_cusp(a_, b_);
    let (s_max, t_max) = (cusp.1 / cusp.0, cusp.1 / (1.0 - cusp.0));
    let s_0 = 0.5;
    let k = 1.0 - s_0 / s_max;
    let t = t_max / (c + l * t_max);
    let l_v = t * l;
    let c_v = t * c;
    let l_vt = toe_inv(l_v);
    let c_vt = c_v * l_vt / l_v;
    let rgb_scale = oklab_to_linear_srgb([l_vt, a_ * c_vt, b_ * c_vt]);
    let scale_l = (1.0 / rgb_scale[0].max(rgb_scale[1]).max(rgb_scale[2].max(0.0))).cbrt();
    l /= scale_l;
    c /= scale_l;
    c = c * toe(l) / l;
    l = toe(l);
    let _ = c;
    let v = l / l_v;
    let s = (s_0 + t_max) * c_v / ((t_max * s_0) + t_max * k * c_v);
    [h, s, v]
}
pub fn okhsv_to_okhwb(hsv: V3) -> V3 {
    [hsv[0], (1.0 - hsv[1]) * hsv[2], 1.0 - hsv[2]]
}
pub fn okhwb_to_okhsv(hwb: V3) -> V3 {
    let v = 1.0 - hwb[2];
    let s = if v == 0.0 { 0.0 } else { 1.0 - hwb[1] / v };
    [hwb[0], s, v]
}

/// Geometric definition, independent of the cusp polynomial: the largest chroma C such
/// that Oklab(L, C·a_, C·b_) is inside the linear-sRGB unit cube, by bisection on the
/// defining map.
pub fn true_max_chroma(l: f64, a_: f64, b_: f64) -> f64 {
    let inside = |c: f64| {
        let rgb = oklab_to_linear_srgb([l, c * a_, c * b_]);
        rgb.iter().all(|&x| (-1e-12..=1.0 + 1e-12).contains(&x))
    };
    let (mut lo, mut hi) = (0.0, 1.0);
    if !inside(0.0) {
        return 0.0;
    }
    for _ in 0..80 {
        let mid = 0.5 * (lo + hi);
        if inside(mid) {
            lo = mid;
        } else {
            hi = mid;
        }
    }
    lo
}
