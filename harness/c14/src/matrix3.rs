//! dynamic (run-time) white points through `adaptation_matrix`, and the Matrix3 algebra
//! (`then`, `invert`, `identity`, `convert`, `matrix_from_rgb`, `matrix_from_xyz`).
use palette::chromatic_adaptation::adaptation_matrix;
use palette::convert::{Convert, FromColorUnclamped, Matrix3};
use palette::encoding::{self, Linear};
use palette::lms::matrix::{Bradford, UnitMatrix, VonKries};
use palette::rgb::Rgb;
use palette::white_point::{self as wp};
use palette::Xyz;
use pv::{json, Collector, Ctx};

/// custom white points: chromaticities of A, D50, D65, E, a warm paper white and a saturated
/// "white", each at luminance 1, 0.8 and 2.5 (a white point is any colour; only its
/// chromaticity may matter)
fn whites() -> Vec<[f64; 3]> {
    let base = [[1.09850, 1.0, 0.35585], [0.96422, 1.0, 0.82521], [0.95047, 1.0, 1.08883], [1.0, 1.0, 1.0], [0.98, 1.0, 0.70], [0.60, 1.0, 1.60]];
    let mut v = vec![];
    for b in base {
        for s in [1.0, 0.8, 2.5] {
            v.push([b[0] * s, b[1] * s, b[2] * s]);
        }
    }
    v
}
fn points() -> Vec<[f64; 3]> {
    vec![[0.0, 0.0, 0.0], [0.18, 0.2, 0.22], [0.5, 0.4, 0.1], [0.95047, 1.0, 1.08883], [1.2, 0.1, 0.9], [1e-9, 1e-9, 1e-9]]
}

macro_rules! dynamic_for {
    ($fname:ident, $T:ty, $I:ty, $O:ty, $M:ty, $mn:literal, $tol:expr) => {
        fn $fname(c: &mut Collector, n: &mut u64) {
            type T = $T;
            let tn = stringify!($T);
            let ws = whites();
            for wi in &ws {
                for wo in &ws {
                    let xi: Xyz<$I, T> = Xyz::new(wi[0] as T, wi[1] as T, wi[2] as T);
                    let xo: Xyz<$O, T> = Xyz::new(wo[0] as T, wo[1] as T, wo[2] as T);
                    let case = |what: &str, obs: Vec<f64>, exp: Vec<f64>| json!({"sub": "dynamic", "what": what, "float": tn, "method": $mn, "tags": [stringify!($I), stringify!($O)], "input": {"white_in": wi, "white_out": wo}, "observed": obs, "expected": exp});
                    let r = pv::catch(|| {
                        let m = adaptation_matrix::<T, $I, $O, $M>(Some(xi), Some(xo));
                        let back = adaptation_matrix::<T, $O, $I, $M>(Some(xo), Some(xi));
                        (m, back)
                    });
                    *n += 1;
                    let Ok((m, back)) = r else {
                        c.violation(&format!("C14/adapt-dynamic/{}/{}/panic", $mn, tn), 1.0, || case("adaptation_matrix", vec![], vec![]));
                        continue;
                    };
                    let tol: f64 = $tol;
                    // (1) the (normalised) source white lands on the (normalised) destination white
                    let win: Xyz<$I, T> = xi / xi.y;
                    let got: Xyz<$O, T> = m.convert(win);
                    let want = [wo[0] / wo[1], 1.0, wo[2] / wo[1]];
                    let d = ((got.x as f64 - want[0]).abs()).max((got.y as f64 - want[1]).abs()).max((got.z as f64 - want[2]).abs());
                    c.ratio("adapt-dynamic", d / (2.0 * tol), || case("white", vec![], vec![]));
                    if !(d <= 2.0 * tol) {
                        c.violation(&format!("C14/adapt-dynamic-white/{}/{}/{}", $mn, tn, if (wo[1] - 1.0).abs() > 1e-9 || (wi[1] - 1.0).abs() > 1e-9 { "Y!=1" } else { "Y=1" }), d, || case("source white -> destination white (both normalised to Y = 1)", vec![got.x as f64, got.y as f64, got.z as f64], want.to_vec()));
                    }
                    // (0) a white point left out (None) means the static one of the type tag: the matrix must be the
                    // very same as with that white point passed explicitly — for either side, also when I == O
                    {
                        let si: Xyz<$I, T> = <$I as palette::white_point::WhitePoint<T>>::get_xyz().with_white_point();
                        let so: Xyz<$O, T> = <$O as palette::white_point::WhitePoint<T>>::get_xyz().with_white_point();
                        let forms = pv::catch(|| [
                            ("(None, Some(out))", adaptation_matrix::<T, $I, $O, $M>(None, Some(xo)), adaptation_matrix::<T, $I, $O, $M>(Some(si), Some(xo))),
                            ("(Some(in), None)", adaptation_matrix::<T, $I, $O, $M>(Some(xi), None), adaptation_matrix::<T, $I, $O, $M>(Some(xi), Some(so))),
                            ("(None, None)", adaptation_matrix::<T, $I, $O, $M>(None, None), adaptation_matrix::<T, $I, $O, $M>(Some(si), Some(so))),
                        ]);
                        if let Ok(forms) = forms {
                            for (what, a, b) in forms {
                                for p in points() {
                                    let x: Xyz<$I, T> = Xyz::new(p[0] as T, p[1] as T, p[2] as T);
                                    let (ya, yb): (Xyz<$O, T>, Xyz<$O, T>) = (a.convert(x), b.convert(x));
                                    *n += 1;
                                    if (ya.x.to_bits(), ya.y.to_bits(), ya.z.to_bits()) != (yb.x.to_bits(), yb.y.to_bits(), yb.z.to_bits()) {
                                        c.violation(&format!("C14/adapt-dynamic-default-white/{}/{}/{}", $mn, tn, what), 1.0, || case(what, vec![ya.x as f64, ya.y as f64, ya.z as f64], vec![yb.x as f64, yb.y as f64, yb.z as f64]));
                                    }
                                }
                            }
                        } else {
                            c.violation(&format!("C14/adapt-dynamic/{}/{}/panic", $mn, tn), 1.0, || case("adaptation_matrix with None", vec![], vec![]));
                        }
                    }
                    for p in points() {
                        let x: Xyz<$I, T> = Xyz::new(p[0] as T, p[1] as T, p[2] as T);
                        let y: Xyz<$O, T> = m.convert(x);
                        // (2) identity between equal white points (any luminance scale of the same chromaticity)
                        let same_chroma = (wi[0] / wi[1] - wo[0] / wo[1]).abs() < 1e-12 && (wi[2] / wi[1] - wo[2] / wo[1]).abs() < 1e-12;
                        if same_chroma {
                            let d = ((y.x - x.x).abs() as f64).max((y.y - x.y).abs() as f64).max((y.z - x.z).abs() as f64);
                            if !(d <= 4.0 * tol) {
                                c.violation(&format!("C14/adapt-dynamic-identity/{}/{}/{}", $mn, tn, if (wo[1] - wi[1]).abs() > 1e-9 || (wi[1] - 1.0).abs() > 1e-9 { "Y!=1" } else { "Y=1" }), d, || case("identity between equal white points", vec![y.x as f64, y.y as f64, y.z as f64], p.to_vec()));
                            }
                        }
                        // (3) there and back, through the reverse matrix and through invert()
                        let z: Xyz<$I, T> = back.convert(y);
                        let zi: Xyz<$I, T> = m.invert().convert(y);
                        let zt: Xyz<$I, T> = m.then(back).convert(x);
                        for (what, q) in [("reverse matrix", z), ("invert()", zi), ("then(reverse)", zt)] {
                            let d = ((q.x - x.x).abs() as f64).max((q.y - x.y).abs() as f64).max((q.z - x.z).abs() as f64);
                            c.ratio("adapt-dynamic", d / (8.0 * tol), || case(what, vec![], vec![]));
                            if !(d <= 8.0 * tol) {
                                c.violation(&format!("C14/adapt-dynamic-roundtrip/{}/{}/{}", $mn, tn, what), d, || case(what, vec![q.x as f64, q.y as f64, q.z as f64], p.to_vec()));
                            }
                        }
                        *n += 1;
                        c.outcome((y.x as f64).to_bits() ^ (y.z as f64).to_bits().rotate_left(31));
                    }
                }
            }
        }
    };
}
dynamic_for!(dyn_bradford_f64, f64, wp::D65, wp::D50, Bradford, "Bradford", 4e-6);
dynamic_for!(dyn_vonkries_f64, f64, wp::D65, wp::D65, VonKries, "VonKries", 4e-6);
dynamic_for!(dyn_unit_f64, f64, wp::A, wp::E, UnitMatrix, "XyzScaling", 1e-12);
dynamic_for!(dyn_bradford_f32, f32, wp::D65, wp::D50, Bradford, "Bradford", 3e-5);
dynamic_for!(dyn_vonkries_f32, f32, wp::D65, wp::D65, VonKries, "VonKries", 3e-5);
dynamic_for!(dyn_unit_f32, f32, wp::A, wp::E, UnitMatrix, "XyzScaling", 4e-6);

macro_rules! rgb_matrix_for {
    ($fname:ident, $T:ty, $S:ty, $W:ty, $name:literal, $tol:expr) => {
        fn $fname(c: &mut Collector, n: &mut u64) {
            type T = $T;
            let tn = stringify!($T);
            let m: Matrix3<Rgb<Linear<$S>, T>, Xyz<$W, T>> = Xyz::matrix_from_rgb();
            let mi: Matrix3<Xyz<$W, T>, Rgb<Linear<$S>, T>> = Rgb::matrix_from_xyz();
            let id: Matrix3<Xyz<$W, T>, Xyz<$W, T>> = Matrix3::identity();
            let case = |what: &str, inp: [f64; 3], obs: Vec<f64>, exp: Vec<f64>| json!({"sub": "matrix3", "what": what, "float": tn, "space": $name, "input": inp, "observed": obs, "expected": exp});
            let tol: f64 = $tol;
            for p in [[1.0, 1.0, 1.0], [1.0, 0.0, 0.0], [0.0, 1.0, 0.0], [0.0, 0.0, 1.0], [0.2, 0.5, 0.7], [0.0, 0.0, 0.0], [1.2, -0.1, 0.4]] {
                *n += 1;
                let rgb: Rgb<Linear<$S>, T> = Rgb::new(p[0] as T, p[1] as T, p[2] as T);
                let x: Xyz<$W, T> = m.convert(rgb);
                let want: Xyz<$W, T> = Xyz::from_color_unclamped(rgb);
                let d = ((x.x - want.x).abs() as f64).max((x.y - want.y).abs() as f64).max((x.z - want.z).abs() as f64);
                if !(d <= tol) {
                    c.violation(&format!("C14/matrix3/matrix_from_rgb-vs-conversion/{}/{}", $name, tn), d, || case("Xyz::matrix_from_rgb().convert(rgb) vs Xyz::from_color_unclamped(rgb)", p, vec![x.x as f64, x.y as f64, x.z as f64], vec![want.x as f64, want.y as f64, want.z as f64]));
                }
                if p == [1.0, 1.0, 1.0] {
                    // white of the space -> its white point, whether the matrix is hard-coded or derived at run time
                    let w: Xyz<palette::white_point::Any, T> = <$W as palette::white_point::WhitePoint<T>>::get_xyz();
                    let d = ((want.x - w.x).abs() as f64).max((want.y - w.y).abs() as f64).max((want.z - w.z).abs() as f64);
                    if !(d <= tol) {
                        c.violation(&format!("C14/matrix3/white-of-space/{}/{}", $name, tn), d, || case("Xyz::from_color_unclamped(white) vs the white point", p, vec![want.x as f64, want.y as f64, want.z as f64], vec![w.x as f64, w.y as f64, w.z as f64]));
                    }
                }
                let back: Rgb<Linear<$S>, T> = mi.convert(x);
                let back2: Rgb<Linear<$S>, T> = m.invert().convert(x);
                let back3: Rgb<Linear<$S>, T> = m.then(mi).convert(rgb);
                let x_id: Xyz<$W, T> = id.convert(x);
                let x_then_id: Xyz<$W, T> = m.then(id).convert(rgb);
                for (what, q) in [("matrix_from_xyz", back), ("matrix_from_rgb().invert()", back2), ("then(matrix_from_xyz)", back3)] {
                    let d = ((q.red - rgb.red).abs() as f64).max((q.green - rgb.green).abs() as f64).max((q.blue - rgb.blue).abs() as f64);
                    c.ratio("matrix3", d / (4.0 * tol), || case(what, p, vec![], vec![]));
                    if !(d <= 4.0 * tol) {
                        c.violation(&format!("C14/matrix3/rgb-xyz-rgb/{}/{}/{}", $name, tn, what), d, || case(what, p, vec![q.red as f64, q.green as f64, q.blue as f64], p.to_vec()));
                    }
                }
                if (x_id.x.to_bits(), x_id.y.to_bits(), x_id.z.to_bits()) != (x.x.to_bits(), x.y.to_bits(), x.z.to_bits()) {
                    c.violation(&format!("C14/matrix3/identity/{}/{}", $name, tn), 1.0, || case("Matrix3::identity().convert(x)", p, vec![x_id.x as f64, x_id.y as f64, x_id.z as f64], vec![x.x as f64, x.y as f64, x.z as f64]));
                }
                let d = ((x_then_id.x - x.x).abs() as f64).max((x_then_id.y - x.y).abs() as f64).max((x_then_id.z - x.z).abs() as f64);
                if !(d <= tol) {
                    c.violation(&format!("C14/matrix3/then-identity/{}/{}", $name, tn), d, || case("m.then(identity)", p, vec![x_then_id.x as f64, x_then_id.y as f64, x_then_id.z as f64], vec![x.x as f64, x.y as f64, x.z as f64]));
                }
            }
        }
    };
}
rgb_matrix_for!(mx_srgb_f64, f64, encoding::Srgb, wp::D65, "Srgb", 2e-6);
rgb_matrix_for!(mx_adobe_f64, f64, encoding::AdobeRgb, wp::D65, "AdobeRgb", 2e-6);
rgb_matrix_for!(mx_2020_f64, f64, encoding::Rec2020, wp::D65, "Rec2020", 2e-6);
rgb_matrix_for!(mx_p3_f64, f64, encoding::DisplayP3, wp::D65, "DisplayP3", 2e-6);
rgb_matrix_for!(mx_dci_f64, f64, encoding::DciP3, encoding::DciP3, "DciP3", 2e-6);
rgb_matrix_for!(mx_pro_f64, f64, encoding::ProPhotoRgb, wp::D50, "ProPhotoRgb", 2e-6);
// tuple spaces: no hard-coded matrix, both directions derived at run time
rgb_matrix_for!(mx_t1_f64, f64, (encoding::Srgb, wp::D50), wp::D50, "(Srgb,D50)", 2e-6);
rgb_matrix_for!(mx_t2_f64, f64, (encoding::Rec2020, wp::D50), wp::D50, "(Rec2020,D50)", 2e-6);
rgb_matrix_for!(mx_t3_f64, f64, (encoding::AdobeRgb, wp::E), wp::E, "(AdobeRgb,E)", 2e-6);
rgb_matrix_for!(mx_t4_f64, f64, (encoding::ProPhotoRgb, wp::D65), wp::D65, "(ProPhotoRgb,D65)", 2e-6);
rgb_matrix_for!(mx_t1_f32, f32, (encoding::Srgb, wp::D50), wp::D50, "(Srgb,D50)", 2e-5);
rgb_matrix_for!(mx_t3_f32, f32, (encoding::AdobeRgb, wp::E), wp::E, "(AdobeRgb,E)", 2e-5);
rgb_matrix_for!(mx_srgb_f32, f32, encoding::Srgb, wp::D65, "Srgb", 2e-5);
rgb_matrix_for!(mx_2020_f32, f32, encoding::Rec2020, wp::D65, "Rec2020", 2e-5);
rgb_matrix_for!(mx_pro_f32, f32, encoding::ProPhotoRgb, wp::D50, "ProPhotoRgb", 2e-5);

/// `a.then(b)` applies a first, then b — checked with two NON-commuting matrices (RGB of one space -> XYZ -> RGB of
/// another space): the combined matrix against the two applied in sequence and against the trait conversion.
macro_rules! then_order {
    ($fname:ident, $T:ty, $S1:ty, $S2:ty, $W:ty, $name:literal, $tol:expr) => {
        fn $fname(c: &mut Collector, n: &mut u64) {
            type T = $T;
            let tn = stringify!($T);
            let m1: Matrix3<Rgb<Linear<$S1>, T>, Xyz<$W, T>> = Xyz::matrix_from_rgb();
            let m2: Matrix3<Xyz<$W, T>, Rgb<Linear<$S2>, T>> = Rgb::matrix_from_xyz();
            let both = m1.then(m2);
            for p in [[1.0, 0.0, 0.0], [0.0, 1.0, 0.0], [0.0, 0.0, 1.0], [0.2, 0.5, 0.7], [1.0, 1.0, 1.0], [0.9, 0.1, 0.3]] {
                *n += 1;
                let rgb: Rgb<Linear<$S1>, T> = Rgb::new(p[0] as T, p[1] as T, p[2] as T);
                let direct: Rgb<Linear<$S2>, T> = both.convert(rgb);
                let step: Rgb<Linear<$S2>, T> = m2.convert(m1.convert(rgb));
                let viatrait: Rgb<Linear<$S2>, T> = Rgb::from_color_unclamped(Xyz::<$W, T>::from_color_unclamped(rgb));
                for (what, q) in [("then vs sequential", step), ("then vs trait conversion", viatrait)] {
                    let d = ((direct.red - q.red).abs() as f64).max((direct.green - q.green).abs() as f64).max((direct.blue - q.blue).abs() as f64);
                    let tol: f64 = $tol;
                    if !(d <= tol) {
                        c.violation(&format!("C14/matrix3/then-order/{}/{}/{}", $name, tn, what), d, || json!({"sub": "matrix3", "what": what, "float": tn, "space": $name, "input": p, "observed": [direct.red as f64, direct.green as f64, direct.blue as f64], "expected": [q.red as f64, q.green as f64, q.blue as f64]}));
                    }
                }
            }
        }
    };
}
then_order!(then_srgb_adobe_f64, f64, encoding::Srgb, encoding::AdobeRgb, wp::D65, "Srgb->AdobeRgb", 4e-6);
then_order!(then_2020_srgb_f64, f64, encoding::Rec2020, encoding::Srgb, wp::D65, "Rec2020->Srgb", 4e-6);
then_order!(then_p3_2020_f32, f32, encoding::DisplayP3, encoding::Rec2020, wp::D65, "DisplayP3->Rec2020", 4e-5);

pub fn run(ctx: &Ctx, total: &mut Collector) {
    let sub = "adaptation-dynamic+matrix3";
    if !ctx.wants(sub) {
        return;
    }
    let mut c = Collector::new();
    let mut n = 0u64;
    for f in [dyn_bradford_f64, dyn_vonkries_f64, dyn_unit_f64, dyn_bradford_f32, dyn_vonkries_f32, dyn_unit_f32, mx_srgb_f64, mx_adobe_f64, mx_2020_f64, mx_p3_f64, mx_dci_f64, mx_pro_f64, mx_srgb_f32, mx_2020_f32, mx_pro_f32, mx_t1_f64, mx_t2_f64, mx_t3_f64, mx_t4_f64, mx_t1_f32, mx_t3_f32, then_srgb_adobe_f64, then_2020_srgb_f64, then_p3_2020_f32] {
        f(&mut c, &mut n);
    }
    c.add(sub, n, 6 * n, 6 * n, n);
    c.exhaustive(sub, true, "all 18 x 18 ordered pairs of run-time white points (6 chromaticities x luminance 1, 0.8, 2.5) x {Bradford, VonKries, XYZ scaling} x 6 XYZ points, f32/f64: white -> white, a white point left out (None) on either or both sides == the static one passed explicitly (I == O and I != O), identity for equal chromaticity, reverse matrix / invert() / then(); Matrix3 from RGB spaces (6 named spaces and 4 tuple spaces (primaries, white point) whose matrices are derived at run time): white -> white point, matrix_from_rgb vs conversion, matrix_from_xyz, invert, then (incl. the order of two non-commuting matrices, RGB -> XYZ -> other RGB, against sequential application and the trait conversion), identity");
    total.merge(c);
}
