//! CIE 15: XYZ <-> xyY, L*a*b*, L*u*v*, and the polar forms. White points: ASTM E308 table.
use super::V3;

pub const EPS: f64 = 216.0 / 24389.0; // (6/29)^3
pub const KAPPA: f64 = 24389.0 / 27.0; // (29/3)^3

#[derive(Clone, Copy, Debug, PartialEq, Eq, Hash, PartialOrd, Ord)]
pub enum Wp {
    A,
    B,
    C,
    D50,
    D55,
    D65,
    D75,
    E,
    F2,
    F7,
    F11,
    Dci,
}
impl Wp {
    pub const ALL: [Wp; 12] = [Wp::A, Wp::B, Wp::C, Wp::D50, Wp::D55, Wp::D65, Wp::D75, Wp::E, Wp::F2, Wp::F7, Wp::F11, Wp::Dci];
    pub fn name(self) -> &'static str {
        match self {
            Wp::A => "A",
            Wp::B => "B",
            Wp::C => "C",
            Wp::D50 => "D50",
            Wp::D55 => "D55",
            Wp::D65 => "D65",
            Wp::D75 => "D75",
            Wp::E => "E",
            Wp::F2 => "F2",
            Wp::F7 => "F7",
            Wp::F11 => "F11",
            Wp::Dci => "DciP3",
        }
    }
    /// Tristimulus values of the illuminant, Y = 1 (2° observer, ASTM E308-01 as tabulated by
    /// Lindbloom; DCI white from its chromaticity x = 0.314, y = 0.351, SMPTE RP 431-2).
    pub fn xyz(self) -> V3 {
        match self {
            Wp::A => [1.09850, 1.0, 0.35585],
            Wp::B => [0.99072, 1.0, 0.85223],
            Wp::C => [0.98074, 1.0, 1.18232],
            Wp::D50 => [0.96422, 1.0, 0.82521],
            Wp::D55 => [0.95682, 1.0, 0.92149],
            Wp::D65 => [0.95047, 1.0, 1.08883],
            Wp::D75 => [0.94972, 1.0, 1.22638],
            Wp::E => [1.0, 1.0, 1.0],
            Wp::F2 => [0.99186, 1.0, 0.67393],
            Wp::F7 => [0.95041, 1.0, 1.08747],
            Wp::F11 => [1.00962, 1.0, 0.64350],
            Wp::Dci => [0.314 / 0.351, 1.0, 0.335 / 0.351],
        }
    }
}

pub fn xyz_to_yxy(xyz: V3, wp: Wp) -> V3 {
    // returns [x, y, Y]; for X+Y+Z = 0 the chromaticity is that of the white point (CIE convention
    // used by Lindbloom) — palette documents the same default.
    let s = xyz[0] + xyz[1] + xyz[2];
    if s == 0.0 {
        let w = wp.xyz();
        let ws = w[0] + w[1] + w[2];
        [w[0] / ws, w[1] / ws, 0.0]
    } else {
        [xyz[0] / s, xyz[1] / s, xyz[1]]
    }
}
pub fn yxy_to_xyz(xyy: V3) -> V3 {
    let (x, y, l) = (xyy[0], xyy[1], xyy[2]);
    if y == 0.0 {
        [0.0, 0.0, 0.0]
    } else {
        [x * l / y, l, (1.0 - x - y) * l / y]
    }
}

fn f(t: f64) -> f64 {
    if t > EPS {
        t.cbrt()
    } else {
        (KAPPA * t + 16.0) / 116.0
    }
}
fn finv(t: f64) -> f64 {
    let t3 = t * t * t;
    if t3 > EPS {
        t3
    } else {
        (116.0 * t - 16.0) / KAPPA
    }
}
pub fn xyz_to_lab(xyz: V3, wp: Wp) -> V3 {
    let w = wp.xyz();
    let (fx, fy, fz) = (f(xyz[0] / w[0]), f(xyz[1] / w[1]), f(xyz[2] / w[2]));
    [116.0 * fy - 16.0, 500.0 * (fx - fy), 200.0 * (fy - fz)]
}
pub fn lab_to_xyz(lab: V3, wp: Wp) -> V3 {
    let w = wp.xyz();
    let fy = (lab[0] + 16.0) / 116.0;
    let fx = fy + lab[1] / 500.0;
    let fz = fy - lab[2] / 200.0;
    // CIE 15:2004: Y from L* with the kappa·eps threshold (equivalent to finv on fy)
    let y = if lab[0] > KAPPA * EPS { fy * fy * fy } else { lab[0] / KAPPA };
    [finv(fx) * w[0], y * w[1], finv(fz) * w[2]]
}
pub fn to_polar(lab: V3) -> V3 {
    // [L, C, h°]
    let c = (lab[1] * lab[1] + lab[2] * lab[2]).sqrt();
    let h = lab[2].atan2(lab[1]).to_degrees();
    [lab[0], c, h]
}
pub fn from_polar(lch: V3) -> V3 {
    let h = lch[2].to_radians();
    [lch[0], lch[1] * h.cos(), lch[1] * h.sin()]
}

fn uv_prime(xyz: V3) -> (f64, f64) {
    let d = xyz[0] + 15.0 * xyz[1] + 3.0 * xyz[2];
    if d == 0.0 {
        (0.0, 0.0)
    } else {
        (4.0 * xyz[0] / d, 9.0 * xyz[1] / d)
    }
}
pub fn xyz_to_luv(xyz: V3, wp: Wp) -> V3 {
    let w = wp.xyz();
    let yr = xyz[1] / w[1];
    let l = if yr > EPS { 116.0 * yr.cbrt() - 16.0 } else { KAPPA * yr };
    let (up, vp) = uv_prime(xyz);
    let (ur, vr) = uv_prime(w);
    if xyz[0] + 15.0 * xyz[1] + 3.0 * xyz[2] == 0.0 {
        return [l, 0.0, 0.0];
    }
    [l, 13.0 * l * (up - ur), 13.0 * l * (vp - vr)]
}
pub fn luv_to_xyz(luv: V3, wp: Wp) -> V3 {
    let w = wp.xyz();
    let l = luv[0];
    if l == 0.0 {
        return [0.0, 0.0, 0.0];
    }
    let y = if l > KAPPA * EPS { ((l + 16.0) / 116.0).powi(3) } else { l / KAPPA };
    let (ur, vr) = uv_prime(w);
    let up = luv[1] / (13.0 * l) + ur;
    let vp = luv[2] / (13.0 * l) + vr;
    let yy = y * w[1];
    let x = yy * 9.0 * up / (4.0 * vp);
    let z = yy * (12.0 - 3.0 * up - 20.0 * vp) / (4.0 * vp);
    [x, yy, z]
}
