//! C10 — colour operators obey their algebra and all their variants agree.
//! Per colour type (explicit operator-trait lists, types.rs) x in-range colour lattice x factor
//! lattice x partner colours x f32/f64: mix / lighten / darken / saturate / desaturate algebra
//! (numeric, a few ulps of the component scale) and, bitwise, the assigning, slice, Alpha and
//! PreAlpha forms of every operator against the by-value form on the bare colour.
#[macro_use]
mod ops;
mod chk;
mod chk2;
mod lat;
mod sat;
mod types;

use chk::*;
use chk2::*;
use ops::*;
use pv::fl::Fl;
use pv::{json, Collector, Ctx, Mode, Tier, Value};

const SUBS: [&str; 7] = ["mix", "lighten", "saturate", "hue", "schemes", "arith", "clamp"];

fn tier_of(s: &str) -> Tier {
    if s == "thorough" {
        Tier::Thorough
    } else {
        Tier::Quick
    }
}

fn run_float<T: Ar>(ctx: &Ctx, specs: &[Spec<T>], total: &mut Collector) {
    let tier = ctx.tier;
    let want: Vec<bool> = SUBS.iter().map(|s| ctx.wants(&format!("{}/{}", s, T::NAME))).collect();
    let want_slices = ctx.wants(&format!("slices/{}", T::NAME));
    let fs = lat::factors::<T>(tier);
    let hs = lat::hue_amounts::<T>(tier);
    let als = lat::alphas::<T>();
    let apairs = lat::alpha_pairs::<T>();
    let cols: Vec<Vec<V<T>>> = specs.iter().map(|s| lat::colours(s, tier)).collect();
    let parts: Vec<Vec<V<T>>> = specs.iter().map(|s| lat::partners(s, tier)).collect();
    // work items: (type, block of colours); one extra item per type for the slice forms
    const BLOCK: usize = 24;
    let mut items: Vec<(usize, usize, usize)> = vec![];
    for (i, c) in cols.iter().enumerate() {
        let mut k = 0;
        while k < c.len() {
            items.push((i, k, (k + BLOCK).min(c.len())));
            k += BLOCK;
        }
        items.push((i, usize::MAX, 0));
    }
    let (items, cols, parts, fs, hs, als, apairs, want) = (&items, &cols, &parts, &fs, &hs, &als, &apairs, &want);
    let cc = pv::par::run_chunks(items.len(), |ci, c| {
        let (ti, lo, hi) = items[ci];
        let sp = &specs[ti];
        if lo == usize::MAX {
            if want_slices {
                let mut cnt = Cnt::default();
                check_slices(sp, &cols[ti], fs, hs, als, tier.name(), None, c, &mut cnt);
                cnt.flush(c, &format!("slices/{}", T::NAME));
            }
            return;
        }
        let mut cn: Vec<Cnt> = (0..SUBS.len()).map(|_| Cnt::default()).collect();
        for a in &cols[ti][lo..hi] {
            if want[0] && sp.mix.is_some() {
                for b in &parts[ti] {
                    check_mix(sp, a, b, fs, apairs, c, &mut cn[0]);
                }
                for b in lat::opposite_partners(sp, a, &parts[ti][parts[ti].len() / 2]) {
                    check_mix(sp, a, &b, fs, apairs, c, &mut cn[0]);
                }
            }
            if want[1] {
                check_inc(sp, "lighten", a, fs, als, c, &mut cn[1]);
            }
            if want[2] {
                check_inc(sp, "saturate", a, fs, als, c, &mut cn[2]);
            }
            if want[3] {
                check_hue(sp, a, hs, als, c, &mut cn[3]);
            }
            if want[4] {
                check_schemes(sp, a, als, c, &mut cn[4]);
            }
            if want[5] {
                for b in &parts[ti] {
                    check_arith_cc(sp, a, b, apairs, c, &mut cn[5]);
                }
                check_arith_cs(sp, a, fs, als, c, &mut cn[5]);
            }
            if want[6] {
                check_clamp(sp, a, c, &mut cn[6]);
                for b in &parts[ti] {
                    for x in clamp_inputs(sp, a, b) {
                        check_clamp(sp, &x, c, &mut cn[6]);
                    }
                }
            }
        }
        // a sample of what was explored
        let a = &cols[ti][lo];
        let b = &parts[ti][ci % parts[ti].len()];
        let f = fs[ci % fs.len()];
        c.sample(pv::splitmix(ci as u64 ^ (T::EPS.to_bits())), || {
            json!({"type": sp.name, "float": T::NAME, "a": fv(a), "b": fv(b), "f": f.to64(),
                "mix(a,b,f)": sp.mix.as_ref().map(|m| fv(&(m.mix)(a, b, f))),
                "lighten(a,f)": sp.lighten.as_ref().map(|m| fv(&(m.plain[0])(a, f))),
                "lighten_fixed(a,f)": sp.lighten.as_ref().map(|m| fv(&(m.plain[1])(a, f))),
                "saturate(a,f)": sp.saturate.as_ref().map(|m| fv(&(m.plain[0])(a, f))),
                "a+b": sp.arith.first().map(|m| fv(&(m.cc)(a, b)))})
        });
        for (k, cnt) in cn.into_iter().enumerate() {
            if cnt.st > 0 {
                cnt.flush(c, &format!("{}/{}", SUBS[k], T::NAME));
            }
        }
    });
    total.merge(cc);
    let ncol: usize = cols.iter().map(|c| c.len()).sum();
    let (cmin, cmax) = (cols.iter().map(|c| c.len()).min().unwrap_or(0), cols.iter().map(|c| c.len()).max().unwrap_or(0));
    let pmax = parts.iter().map(|c| c.len()).max().unwrap_or(0);
    let count = |f: &dyn Fn(&Spec<T>) -> bool| specs.iter().filter(|s| f(s)).count();
    let lattice = format!("in-range colour lattice per type (product of per-component lattices {{min, min+ulp, quartiles, 0, max-ulp, max}}{}, hues at sector edges ±ulp, 0/360/-360/720/±180, HWB filtered by w+b<=1): {}..{} colours per type, {} in total", if tier == Tier::Thorough { " refined to eighths and 1e-9 offsets, hues every 15 degrees and k*30 ± ulp in [-360, 720]" } else { "" }, cmin, cmax, ncol);
    let bounds: [(usize, String); 7] = [
        (count(&|s| s.mix.is_some()), format!("x up to {} partner colours (+4 with the exactly opposite hue ± ulp) x {} factors x 3 alpha pairs; forms: mix, mix_assign, Alpha::mix(_assign), PreAlpha::mix(_assign)", pmax, fs.len())),
        (count(&|s| s.lighten.is_some()), format!("x {} factors x 3 alphas; forms: lighten, lighten_fixed, darken, darken_fixed, their _assign forms, on Alpha", fs.len())),
        (count(&|s| s.saturate.is_some()), format!("x {} factors x 3 alphas; forms: saturate, saturate_fixed, desaturate, desaturate_fixed, their _assign forms, on Alpha", fs.len())),
        (count(&|s| s.hue.is_some()), format!("x {} hue amounts x 3 alphas; forms: shift_hue(_assign), with_hue/set_hue, on Alpha", hs.len())),
        (count(&|s| s.schemes.is_some()), "x 3 alphas; complementary, split_complementary, analogous(_secondary), triadic, tetradic (Lab-like types: complementary, tetradic), bare and Alpha".to_string()),
        (count(&|s| !s.arith.is_empty()), format!("x (up to {} partner colours x 3 alpha pairs + {} scalars x 3 alphas); Add/Sub (all types), Mul/Div (types that implement them), op-assign, Alpha, PreAlpha", pmax, fs.len())),
        (count(&|s| s.clamp.is_some()), "each colour, its sum and difference with every partner colour (out of range), x 3 alphas; clamp, clamp_assign, on Alpha".to_string()),
    ];
    for (k, (nt, b)) in bounds.iter().enumerate() {
        if want[k] {
            total.exhaustive(&format!("{}/{}", SUBS[k], T::NAME), true, &format!("{} colour types; {} {}", nt, lattice, b));
        }
    }
    if want_slices {
        total.exhaustive(&format!("slices/{}", T::NAME), true, &format!("{} colour types; slices of length 0, 1, 2, 3 and the whole colour lattice of the type ({}..{} colours), bare and Alpha elements, x every slice operator ([C]::lighten/darken/saturate/desaturate (_fixed)_assign x {} factors, shift_hue_assign/set_hue x {} amounts, clamp_assign)", specs.len(), cmin, cmax, fs.len(), hs.len()));
    }
}

fn replay(c: &mut Collector, rep: &Value) {
    let case = &rep["case"];
    if case["k"] == "sat" {
        sat::replay_sat(c, case);
        return;
    }
    fn go<T: Ar>(specs: Vec<Spec<T>>, case: &Value, c: &mut Collector) {
        let name = case["type"].as_str().unwrap_or("");
        let sp = specs.iter().find(|s| s.name == name).unwrap_or_else(|| {
            eprintln!("unknown type {name}");
            std::process::exit(3)
        });
        let mut cnt = Cnt::default();
        let a: V<T> = unhex(&case["a"]);
        let b: V<T> = unhex(&case["b"]);
        let f: T = unhex1(&case["f"]);
        // the alpha carried by the recorded input (slot 3) is replayed as the only alpha
        let als = vec![a[3]];
        let apairs = vec![(a[3], b[3])];
        match case["k"].as_str().unwrap_or("") {
            "mix" => check_mix(sp, &a, &b, &[f], &apairs, c, &mut cnt),
            "inc" => {
                let fs: Vec<T> = case["factors"].as_array().map(|v| v.iter().map(|x| unhex1::<T>(x)).collect()).unwrap_or_else(|| vec![f]);
                check_inc(sp, case["which"].as_str().unwrap_or("lighten"), &a, &fs, &als, c, &mut cnt)
            }
            "hue" => check_hue(sp, &a, &[f], &als, c, &mut cnt),
            "schemes" => check_schemes(sp, &a, &als, c, &mut cnt),
            "arith-cc" => check_arith_cc(sp, &a, &b, &apairs, c, &mut cnt),
            "arith-cs" => check_arith_cs(sp, &a, &[f], &als, c, &mut cnt),
            "clamp" => check_clamp(sp, &a, c, &mut cnt),
            "slice" => {
                let tier = tier_of(case["tier"].as_str().unwrap_or("quick"));
                let cols = lat::colours(sp, tier);
                let fam = case["family"].as_str().unwrap_or("").to_string();
                let only = (fam.as_str(), case["form_index"].as_u64().unwrap_or(0) as usize, if case["f"].is_null() { 0 } else { f.bits64() }, case["len"].as_u64().unwrap_or(0) as usize);
                check_slices(sp, &cols, &[f], &[f], &lat::alphas::<T>(), tier.name(), Some(only), c, &mut cnt)
            }
            k => {
                eprintln!("unknown case kind {k}");
                std::process::exit(3)
            }
        }
        println!("replayed {} {} on {}<{}>: {} subject calls, {} relations evaluated", case["k"], case["form"], name, T::NAME, cnt.tr, cnt.tv);
    }
    if case["float"] == "f64" {
        go::<f64>(types::specs_f64(), case, c)
    } else {
        go::<f32>(types::specs_f32(), case, c)
    }
}

fn main() {
    pv::main_guard(real_main)
}

fn real_main() -> i32 {
    let (ctx, mode) = Ctx::from_args("C10");
    if let Mode::Replay(rep) = mode {
        let mut c = Collector::new();
        replay(&mut c, &rep);
        return ctx.finish_replay(c);
    }
    let mut total = Collector::new();
    run_float::<f32>(&ctx, &types::specs_f32(), &mut total);
    run_float::<f64>(&ctx, &types::specs_f64(), &mut total);
    if ctx.wants("saturating/u8") {
        sat::run_sat(&mut total, ctx.tier == Tier::Thorough);
    }
    total.note("tolerances", json!({"KTOL_ulps_of_component_scale": KTOL, "KPOLAR_ulps_polar_route": KPOLAR, "rule": "numeric relations: |error| <= KTOL * epsilon(T) * max(component range, |inputs|); variants: bitwise (NaN == NaN)"}));
    ctx.finish(
        total,
        "model_checking",
        "states = (colour type, operator family, input colour[, partner colour], factor) tuples of the stated lattice products, each visited once; transitions = operator calls on the real palette types (by value, assigning, slice, Alpha, PreAlpha forms); traces = relations evaluated (algebra against the numeric model of the statement, every variant against the by-value form on the bare colour); non-trivial = states whose by-value result differs bitwise from the first input colour",
        &[
            "in-range means within the type's own min_*/max_* accessors (practical envelopes for unbounded components: Oklab a/b in [-0.5, 0.5], Oklch chroma <= 0.5, LMS <= 1, CAM16 J <= 100, Q <= 200, C <= 120, M/s <= 100); HWB additionally whiteness + blackness <= 1",
            "algebra clauses for lighten/darken/saturate/desaturate are evaluated for amounts in [0, 1] only, as stated; for other amounts only the variants and the negated-amount identity are compared",
            "colour-scheme helpers are compared with shift_hue by the angles of their doc comments with the hue taken on the circle (analogous is documented as hue-30 and implemented as hue+330)",
            "the alpha channel of Alpha/PreAlpha::mix is a.alpha + clamp(f)*(b.alpha - a.alpha) (alpha.rs, pre_alpha.rs), of arithmetic the same operator applied to the alphas, of clamp the alpha clamped to [0, 1], unchanged otherwise",
            "SaturatingAdd/SaturatingSub exist for unsigned integer components only (num.rs impl_uint!) and are exercised with u8",
        ],
    )
}
