//! Independent f64 CAM16 / CAM16-UCS reference, written from Li, Li, Wang, Zu, Luo, Cui, Melgosa,
//! Brill, Pointer (2017) "Comprehensive color solutions: CAM16, CAT16, and CAM16-UCS"
//! (Appendix A, forward model, steps 0-9), in the paper's own scale (Y_w = 100) and in the
//! paper's own form (post-adaptation responses carry the +0.1 offset, A carries −0.305).
//! Nothing here is derived from palette's source: palette's inputs (white Y = 1, Y_b relative to
//! white = 1) are scaled ×100 on entry, exactly as the paper's quantities are defined.

pub type V3 = [f64; 3];

/// M16 of the paper (CAT16 matrix).
pub const M16: [[f64; 3]; 3] = [[0.401288, 0.650173, -0.051461], [-0.250268, 1.204414, 0.045854], [-0.002079, 0.048952, 0.953127]];

/// Table of surround parameters (F, c, N_c): average, dim, dark.
pub const AVERAGE: (f64, f64, f64) = (1.0, 0.69, 1.0);
pub const DIM: (f64, f64, f64) = (0.9, 0.59, 0.9);
pub const DARK: (f64, f64, f64) = (0.8, 0.525, 0.8);

#[derive(Clone, Copy, Debug, PartialEq)]
pub enum Sur {
    Dark,
    Dim,
    Average,
    /// palette's scale: 0 % = dark, 10 % = dim, 20 % = average, clamped (documented)
    Percent(f64),
}
#[derive(Clone, Copy, Debug, PartialEq)]
pub enum Disc {
    Auto,
    /// clamped to [0, 1] (documented)
    Custom(f64),
}

/// Viewing conditions in palette's units (white Y = 1, Y_b relative to white = 1).
#[derive(Clone, Copy, Debug)]
pub struct Cond64 {
    pub la: f64,
    pub yb: f64,
    pub sur: Sur,
    pub disc: Disc,
    pub white: V3,
}

#[derive(Clone, Copy, Debug)]
pub struct RefParams {
    pub f: f64,
    pub c: f64,
    pub n_c: f64,
    pub d: f64,
    pub d_rgb: V3,
    pub f_l: f64,
    pub n: f64,
    pub z: f64,
    pub n_bb: f64,
    pub n_cb: f64,
    pub a_w: f64,
    pub y_w: f64,
}

#[derive(Clone, Copy, Debug, Default)]
pub struct RefCam {
    pub j: f64,
    pub c: f64,
    /// degrees in [0, 360)
    pub h: f64,
    pub q: f64,
    pub m: f64,
    pub s: f64,
    /// achromatic response A and the denominator of t: the published equations are real-valued
    /// only for A ≥ 0 and a positive denominator
    pub a_cap: f64,
    pub t_den: f64,
    /// true if any adapted cone response R_c, G_c, B_c is negative (sign branch of the compression)
    pub negative_cone: bool,
    /// cancellation in A and in the denominator of t: Σ|terms| / |Σ terms| (1 when all cone
    /// responses are positive); the conditioning of everything downstream scales with it
    pub kappa: f64,
}

impl RefCam {
    pub fn in_domain(&self) -> bool {
        self.a_cap > 0.0 && self.t_den > 0.0 && self.j.is_finite() && self.c.is_finite()
    }
    pub fn attrs(&self) -> [f64; 6] {
        [self.j, self.c, self.h, self.q, self.m, self.s]
    }
}

fn mat(m: &[[f64; 3]; 3], v: V3) -> V3 {
    [m[0][0] * v[0] + m[0][1] * v[1] + m[0][2] * v[2], m[1][0] * v[0] + m[1][1] * v[1] + m[1][2] * v[2], m[2][0] * v[0] + m[2][1] * v[1] + m[2][2] * v[2]]
}

/// (F, c, N_c) for a surround: the three published rows; intermediate surrounds by linear
/// interpolation between neighbouring rows (CIE 159 / the paper: "intermediate values by
/// linear interpolation"), on palette's documented percent scale.
pub fn surround(s: Sur) -> (f64, f64, f64) {
    let lerp3 = |a: (f64, f64, f64), b: (f64, f64, f64), t: f64| (a.0 + (b.0 - a.0) * t, a.1 + (b.1 - a.1) * t, a.2 + (b.2 - a.2) * t);
    match s {
        Sur::Dark => DARK,
        Sur::Dim => DIM,
        Sur::Average => AVERAGE,
        Sur::Percent(p) => {
            let p = p.clamp(0.0, 20.0);
            if p >= 10.0 {
                lerp3(DIM, AVERAGE, (p - 10.0) / 10.0)
            } else {
                lerp3(DARK, DIM, p / 10.0)
            }
        }
    }
}

/// Post-adaptation cone response compression (step 3), with the +0.1 offset of the paper.
fn compress(f_l: f64, x: f64) -> f64 {
    let p = (f_l * x.abs() / 100.0).powf(0.42);
    x.signum() * 400.0 * p / (p + 27.13) + 0.1
}

/// Step 0: everything that depends on the viewing conditions only.
pub fn params(cond: &Cond64) -> RefParams {
    let w = [cond.white[0] * 100.0, cond.white[1] * 100.0, cond.white[2] * 100.0];
    let y_w = w[1];
    let y_b = cond.yb * 100.0;
    let (f, c, n_c) = surround(cond.sur);
    let rgb_w = mat(&M16, w);
    let d = match cond.disc {
        Disc::Auto => (f * (1.0 - (1.0 / 3.6) * ((-cond.la - 42.0) / 92.0).exp())).clamp(0.0, 1.0),
        Disc::Custom(d) => d.clamp(0.0, 1.0),
    };
    let d_rgb = [d * y_w / rgb_w[0] + 1.0 - d, d * y_w / rgb_w[1] + 1.0 - d, d * y_w / rgb_w[2] + 1.0 - d];
    let k = 1.0 / (5.0 * cond.la + 1.0);
    let k4 = k.powi(4);
    let f_l = 0.2 * k4 * (5.0 * cond.la) + 0.1 * (1.0 - k4).powi(2) * (5.0 * cond.la).cbrt();
    let n = y_b / y_w;
    let z = 1.48 + n.sqrt();
    let n_bb = 0.725 * (1.0 / n).powf(0.2);
    let n_cb = n_bb;
    let aw = [compress(f_l, d_rgb[0] * rgb_w[0]), compress(f_l, d_rgb[1] * rgb_w[1]), compress(f_l, d_rgb[2] * rgb_w[2])];
    let a_w = (2.0 * aw[0] + aw[1] + aw[2] / 20.0 - 0.305) * n_bb;
    RefParams { f, c, n_c, d, d_rgb, f_l, n, z, n_bb, n_cb, a_w, y_w }
}

/// Steps 1-9 for one stimulus (palette scale, white Y = 1).
pub fn forward(p: &RefParams, xyz: V3) -> RefCam {
    if xyz == [0.0, 0.0, 0.0] {
        // the limit of the published equations at the zero stimulus (A = 0 exactly; the offset
        // form would leave a rounding residue of 2·0.1 + 0.1 + 0.005 − 0.305)
        return RefCam { t_den: 0.305, kappa: 1.0, ..RefCam::default() };
    }
    let x = [xyz[0] * 100.0, xyz[1] * 100.0, xyz[2] * 100.0];
    let rgb = mat(&M16, x);
    let rc = [p.d_rgb[0] * rgb[0], p.d_rgb[1] * rgb[1], p.d_rgb[2] * rgb[2]];
    let ra = [compress(p.f_l, rc[0]), compress(p.f_l, rc[1]), compress(p.f_l, rc[2])];
    let a = ra[0] - 12.0 * ra[1] / 11.0 + ra[2] / 11.0;
    let b = (ra[0] + ra[1] - 2.0 * ra[2]) / 9.0;
    let mut h = b.atan2(a).to_degrees();
    if h < 0.0 {
        h += 360.0;
    }
    let e_t = 0.25 * ((h.to_radians() + 2.0).cos() + 3.8);
    let a_cap = (2.0 * ra[0] + ra[1] + ra[2] / 20.0 - 0.305) * p.n_bb;
    let j = 100.0 * (a_cap / p.a_w).powf(p.c * p.z);
    let q = (4.0 / p.c) * (j / 100.0).sqrt() * (p.a_w + 4.0) * p.f_l.powf(0.25);
    let t_den = ra[0] + ra[1] + 21.0 / 20.0 * ra[2];
    let t = (50000.0 / 13.0) * p.n_c * p.n_cb * e_t * (a * a + b * b).sqrt() / t_den;
    let c = t.powf(0.9) * (j / 100.0).sqrt() * (1.64 - 0.29f64.powf(p.n)).powf(0.73);
    let m = c * p.f_l.powf(0.25);
    let s = 100.0 * (m / q).sqrt();
    let o = [ra[0] - 0.1, ra[1] - 0.1, ra[2] - 0.1];
    let kappa_a = (2.0 * o[0].abs() + o[1].abs() + o[2].abs() / 20.0) / (2.0 * o[0] + o[1] + o[2] / 20.0).abs();
    let kappa_t = (o[0].abs() + o[1].abs() + 1.05 * o[2].abs() + 0.305) / t_den.abs();
    RefCam { j, c, h, q, m, s, a_cap, t_den, negative_cone: rc.iter().any(|v| *v < 0.0), kappa: kappa_a.max(kappa_t) }
}

/// CAM16-UCS (Li et al. 2017, eq. for J', M', a', b').
pub fn ucs_j(j: f64) -> f64 {
    1.7 * j / (1.0 + 0.007 * j)
}
pub fn ucs_m(m: f64) -> f64 {
    (1.0 + 0.0228 * m).ln() / 0.0228
}
pub fn ucs_ab(m_prime: f64, h_deg: f64) -> (f64, f64) {
    (m_prime * h_deg.to_radians().cos(), m_prime * h_deg.to_radians().sin())
}

/// The widely published test vector (colour-science `XYZ_to_CAM16` example, 4 decimals).
pub const VECTOR_XYZ: V3 = [0.1901, 0.2000, 0.2178];
pub const VECTOR_WHITE: V3 = [0.9505, 1.0000, 1.0888];
pub const VECTOR_LA: f64 = 318.31;
pub const VECTOR_YB: f64 = 0.20;
/// J, C, h, Q, M, s
pub const VECTOR_EXPECT: [f64; 6] = [41.7312, 0.1034, 217.0680, 195.3717, 0.1074, 2.3450];

/// palette's own unit-test expectations (cam16/full.rs, from https://observablehq.com/@jrus/cam16):
/// sRGB hex, [J, C, h, Q, M, s], epsilon used there. Conditions: D65, L_A = 40, Y_b = 20 %, average, auto.
pub const PALETTE_TESTS: [(u32, [f64; 6], f64); 5] = [
    (0x5588cc, [45.544264720360346, 45.07001048293764, 259.225345298129, 132.96974182692045, 39.4130607870103, 54.4432031413259], 0.01),
    (0xffffff, [99.99955537650459, 2.1815254387079435, 209.49854407518228, 197.03120459014184, 1.9077118865271965, 9.839859256901553], 0.1),
    (0xff0000, [46.23623443823762, 113.27879472174797, 27.412485587695937, 133.9760614641257, 99.06063864657237, 85.98782392745971], 0.01),
    (0x00ff00, [79.23121430933533, 107.77869525794452, 141.93451307926003, 175.38164288466993, 94.25088262080988, 73.30787758114869], 0.01),
    (0x0000ff, [25.22701796474445, 86.59618504567312, 282.81848901862566, 98.96210767195342, 75.72708922311855, 87.47645277637828], 0.01),
];

pub fn hex_to_xyz(hex: u32) -> V3 {
    let rgb = [((hex >> 16) & 255) as f64 / 255.0, ((hex >> 8) & 255) as f64 / 255.0, (hex & 255) as f64 / 255.0];
    pv::refmodel::rgb::SRGB.to_xyz(rgb)
}

/// The reference must reproduce the published vector to its 4 decimals and palette's own
/// expectations to their stated epsilon; otherwise the machinery (not palette) is broken.
pub fn selftest() -> Result<(), String> {
    let p = params(&Cond64 { la: VECTOR_LA, yb: VECTOR_YB, sur: Sur::Average, disc: Disc::Auto, white: VECTOR_WHITE });
    let r = forward(&p, VECTOR_XYZ).attrs();
    for i in 0..6 {
        if !((r[i] - VECTOR_EXPECT[i]).abs() <= 0.5001e-4) {
            return Err(format!("reference disagrees with the published CAM16 test vector: attribute #{i} (J,C,h,Q,M,s) = {:.6}, published {:.4}", r[i], VECTOR_EXPECT[i]));
        }
    }
    let d65 = pv::refmodel::cie::Wp::D65.xyz();
    let p = params(&Cond64 { la: 40.0, yb: 0.2, sur: Sur::Average, disc: Disc::Auto, white: d65 });
    for (hex, want, eps) in PALETTE_TESTS {
        let r = forward(&p, hex_to_xyz(hex)).attrs();
        for i in 0..6 {
            // same criterion as approx::assert_relative_eq!(epsilon = eps) (default max_relative = f64::EPSILON)
            if !((r[i] - want[i]).abs() <= eps) {
                return Err(format!("reference disagrees with palette's unit-test expectation for #{hex:06x}: attribute #{i} = {}, expected {} ± {eps}", r[i], want[i]));
            }
        }
    }
    // zero stimulus: J = Q = C = M = s = 0
    let r = forward(&p, [0.0; 3]);
    if r.j != 0.0 || r.q != 0.0 || r.c != 0.0 {
        return Err("reference: black is not black".into());
    }
    // surround rows and interpolation ends agree
    for (a, b) in [(Sur::Dark, Sur::Percent(0.0)), (Sur::Dim, Sur::Percent(10.0)), (Sur::Average, Sur::Percent(20.0)), (Sur::Average, Sur::Percent(25.0)), (Sur::Dark, Sur::Percent(-5.0))] {
        if surround(a) != surround(b) {
            return Err(format!("reference: surround {a:?} != {b:?}"));
        }
    }
    // UCS hand values: J = 100 -> J' = 100; M = 0 -> M' = 0
    if (ucs_j(100.0) - 100.0).abs() > 1e-12 || ucs_m(0.0) != 0.0 {
        return Err("reference: UCS anchors".into());
    }
    Ok(())
}
