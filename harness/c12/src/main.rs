//! C12 — hex strings, colour names and packed integers round-trip and parse strictly.
//!
//! (a) `hex/*`     format -> parse round trip: all 2^24 Rgb<u8>, lattices for the wider types
//! (b) `packed*`   all 2^32 packed values x 4 RGBA orders, all 2^16 x 2 luma orders, From conventions
//! (c) `named/*`   svg_colors.txt is exactly what from_str/entries/names/colors/constants know
//! (d) `parse/*`   all strings up to N symbols, and all small edits of valid strings, through every
//!                 FromStr impl against a reference parser; never a panic
mod hexref;
mod names;
mod packed;
mod roundtrip;
mod strings;

use palette::luma::channels as lch;
use palette::rgb::channels as rch;
use palette::{Srgb, Srgba};
use pv::{json, Collector, Ctx, Mode, Tier, Value};

include!(concat!(env!("OUT_DIR"), "/named_consts.rs"));
pub const SVG_COLORS: &str = include_str!(env!("C12_SVG_COLORS"));

fn parse_u64(v: &Value) -> u64 {
    match v {
        Value::String(s) => u64::from_str_radix(s.trim_start_matches("0x"), 16).unwrap_or(0),
        Value::Number(n) => n.as_u64().unwrap_or(0),
        _ => 0,
    }
}

fn replay(c: &mut Collector, rep: &Value) {
    let case = &rep["case"];
    let tys = hexref::types();
    let bad = |what: &str| -> ! {
        eprintln!("replay: {what}");
        std::process::exit(3)
    };
    match case["sub"].as_str().unwrap_or("") {
        "parse" => {
            let ty = case["ty"].as_str().unwrap_or("");
            let input = case["input"].as_str().unwrap_or_else(|| bad("no input string"));
            let t = tys.iter().find(|t| t.name == ty).unwrap_or_else(|| bad("unknown type"));
            let (code, _) = (t.check)(c, input);
            println!("{}::from_str({:?}) [bytes {}]: {}", ty, input, hexref::hex_bytes(input), ["rejected, as the reference parser does", "accepted with the reference value", "differs from the reference parser"][code as usize]);
        }
        "hex" => {
            let ty = case["ty"].as_str().unwrap_or("");
            let f = roundtrip::fmt_types().into_iter().find(|f| f.name == ty).unwrap_or_else(|| bad("unknown type"));
            let mut ch = [0u32; 4];
            for (k, v) in case["input"].as_array().unwrap_or_else(|| bad("no channels")).iter().enumerate().take(4) {
                ch[k] = parse_u64(v) as u32;
            }
            let mut st = roundtrip::Stats::default();
            (f.run)(c, &tys, ch, &mut st);
            println!("{} {:x?}: {} operations re-executed", ty, ch, st.ops);
        }
        "packed" => {
            let v = parse_u64(&case["input"]) as u32;
            match case["order"].as_str().unwrap_or("") {
                "Rgba" => packed::check_packed::<rch::Rgba>(c, v),
                "Argb" => packed::check_packed::<rch::Argb>(c, v),
                "Bgra" => packed::check_packed::<rch::Bgra>(c, v),
                "Abgr" => packed::check_packed::<rch::Abgr>(c, v),
                _ => bad("unknown order"),
            }
        }
        "from-u32" => packed::check_from_u32(c, parse_u64(&case["input"]) as u32),
        "packed-array16" => {
            let mut ch = [0u16; 4];
            for (k, v) in case["input"].as_array().unwrap_or_else(|| bad("no channels")).iter().enumerate().take(4) {
                ch[k] = parse_u64(v) as u16;
            }
            match case["order"].as_str().unwrap_or("") {
                "Rgba" => packed::check_array16::<rch::Rgba>(c, ch),
                "Argb" => packed::check_array16::<rch::Argb>(c, ch),
                "Bgra" => packed::check_array16::<rch::Bgra>(c, ch),
                "Abgr" => packed::check_array16::<rch::Abgr>(c, ch),
                _ => bad("unknown order"),
            }
        }
        "packed-aliases" => {
            let ctx = Ctx { only: Some("packed-aliases".into()), ..Ctx::from_args("C12").0 };
            let mut all = Collector::new();
            packed::aliases(&ctx, &mut all);
            let want = rep["signature"].as_str().unwrap_or("").to_string();
            all.viol.retain(|k, _| *k == want);
            c.merge(all);
        }
        "packed-luma" => {
            let v = parse_u64(&case["input"]) as u16;
            match case["order"].as_str().unwrap_or("") {
                "La" => packed::check_luma::<lch::La>(c, v),
                "Al" => packed::check_luma::<lch::Al>(c, v),
                _ => bad("unknown order"),
            }
        }
        "from-u16" => packed::check_from_u16(c, parse_u64(&case["input"]) as u16),
        "name" => {
            let nl = names::parse_svg_list();
            let input = case["input"].as_str().unwrap_or_else(|| bad("no input string"));
            let class = case["class"].as_str().unwrap_or("replay").to_string();
            let found = names::check_name_lookup(c, &nl, input, &class);
            println!("named::from_str({:?}) found = {}, listed = {}", input, found, nl.map.contains_key(input));
        }
        "named-tables" => {
            let nl = names::parse_svg_list();
            names::check_named_tables(c, &nl);
        }
        other => bad(&format!("unknown sub-check {other:?}")),
    }
}

fn main() {
    pv::main_guard(real_main)
}

fn real_main() -> i32 {
    hexref::selftest();
    hexref::install_hook();
    let (ctx, mode) = Ctx::from_args("C12");
    if let Mode::Replay(rep) = mode {
        let mut c = Collector::new();
        replay(&mut c, &rep);
        return ctx.finish_replay(c);
    }
    let tys = hexref::types();
    let mut total = Collector::new();

    // (a)
    roundtrip::hex_roundtrip::<Srgb<u8>>(&ctx, &mut total, &tys, 8, true);
    roundtrip::hex_roundtrip::<Srgba<u8>>(&ctx, &mut total, &tys, 8, false);
    roundtrip::hex_roundtrip::<Srgb<u16>>(&ctx, &mut total, &tys, 16, false);
    roundtrip::hex_roundtrip::<Srgba<u16>>(&ctx, &mut total, &tys, 16, false);
    roundtrip::hex_roundtrip::<Srgb<u32>>(&ctx, &mut total, &tys, 32, false);
    roundtrip::hex_roundtrip::<Srgba<u32>>(&ctx, &mut total, &tys, 32, false);

    // (b)
    packed::packed_order::<rch::Rgba>(&ctx, &mut total);
    packed::packed_order::<rch::Argb>(&ctx, &mut total);
    packed::packed_order::<rch::Bgra>(&ctx, &mut total);
    packed::packed_order::<rch::Abgr>(&ctx, &mut total);
    packed::from_u32(&ctx, &mut total);
    packed::aliases(&ctx, &mut total);
    packed::array16::<rch::Rgba>(&ctx, &mut total);
    packed::array16::<rch::Argb>(&ctx, &mut total);
    packed::array16::<rch::Bgra>(&ctx, &mut total);
    packed::array16::<rch::Abgr>(&ctx, &mut total);
    packed::luma(&ctx, &mut total);

    // (c)
    let nl = names::parse_svg_list();
    if ctx.wants("named/tables") {
        names::check_named_tables(&mut total, &nl);
    }
    names::case_variants(&ctx, &mut total, &nl);
    names::near_misses(&ctx, &mut total, &nl);
    names::short_strings(&ctx, &mut total, &nl);

    // (d)
    let n12 = ctx.tier.pick(6usize, 8usize);
    strings::all_strings(
        &ctx,
        &mut total,
        &tys,
        "parse/sigma12",
        &strings::SIGMA12,
        0,
        n12,
        &format!("all strings of 0..={n12} symbols over {{'0','9','a','F','g','+','-','#',' ',U+00E9 (2 bytes),U+20AC (3 bytes),U+1D7D8 (4 bytes)}}, through all 10 FromStr impls"),
    );
    if ctx.tier == Tier::Thorough {
        strings::all_strings(&ctx, &mut total, &tys, "parse/sigma8-len9", &strings::SIGMA8, 9, 9, "all strings of exactly 9 symbols over {'0','a','F','g','+','#',' ',U+00E9}, through all 10 FromStr impls (shorter ones are covered by parse/sigma12)");
    }
    {
        let mut syms: Vec<String> = (0u8..128).map(|b| (b as char).to_string()).collect();
        for s in ["\u{e9}", "\u{20ac}", "\u{1d7d8}", "\u{ff46}", "\u{663}"] {
            syms.push(s.to_string());
        }
        let alpha: Vec<&str> = syms.iter().map(|s| s.as_str()).collect();
        let n = 3usize;
        strings::all_strings(&ctx, &mut total, &tys, "parse/ascii", &alpha, 0, n, &format!("all strings of 0..={n} symbols over all 128 ASCII characters plus U+00E9, U+20AC, U+1D7D8, U+FF46 (fullwidth f), U+0663 (Arabic-Indic three), through all 10 FromStr impls"));
    }
    strings::edits(&ctx, &mut total, &tys);

    ctx.finish(
        total,
        "model_checking",
        "states = inputs enumerated completely: colours (all 2^24 Rgb<u8>; lattice + single-channel walks for wider types), packed integers (all 2^32 per RGBA order, all 2^16 per luma order), name strings (every listed name, all its capitalisations and edits, all short a-z strings) and hex-candidate strings (all strings up to N symbols over the alphabet, all small edits of valid strings of every documented length); every state goes through the real format/parse/pack/unpack/lookup code and is compared with a reference model (canonical hex writer, reference hex parser, byte-position table, svg_colors.txt). non-trivial = colours whose channels differ or need zero padding; packed values whose bytes are not all equal; name strings other than the listed spelling (for named/short: the listed ones); strings whose length after the optional '#' reaches the digit-parsing code of at least one impl (3,4,6,8,12,16,24,32 bytes)",
        &[
            "the documented digit counts are those written on each FromStr impl in palette/src/rgb/rgb.rs (u8: 3|6 / 4|8; u16 and f32: + 12 / 16; u32 and f64: + 24 / 32)",
            "a shorter form parsed into a wider or float type has the value of the narrow integer colour converted with into_format (C06 checks into_format itself)",
            "byte positions: the order's name read left to right = most significant byte first (docs of cast::Packed: 0xAARRGGBB for Argb), arrays in the same order",
            "the colour standard type parameter is phantom for all operations checked; Srgb is used throughout",
            "svg_colors.txt and the list of pub consts in named/codegen.rs are embedded at build time from the tree the check is built against",
        ],
    )
}
