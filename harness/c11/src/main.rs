//! C11 — hues behave as angles on a circle.
//! Complete walk of every f32 bit pattern with |x| <= 2^20 through the normal forms, equality
//! and the 8-bit mapping of the hue types, with an exact oracle (f64 error-free arithmetic,
//! see oracle.rs); whole-turn equality on integer/dyadic lattices; f64 lattices; all 256 8-bit
//! hues; cartesian round trip; Add/Sub; the five hue types × {f32, f64} through one macro.
mod ops;
mod oracle;
mod point;
mod subs;
mod walk;
mod widec;
mod colfmt;

use ops::HueOps;
use oracle::*;
use point::*;
use pv::fl::Fl;
use pv::{Collector, Ctx, Mode, Tier, Value};

macro_rules! for_all {
    ($m:ident :: $f:ident, $($args:expr),*) => {{
        $m::$f::<ops::RgbF32>($($args),*);
        $m::$f::<ops::LabF32>($($args),*);
        $m::$f::<ops::LuvF32>($($args),*);
        $m::$f::<ops::OklabF32>($($args),*);
        $m::$f::<ops::Cam16F32>($($args),*);
        $m::$f::<ops::RgbF64>($($args),*);
        $m::$f::<ops::LabF64>($($args),*);
        $m::$f::<ops::LuvF64>($($args),*);
        $m::$f::<ops::OklabF64>($($args),*);
        $m::$f::<ops::Cam16F64>($($args),*);
    }};
}

fn replay_typed<H: HueOps>(c: &mut Collector, case: &Value) {
    let bits = |v: &Value| <H::T as Fl>::from_bits64(parse_hex(v));
    let mut l = Loc::default();
    match case["sub"].as_str().unwrap_or("") {
        "point" => {
            let x = bits(&case["input"]);
            let code = check_point::<H>(c, x, ALL, &mut l);
            check_extras::<H>(c, x, &mut l);
            println!("{}: x = {:e} ({})  into_degrees = {:e}  into_positive_degrees = {:e}  into_radians = {:e}  u8 = {}  x==x: {}", H::name(), x.to64(), hx(x), H::deg(x).to64(), H::pos(x).to64(), H::rad(x).to64(), code, H::eq(x, x));
            if case["check"] == "u8-bins" {
                let want = case["expected"].as_u64().unwrap_or(0) as u8;
                if code != want {
                    c.violation(&format!("C11/u8-bins/{}/replay", H::name()), 1.0, || case.clone());
                }
            }
        }
        "pair" => {
            let (x, y) = (bits(&case["input"][0]), bits(&case["input"][1]));
            println!("{}: x = {:e}, y = {:e}: x==y {}  y==x {}  x!=y {}  positive degrees {:e} / {:e}  exact (y−x) mod 360 = {:e}", H::name(), x.to64(), y.to64(), H::eq(x, y), H::eq(y, x), H::ne(x, y), H::pos(x).to64(), H::pos(y).to64(), circ_diff(y.to64(), x.to64()));
            if case["relation"] == "eq" {
                if x.bits64() == y.bits64() {
                    check_point::<H>(c, x, ALL, &mut l);
                } else {
                    check_eq_pair::<H>(c, x, y, &mut l);
                }
            } else {
                check_ne::<H>(c, x, y, &mut l);
            }
        }
        "u8-chain" => {
            let (lo, hi) = (bits(&case["input"][0]), bits(&case["input"][1]));
            let (clo, chi) = (H::to_u8(lo), H::to_u8(hi));
            println!("{}: code({:e}) = {clo}, code({:e}) = {chi}", H::name(), lo.to64(), hi.to64());
            walk::chain_pair::<H>(c, &mut l, lo, hi, clo, chi);
        }
        "u8-code" => {
            let code = case["input"].as_u64().unwrap_or(0) as u8;
            println!("{}: code {code} -> {:e} -> {}", H::name(), H::from_u8(code).to64(), H::to_u8(H::from_u8(code)));
            // the ordering check of u8_codes needs the neighbours: re-run the (256-element) sub-check
            let ctx = Ctx::from_args("C11").0;
            subs::u8_codes::<H>(&ctx, c);
        }
        "cart" => {
            let (a, b) = (bits(&case["input"][0]), bits(&case["input"][1]));
            let h = H::from_cart(a, b);
            println!("{}: from_cartesian({:e}, {:e}) = {:e}°, into_cartesian = {:?}", H::name(), a.to64(), b.to64(), h.to64(), H::into_cart(h));
            subs::check_cart::<H>(c, a, b, &mut l);
        }
        "cart-angle" => {
            let th = bits(&case["input"]);
            println!("{}: into_cartesian({:e}°) = {:?}", H::name(), th.to64(), H::into_cart(th));
            subs::check_cart_angle::<H>(c, th, &mut l);
        }
        "arith" => {
            let (x, y) = (bits(&case["input"][0]), bits(&case["input"][1]));
            println!("{}: arith({:e}, {:e}) = {:?}", H::name(), x.to64(), y.to64(), H::arith(x, y));
            subs::check_arith::<H>(c, x, y, &mut l);
        }
        "walk-block" => {
            let i = &case["input"];
            let (cc, _) = walk::walk_block::<H>(i["block"].as_u64().unwrap() as usize, i["stride"].as_u64().unwrap(), i["phase"].as_u64().unwrap(), ALL, 0, "replay");
            c.merge(cc);
        }
        "walk" => {
            // aggregate findings (onto / wrap count): re-run the walk of that type
            let ctx = Ctx::from_args("C11").0;
            let i = &case["input"];
            walk::walk::<H>(&ctx, c, i["stride"].as_u64().unwrap_or(1), i["phase"].as_u64().unwrap_or(0), ALL);
        }
        "equality-chunk" => {
            let ctx = Ctx::from_args("C11").0;
            subs::equality_turns::<H>(&ctx, c);
        }
        other => {
            eprintln!("unknown replay sub {other}");
            std::process::exit(3)
        }
    }
    l.flush_viol(c);
}

fn replay(c: &mut Collector, rep: &Value) {
    let case = &rep["case"];
    let hue = case["hue"].as_str().unwrap_or("");
    let ty = case["ty"].as_str().unwrap_or("");
    if case["sub"] == "wide-eq" {
        // small space: the sub-check is re-run and only the replayed signature kept
        let ctx = Ctx { only: Some(format!("wide-equality/{ty}")), ..Ctx::from_args("C11").0 };
        let mut all = Collector::new();
        widec::wide_equality(&ctx, &mut all);
        let want = rep["signature"].as_str().unwrap_or("").to_string();
        all.viol.retain(|k, _| *k == want);
        c.merge(all);
        return;
    }
    if case["sub"] == "colour-format" {
        let ctx = Ctx { only: Some(format!("colour-format/{ty}")), ..Ctx::from_args("C11").0 };
        let mut all = Collector::new();
        colfmt::run(&ctx, &mut all);
        let want = rep["signature"].as_str().unwrap_or("").to_string();
        all.viol.retain(|k, _| *k == want);
        c.merge(all);
        return;
    }
    if case["sub"] == "wide" {
        let bits: Vec<u64> = case["input"].as_array().map(|a| a.iter().map(parse_hex).collect()).unwrap_or_default();
        widec::replay_wide(c, hue, ty, &bits);
        return;
    }
    with_hue!(hue, ty, H => replay_typed::<H>(c, case));
}

fn main() {
    pv::main_guard(real_main)
}

fn real_main() -> i32 {
    selftest();
    let (ctx, mode) = Ctx::from_args("C11");
    if let Mode::Replay(rep) = mode {
        let mut c = Collector::new();
        replay(&mut c, &rep);
        return ctx.finish_replay(c);
    }
    let mut total = Collector::new();
    let thorough = ctx.tier == Tier::Thorough;
    // complete f32 space: RgbHue<f32> always (radian accessors there only in thorough); the
    // other four f32 hue types complete in thorough, every 64th pattern (different phases, all
    // checks incl. radians) in quick; the f32 set embedded in f64 every 256th / 8th pattern.
    let hot = if thorough { HOT } else { HOT_QUICK };
    walk::walk::<ops::RgbF32>(&ctx, &mut total, 1, 0, hot);
    let s32 = if thorough { 1 } else { 64 };
    let f32fl = if thorough { HOT } else { ALL };
    walk::walk::<ops::LabF32>(&ctx, &mut total, s32, 1, f32fl);
    walk::walk::<ops::LuvF32>(&ctx, &mut total, s32, 17, f32fl);
    walk::walk::<ops::OklabF32>(&ctx, &mut total, s32, 33, f32fl);
    walk::walk::<ops::Cam16F32>(&ctx, &mut total, s32, 49, f32fl);
    let s64 = if thorough { 8 } else { 256 };
    walk::walk::<ops::RgbF64>(&ctx, &mut total, s64, 0, ALL);
    walk::walk::<ops::LabF64>(&ctx, &mut total, s64, 1, ALL);
    walk::walk::<ops::LuvF64>(&ctx, &mut total, s64, 2, ALL);
    walk::walk::<ops::OklabF64>(&ctx, &mut total, s64, 3, ALL);
    walk::walk::<ops::Cam16F64>(&ctx, &mut total, s64, 4, ALL);
    for_all!(subs::lattice, &ctx, &mut total);
    for_all!(subs::equality_turns, &ctx, &mut total);
    for_all!(subs::u8_codes, &ctx, &mut total);
    for_all!(subs::cartesian, &ctx, &mut total);
    for_all!(subs::arith, &ctx, &mut total);
    widec::wide_lanes(&ctx, &mut total);
    widec::wide_equality(&ctx, &mut total);
    colfmt::run(&ctx, &mut total);
    ctx.finish(
        total,
        "model_checking",
        "states = stored angles (f32 bit patterns with |x| <= 2^20 walked by increasing magnitude, both signs — complete for RgbHue<f32> in quick and for all five f32 hue types in thorough; f64 lattices; integer and dyadic angles × whole-turn shifts; all 256 8-bit hues; direction grid; operand pairs), each pushed through the public hue API of LabHue/LuvHue/RgbHue/OklabHue/Cam16Hue and compared with an exact prediction (error-free f64 arithmetic, cross-checked against i128); non-trivial = inputs whose signed or unsigned normal form differs from the stored angle (normalisation moved the value), resp. pairs to which the equality/inequality clause applies",
        &[
            "rounding error of the stored angle is taken as ulp(x) (spacing above |x|) + ulp(360) in the hue's float type, for range and congruence alike",
            "hues must compare unequal only when the exact distance mod 360 exceeds 4·max(ulp(x), ulp(y), ulp(360)); closer pairs are not judged",
            "8-bit code: nearest integer to (x mod 360)·256/360 mod 256; within (ulp(x)+ulp(360))·256/360 + 8 ulp(256) of a tie either neighbour is accepted",
            "degree/radian consistency: 16 ulp of the result; cartesian: 32 ulp(360) on the angle, 128 eps on the direction of the unit vector (libm atan2/sin_cos accurate to ~1 ulp)",
            "f64 inputs: every f32-representable double on a stride plus special points (multiples of 180 ± 3 ulp, 8-bit ties ± 2 ulp, ±2^k(1±2^-52) for every exponent); other doubles are not enumerated",
            "float→u8→float→u8 is checked on lattices and follows for every float from the all-256 u8→float→u8 identity (the intermediate is one of 256 values)",
        ],
    )
}
