fn main() {
    eprintln!("C10: check not built yet");
    std::process::exit(3);
}
