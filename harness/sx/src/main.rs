use palette::{LinSrgb, Okhsl, Okhsv, Xyz, Hsv, Oklab, convert::FromColorUnclamped, encoding::{Linear, Srgb}, white_point::D65};
use palette::lms::BradfordLms;
fn main() {
    let h: Hsv<Linear<Srgb>, f64> = Hsv::new(45.0, 0.0031308, 0.999999999);
    let x0: Xyz<D65, f64> = Xyz::from_color_unclamped(h);
    let l: BradfordLms<D65, f64> = BradfordLms::from_color_unclamped(h);
    let x1: Xyz<D65, f64> = Xyz::from_color_unclamped(l);
    let k: Okhsl<f64> = Okhsl::from_color_unclamped(l);
    let kx: Okhsl<f64> = Okhsl::from_color_unclamped(x0);
    let kd: Okhsl<f64> = Okhsl::from_color_unclamped(h);
    let x2: Xyz<D65, f64> = Xyz::from_color_unclamped(k);
    let lab: Oklab<f64> = Oklab::from_color_unclamped(x0);
    println!("x0 {:?}\nx1 {:?}\nokhsl via lms {:?}\nokhsl via xyz {:?}\nokhsl direct {:?}\nx2 {:?}\noklab {:?}", x0, x1, k, kx, kd, x2, lab);
    let r = pv::refmodel::ok::oklab_to_okhsl([lab.l, lab.a, lab.b]);
    println!("ref okhsl {:?} -> back {:?}", r, pv::refmodel::ok::okhsl_to_oklab(r));
    let back: Oklab<f64> = Oklab::from_color_unclamped(kx);
    println!("palette okhsl->oklab {:?}", back);
}
