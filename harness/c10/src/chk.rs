//! Check functions of C10. Every function is used both by the enumerator and by replay.
use crate::lat::z;
use crate::ops::*;
use pv::fl::Fl;
use pv::{json, Collector, Value};

/// numeric tolerance: KTOL ulps (of the component type) of the magnitude the error scales with.
/// Calibration on the pinned tree (quick and thorough lattices, f32 and f64): the largest observed
/// error is 1.14 ulp-of-scale (mix hue arc; max_err_over_tol = 0.071 in the evidence), the polar
/// route of the Lab-like colour schemes reaches 4.9 of its 64 ulps (0.077): >= 13x slack over
/// rounding; 16 * 2^-23 = 1.9e-6 (f32) relative to the range, far below any real defect (>= 1e-3).
pub const KTOL: f64 = 16.0;
/// conversions to the polar sibling and back (atan2, hypot, sin, cos in the component type)
pub const KPOLAR: f64 = 64.0;

pub fn tol<T: Fl>(scale: f64) -> f64 {
    KTOL * T::EPS * scale
}

#[derive(Default)]
pub struct Cnt {
    pub st: u64,
    pub tr: u64,
    pub tv: u64,
    pub nt: u64,
    pub maxr: f64,
    pub maxcase: Option<Value>,
}
impl Cnt {
    #[inline]
    pub fn ratio(&mut self, r: f64, case: impl FnOnce() -> Value) {
        if r > self.maxr {
            self.maxr = r;
            self.maxcase = Some(case());
        }
    }
    pub fn flush(self, c: &mut Collector, sub: &str) {
        c.add(sub, self.st, self.tr, self.tv, self.nt);
        if let Some(v) = self.maxcase {
            c.ratio(sub, self.maxr, || v);
        }
    }
}

pub fn same<T: Fl>(a: T, b: T) -> bool {
    a.bits64() == b.bits64() || (a.to64().is_nan() && b.to64().is_nan())
}
pub fn same3<T: Fl>(a: &V<T>, b: &V<T>) -> bool {
    same(a[0], b[0]) && same(a[1], b[1]) && same(a[2], b[2])
}
pub fn same4<T: Fl>(a: &V<T>, b: &V<T>) -> bool {
    same3(a, b) && same(a[3], b[3])
}
pub fn hx<T: Fl>(v: &V<T>) -> Vec<String> {
    v.iter().map(|x| format!("{:#x}", x.bits64())).collect()
}
pub fn h1<T: Fl>(x: T) -> String {
    format!("{:#x}", x.bits64())
}
pub fn fv<T: Fl>(v: &V<T>) -> Vec<f64> {
    v.iter().map(|x| x.to64()).collect()
}
pub fn unhex1<T: Fl>(v: &Value) -> T {
    T::from_bits64(u64::from_str_radix(v.as_str().unwrap_or("0").trim_start_matches("0x"), 16).unwrap_or(0))
}
pub fn unhex<T: Fl>(v: &Value) -> V<T> {
    let mut out = [z::<T>(); 4];
    if let Some(a) = v.as_array() {
        for (i, x) in a.iter().take(4).enumerate() {
            out[i] = unhex1::<T>(x);
        }
    }
    out
}
pub fn with_alpha<T: Fl>(v: &V<T>, a: T) -> V<T> {
    let mut w = *v;
    w[3] = a;
    w
}
pub fn hash_v<T: Fl>(v: &V<T>) -> u64 {
    let mut b = [0u8; 32];
    for i in 0..4 {
        b[i * 8..i * 8 + 8].copy_from_slice(&v[i].bits64().to_le_bytes());
    }
    pv::fnv(&b)
}

pub fn circ(x: f64, y: f64) -> f64 {
    let d = (x - y).rem_euclid(360.0);
    d.min(360.0 - d)
}
pub fn fclass(f: f64) -> &'static str {
    if f < 0.0 {
        "f<0"
    } else if f == 0.0 {
        "f=0"
    } else if f < 1.0 {
        "0<f<1"
    } else if f == 1.0 {
        "f=1"
    } else {
        "f>1"
    }
}
pub fn sig<T: Fl>(sub: &str, sp: &Spec<T>, op: &str, check: &str, class: &str) -> String {
    format!("C10/{}/{}<{}>.{}/{}/{}", sub, sp.name, T::NAME, op, check, class)
}

// ------------------------------------------------------------------------------------------
// mix

pub fn check_mix<T: Ar>(sp: &Spec<T>, a: &V<T>, b: &V<T>, fs: &[T], apairs: &[(T, T)], c: &mut Collector, cnt: &mut Cnt) {
    let Some(mx) = &sp.mix else { return };
    let hue = sp.hue_idx();
    for &f in fs {
        cnt.st += 1;
        let ff = f.to64();
        let fc = T::from64(ff.clamp(0.0, 1.0));
        let fcl = fclass(ff);
        let case = |form: &str, what: &str, obs: Value, exp: Value| json!({"k": "mix", "type": sp.name, "float": T::NAME, "a": hx(a), "b": hx(b), "f": h1(f), "form": form, "what": what, "a_val": fv(a), "b_val": fv(b), "f_val": ff, "observed": obs, "expected": exp});
        let r = pv::catch(|| ((mx.mix)(a, b, f), (mx.mix)(a, b, fc), (mx.mix_as)(a, b, f)));
        cnt.tr += 3;
        let (m, mc, mas) = match r {
            Ok(x) => x,
            Err(msg) => {
                c.violation(&sig("mix", sp, "mix", "panic", fcl), 1.0, || case("mix", "panic", json!(msg), json!("no panic")));
                continue;
            }
        };
        if !same3(&m, a) {
            cnt.nt += 1;
        }
        c.outcome(hash_v(&m));
        // factors outside [0, 1] are the nearest end: bitwise
        cnt.tv += 2;
        if !same3(&m, &mc) {
            c.violation(&sig("mix", sp, "mix", "factor-clamp", fcl), 1.0, || case("mix", "mix(a,b,f) vs mix(a,b,clamp(f,0,1))", json!(fv(&m)), json!(fv(&mc))));
        }
        if !same3(&m, &mas) {
            c.violation(&sig("mix", sp, "mix_assign", "variant", fcl), 1.0, || case("mix_assign", "mix_assign vs mix", json!(fv(&mas)), json!(fv(&m))));
        }
        for i in 0..sp.n {
            let (ai, bi, mi) = (a[i].to64(), b[i].to64(), m[i].to64());
            if Some(i) == hue {
                let t = tol::<T>(360f64.max(ai.abs()).max(bi.abs()).max((ai - bi).abs()));
                if ff <= 0.0 || ff >= 1.0 {
                    let (end, name) = if ff <= 0.0 { (ai, "end-f0") } else { (bi, "end-f1") };
                    let e = circ(mi, end);
                    cnt.tv += 1;
                    cnt.ratio(e / t, || case("mix", "hue at the end", json!(mi), json!(end)));
                    if !(e <= t) {
                        c.violation(&sig("mix", sp, "mix", name, "hue"), e, || case("mix", "hue at factor <= 0 is the first colour's, at factor >= 1 the second's (on the circle)", json!(mi), json!(end)));
                    }
                }
                // shorter arc: the mixed hue lies on the geodesic between the two hues
                let dab = circ(ai, bi);
                let ex = circ(ai, mi) + circ(mi, bi) - dab;
                let class = if (dab - 180.0).abs() < 1e-3 {
                    "arc~180"
                } else if (ai.rem_euclid(360.0) - bi.rem_euclid(360.0)).abs() > 180.0 {
                    "across-0/360"
                } else {
                    "plain"
                };
                cnt.tv += 1;
                cnt.ratio(ex / t, || case("mix", "hue arc", json!(mi), json!({"a": ai, "b": bi})));
                if !(ex <= t) {
                    c.violation(&sig("mix", sp, "mix", "hue-shorter-arc", class), ex, || case("mix", "|a-m|_circ + |m-b|_circ - |a-b|_circ (0 when m is on the shorter arc)", json!({"hue": mi, "excess": ex}), json!({"shorter_arc_between": [ai, bi], "tol": t})));
                }
            } else {
                let t = tol::<T>(sp.scale(i).max(ai.abs()).max(bi.abs()));
                if ff <= 0.0 || ff >= 1.0 {
                    let (end, name) = if ff <= 0.0 { (ai, "end-f0") } else { (bi, "end-f1") };
                    let e = (mi - end).abs();
                    cnt.tv += 1;
                    cnt.ratio(e / t, || case("mix", "component at the end", json!(mi), json!(end)));
                    if !(e <= t) {
                        c.violation(&sig("mix", sp, "mix", name, sp.comps[i].name), e, || case("mix", "component at factor <= 0 / >= 1", json!(mi), json!(end)));
                    }
                }
                let (lo, hi) = (ai.min(bi), ai.max(bi));
                let ex = (lo - mi).max(mi - hi).max(0.0);
                cnt.tv += 1;
                cnt.ratio(ex / t, || case("mix", "betweenness", json!(mi), json!([lo, hi])));
                if !(ex <= t) {
                    c.violation(&sig("mix", sp, "mix", "between", &format!("{}/{}", sp.comps[i].name, fcl)), ex, || case("mix", "component outside the interval spanned by the inputs", json!(mi), json!([lo, hi])));
                }
            }
        }
        // Alpha / PreAlpha forms
        for &(aa, ab) in apairs {
            let (a4, b4) = (with_alpha(a, aa), with_alpha(b, ab));
            let case_a = |form: &str, what: &str, obs: Value, exp: Value| json!({"k": "mix", "type": sp.name, "float": T::NAME, "a": hx(&a4), "b": hx(&b4), "f": h1(f), "form": form, "what": what, "a_val": fv(&a4), "b_val": fv(&b4), "f_val": ff, "observed": obs, "expected": exp});
            let r = pv::catch(|| ((mx.amix)(&a4, &b4, f), (mx.amix_as)(&a4, &b4, f), mx.pmix.map(|p| p(&a4, &b4, f)), mx.pmix_as.map(|p| p(&a4, &b4, f))));
            cnt.tr += 2 + 2 * mx.pmix.is_some() as u64;
            let (am, amas, pm, pmas) = match r {
                Ok(x) => x,
                Err(msg) => {
                    c.violation(&sig("mix", sp, "Alpha::mix", "panic", fcl), 1.0, || case_a("Alpha::mix", "panic", json!(msg), json!("no panic")));
                    continue;
                }
            };
            cnt.tv += 3;
            if !same3(&am, &m) {
                c.violation(&sig("mix", sp, "Alpha::mix", "variant-color", fcl), 1.0, || case_a("Alpha::mix", "colour of Alpha::mix vs mix on the bare colours", json!(fv(&am)), json!(fv(&m))));
            }
            if !same4(&amas, &am) {
                c.violation(&sig("mix", sp, "Alpha::mix_assign", "variant", fcl), 1.0, || case_a("Alpha::mix_assign", "Alpha::mix_assign vs Alpha::mix", json!(fv(&amas)), json!(fv(&am))));
            }
            // alpha channel: linear interpolation with the clamped factor (alpha.rs Mix for Alpha)
            let want = aa.to64() + fc.to64() * (ab.to64() - aa.to64());
            let e = (am[3].to64() - want).abs();
            let t = tol::<T>(1.0);
            cnt.ratio(e / t, || case_a("Alpha::mix", "alpha", json!(am[3].to64()), json!(want)));
            if !(e <= t) {
                c.violation(&sig("mix", sp, "Alpha::mix", "alpha-channel", fcl), e, || case_a("Alpha::mix", "alpha = a.alpha + clamp(f)*(b.alpha - a.alpha)", json!(am[3].to64()), json!(want)));
            }
            if let (Some(pm), Some(pmas)) = (pm, pmas) {
                cnt.tv += 3;
                if !same3(&pm, &m) {
                    c.violation(&sig("mix", sp, "PreAlpha::mix", "variant-color", fcl), 1.0, || case_a("PreAlpha::mix", "colour of PreAlpha::mix vs mix on the bare colours", json!(fv(&pm)), json!(fv(&m))));
                }
                if !same4(&pmas, &pm) {
                    c.violation(&sig("mix", sp, "PreAlpha::mix_assign", "variant", fcl), 1.0, || case_a("PreAlpha::mix_assign", "PreAlpha::mix_assign vs PreAlpha::mix", json!(fv(&pmas)), json!(fv(&pm))));
                }
                let e = (pm[3].to64() - want).abs();
                if !(e <= t) {
                    c.violation(&sig("mix", sp, "PreAlpha::mix", "alpha-channel", fcl), e, || case_a("PreAlpha::mix", "alpha = a.alpha + clamp(f)*(b.alpha - a.alpha)", json!(pm[3].to64()), json!(want)));
                }
            }
        }
    }
}

// ------------------------------------------------------------------------------------------
// lighten / darken, saturate / desaturate

/// `which`: "lighten" or "saturate". All factors of `fs` (ascending) for one colour.
pub fn check_inc<T: Ar>(sp: &Spec<T>, which: &str, a: &V<T>, fs: &[T], als: &[T], c: &mut Collector, cnt: &mut Cnt) {
    let Some(ops) = (if which == "lighten" { &sp.lighten } else { &sp.saturate }) else { return };
    let fhex: Vec<String> = fs.iter().map(|f| h1(*f)).collect();
    let case = |form: &str, f: T, what: &str, obs: Value, exp: Value| json!({"k": "inc", "which": which, "type": sp.name, "float": T::NAME, "a": hx(a), "f": h1(f), "factors": fhex, "form": form, "what": what, "a_val": fv(a), "f_val": f.to64(), "observed": obs, "expected": exp});
    // results of the four by-value forms along the factor chain, for monotonicity
    let mut chain: Vec<(T, [V<T>; 4])> = vec![];
    for &f in fs {
        cnt.st += 1;
        let ff = f.to64();
        let fcl = fclass(ff);
        let nf = T::from64(-ff);
        let r = pv::catch(|| {
            let mut out = [[z::<T>(); 4]; 8];
            for k in 0..8 {
                out[k] = (ops.plain[k])(a, f);
            }
            (out, (ops.plain[0])(a, nf), (ops.plain[1])(a, nf))
        });
        cnt.tr += 10;
        let (rs, rel_neg, fixed_neg) = match r {
            Ok(x) => x,
            Err(msg) => {
                c.violation(&sig(which, sp, ops.names[0], "panic", fcl), 1.0, || case(ops.names[0], f, "panic", json!(msg), json!("no panic")));
                continue;
            }
        };
        if !same3(&rs[0], a) {
            cnt.nt += 1;
        }
        c.outcome(hash_v(&rs[0]) ^ hash_v(&rs[1]).rotate_left(1));
        // variants: assigning forms, negated forms
        let pairs: [(usize, &V<T>, &str); 6] = [(2, &rs[0], "assign-vs-by-value"), (3, &rs[1], "assign-vs-by-value"), (4, &rel_neg, "neg-vs-negated-amount"), (5, &fixed_neg, "neg-vs-negated-amount"), (6, &rs[4], "assign-vs-by-value"), (7, &rs[5], "assign-vs-by-value")];
        for (k, want, what) in pairs {
            cnt.tv += 1;
            if !same3(&rs[k], want) {
                c.violation(&sig(which, sp, ops.names[k], "variant", fcl), 1.0, || case(ops.names[k], f, what, json!(fv(&rs[k])), json!(fv(want))));
            }
        }
        // Alpha forms: colour identical, alpha unchanged
        for &al in als {
            let a4 = with_alpha(a, al);
            let r = pv::catch(|| {
                let mut out = [[z::<T>(); 4]; 8];
                for k in 0..8 {
                    out[k] = (ops.alpha[k])(&a4, f);
                }
                out
            });
            cnt.tr += 8;
            match r {
                Err(msg) => c.violation(&sig(which, sp, &format!("Alpha::{}", ops.names[0]), "panic", fcl), 1.0, || case("Alpha", f, "panic", json!(msg), json!("no panic"))),
                Ok(ar) => {
                    for k in 0..8 {
                        cnt.tv += 1;
                        let want = with_alpha(&rs[k], al);
                        if !same4(&ar[k], &want) {
                            c.violation(&sig(which, sp, &format!("Alpha::{}", ops.names[k]), "variant", fcl), 1.0, || json!({"k": "inc", "which": which, "type": sp.name, "float": T::NAME, "a": hx(&a4), "f": h1(f), "factors": fhex, "form": format!("Alpha::{}", ops.names[k]), "what": "Alpha form vs (by-value form on the bare colour, alpha unchanged)", "observed": fv(&ar[k]), "expected": fv(&want)}));
                        }
                    }
                }
            }
        }
        // algebra for amounts in [0, 1] — for colours whose affected component lies inside its documented
        // [min, max]; colours above a soft limit (Lch chroma > max_chroma(), see lat.rs) only take part in
        // the exact comparisons between the forms
        let nominal = ops.affected.iter().all(|af| a[af.idx].to64() >= af.min.to64() && a[af.idx].to64() <= af.max.to64());
        if ff >= 0.0 && ff <= 1.0 && nominal {
            for (slot, k, dir) in [(0usize, 0usize, 1i32), (1, 1, 1), (2, 4, -1), (3, 5, -1)] {
                let _ = slot;
                let res = &rs[k];
                let name = ops.names[k];
                for j in 0..sp.n {
                    if let Some(af) = ops.affected.iter().find(|x| x.idx == j) {
                        let eff = af.dir * dir;
                        let (mn, mx) = (af.min.to64(), af.max.to64());
                        let (aj, rj) = (a[j].to64(), res[j].to64());
                        let t = tol::<T>(sp.scale(j).max(aj.abs()));
                        let cname = sp.comps[j].name;
                        // never leaves its range
                        let over = (rj - mx).max(mn - rj).max(0.0);
                        cnt.tv += 1;
                        let out_of_range = !(over <= t);
                        if out_of_range {
                            let class = if rj > mx { format!("{cname}>max") } else if rj < mn { format!("{cname}<min") } else { format!("{cname}=NaN") };
                            let detail = if k == 1 || k == 5 { "(component ± amount*max passes the limit)" } else { "" };
                            c.violation(&sig(which, sp, name, "range", &format!("{class}{detail}")), over, || case(name, f, "affected component left [min, max]", json!({"component": cname, "value": rj, "result": fv(res)}), json!({"min": mn, "max": mx})));
                        } else {
                            cnt.ratio(over / t, || case(name, f, "range", json!(rj), json!([mn, mx])));
                        }
                        // moves towards its limit, never away
                        let moved = (rj - aj) * eff as f64;
                        cnt.tv += 1;
                        if !(moved >= -t) {
                            c.violation(&sig(which, sp, name, "direction", cname), -moved, || case(name, f, "affected component moved away from its limit", json!({"component": cname, "before": aj, "after": rj}), json!(if eff > 0 { "not smaller" } else { "not larger" })));
                        }
                        // amount 1 reaches the limit
                        if ff == 1.0 && !out_of_range {
                            let limit = if eff > 0 { mx } else { mn };
                            let e = (rj - limit).abs();
                            cnt.tv += 1;
                            cnt.ratio(e / t, || case(name, f, "limit at amount 1", json!(rj), json!(limit)));
                            if !(e <= t) {
                                c.violation(&sig(which, sp, name, "reach-limit", cname), e, || case(name, f, "amount 1 must reach the limit", json!({"component": cname, "value": rj}), json!(limit)));
                            }
                        }
                    } else {
                        cnt.tv += 1;
                        if res[j].bits64() != a[j].bits64() {
                            c.violation(&sig(which, sp, name, "other-untouched", sp.comps[j].name), 1.0, || case(name, f, "component that the operator does not own changed", json!(fv(res)), json!(fv(a))));
                        }
                    }
                }
            }
            chain.push((f, [rs[0], rs[1], rs[4], rs[5]]));
        }
    }
    // monotone in the amount along the lattice within [0, 1]
    for w in chain.windows(2) {
        let ((f1, r1), (f2, r2)) = (&w[0], &w[1]);
        for (slot, k, dir) in [(0usize, 0usize, 1i32), (1, 1, 1), (2, 4, -1), (3, 5, -1)] {
            for af in &ops.affected {
                let j = af.idx;
                let eff = (af.dir * dir) as f64;
                let d = (r2[slot][j].to64() - r1[slot][j].to64()) * eff;
                let t = tol::<T>(sp.scale(j).max(a[j].to64().abs()));
                cnt.tv += 1;
                cnt.ratio((-d).max(0.0) / t, || case(ops.names[k], *f2, "monotone", json!(d), json!(0)));
                if !(d >= -t) {
                    c.violation(&sig(which, sp, ops.names[k], "monotone", sp.comps[j].name), -d, || case(ops.names[k], *f2, "a larger amount moved the component less far", json!({"component": sp.comps[j].name, "amounts": [f1.to64(), f2.to64()], "values": [r1[slot][j].to64(), r2[slot][j].to64()]}), json!("monotone towards the limit")));
                }
            }
        }
    }
}
