fn main() {
    eprintln!("C13: check not built yet");
    std::process::exit(3);
}
