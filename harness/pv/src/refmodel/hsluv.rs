//! HSLuv (rev 4 reference implementation, hsluv.org), f64. Hue in degrees, S and L in 0..100.
use super::V3;

pub const M: [[f64; 3]; 3] = [
    [3.240969941904521, -1.537383177570093, -0.498610760293],
    [-0.96924363628087, 1.87596750150772, 0.041555057407175],
    [0.055630079696993, -0.20397695888897, 1.056971514242878],
];
pub const KAPPA: f64 = 903.2962962;
pub const EPSILON: f64 = 0.0088564516;

/// six (slope, intercept) lines bounding the sRGB gamut in the (u, v) chroma plane at lightness l
pub fn get_bounds(l: f64) -> [(f64, f64); 6] {
    let sub1 = (l + 16.0).powi(3) / 1560896.0;
    let sub2 = if sub1 > EPSILON { sub1 } else { l / KAPPA };
    let mut out = [(0.0, 0.0); 6];
    for c in 0..3 {
        let (m1, m2, m3) = (M[c][0], M[c][1], M[c][2]);
        for t in 0..2 {
            let tf = t as f64;
            let top1 = (284517.0 * m1 - 94839.0 * m3) * sub2;
            let top2 = (838422.0 * m3 + 769860.0 * m2 + 731718.0 * m1) * l * sub2 - 769860.0 * tf * l;
            let bottom = (632260.0 * m3 - 126452.0 * m2) * sub2 + 126452.0 * tf;
            out[c * 2 + t] = (top1 / bottom, top2 / bottom);
        }
    }
    out
}
pub fn max_chroma_for_lh(l: f64, h_deg: f64) -> f64 {
    let hrad = h_deg.to_radians();
    let mut min = f64::MAX;
    for (slope, intercept) in get_bounds(l) {
        let len = intercept / (hrad.sin() - slope * hrad.cos());
        if len >= 0.0 {
            min = min.min(len);
        }
    }
    min
}
/// [H, S, L] -> LCh(uv) [L, C, H]
pub fn hsluv_to_lch(hsl: V3) -> V3 {
    let (h, s, l) = (hsl[0], hsl[1], hsl[2]);
    if l > 99.9999999 {
        return [100.0, 0.0, h];
    }
    if l < 0.00000001 {
        return [0.0, 0.0, h];
    }
    let max = max_chroma_for_lh(l, h);
    [l, max / 100.0 * s, h]
}
/// LCh(uv) [L, C, H] -> [H, S, L]
pub fn lch_to_hsluv(lch: V3) -> V3 {
    let (l, c, h) = (lch[0], lch[1], lch[2]);
    if l > 99.9999999 {
        return [h, 0.0, 100.0];
    }
    if l < 0.00000001 {
        return [h, 0.0, 0.0];
    }
    let max = max_chroma_for_lh(l, h);
    [h, c / max * 100.0, l]
}
