fn main() {
    eprintln!("C17: check not built yet");
    std::process::exit(3);
}
