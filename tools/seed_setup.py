#!/usr/bin/env python3
"""tools/seed_setup.py <Cxx> <name>  — scratch worktree /tmp/wt-<name> of /repo HEAD with PROPERTY.json
(the property text only) and TASK.md for an independent change-seeding sub-agent.  Prints the prompt."""
import json, os, subprocess, sys, glob
pid, name = sys.argv[1], sys.argv[2]
wt = f"/tmp/wt-{name}"
subprocess.run(f"git -C /repo worktree add --detach {wt} HEAD -f >/dev/null 2>&1", shell=True, check=True)
prop = [json.loads(l) for l in open("/verif/properties.jsonl") if json.loads(l)["id"] == pid][0]
json.dump(prop, open(f"{wt}/PROPERTY.json", "w"), indent=1)
prev = []
for m in sorted(glob.glob(f"/verif/seeded/{pid}*/meta.json")):
    j = json.load(open(m))
    prev.append("- " + (j.get("summary") or "")[:300] + "  [files: " + ", ".join(j.get("files") or []) + "]")
tmpl = open("/verif/tools/seed_task.tmpl").read()
extra = ""
if prev:
    extra = ("\nEarlier testers already tried the following changes for this property; choose a DIFFERENT mechanism — another clause of the statement, another anchor/file, another type family, or a subtler input region — not a variation of these:\n" + "\n".join(prev) + "\n")
if len(sys.argv) > 3 and sys.argv[3] == "--wide":
    extra += ("\nThis time prefer one of these kinds of change (they have been tried least so far): a change in the `palette_derive` proc-macro crate that alters the generated code for some types or some derive options; a change spanning two sites that each look fine alone; a change that is only visible for a non-default type parameter (white point, RGB standard, component type incl. integer types, alpha type, SIMD width) ; or one only reachable through a less common API form (by-reference or assigning variants, slice / Vec / Box / array impls, Alpha- or PreAlpha-wrapped forms, iterator adaptors, Default / From / Into / AsRef impls, PartialEq / approx comparison impls, deprecated aliases that delegate).\n")
if len(sys.argv) > 3 and sys.argv[3] == "--cross":
    extra += ("\nThis time prefer a change that sits at the CROSSING of two features and is invisible when either is used alone, for example: Alpha- or PreAlpha-wrapped colours with a SIMD or integer component type; slices / Vec / arrays of colours with a non-default white point or RGB standard; an operator or conversion reached through a reference (&C, &mut C) or through a generic helper trait (IntoColor, IntoColorUnclamped, TryIntoColor, Into/From between related types, `*_mut` guards) rather than the direct trait; one arm of a macro in palette/src/macros/*.rs or one numeric type's impl in palette/src/num.rs, num/*.rs, bool_mask*.rs, angle*.rs that only some colour types instantiate; a `where` clause / blanket impl that silently selects another implementation for one type family. The violation must still be a violation of THIS property's statement.\n")
if len(sys.argv) > 3 and sys.argv[3] == "--subtle":
    extra += ("\nThis time prefer a change whose effect is NUMERICALLY SMALL or confined to a NARROW BAND of inputs, so that only a tight and well-placed check can see it: a constant off in its 5th-8th significant digit; a result that is off by one unit in the last place, by one integer code, or by a relative 1e-7 .. 1e-3; a threshold / knee / sector edge moved by a few ulps or compared with < instead of <= (so that only the exact boundary value, or the few floats next to it, change); a loss of precision (an f64 path computed through f32, a fused or re-associated expression, an approximation with one term dropped) ; a rounding mode changed (round-half-even vs half-away, truncation vs floor for negatives); an off-by-one at the extreme ends of a range (0, MAX, the last table entry, the first/last element of a buffer). The violation must still be a genuine violation of THIS property's statement (state the magnitude and where it appears), and the demo must show it with a justified tolerance.\n")
open(f"{wt}/TASK.md", "w").write(tmpl.replace("@WT@", wt).replace("@PID@", pid).replace("@EXTRA@", extra))
os.makedirs(f"{wt}/SEEDED", exist_ok=True)
print(f"Read {wt}/TASK.md and carry out the task described there exactly. Work only inside {wt}.")
