//! pv — common machinery for the bounded exhaustive checks of /verif (see DESIGN.md §3).
pub mod colorkind;
pub mod fl;
pub mod lattice;
pub mod par;
pub mod report;
pub mod refmodel;

pub use report::{Collector, Ctx, Mode, Tier};
pub use serde_json::{json, Value};

/// parse JSON text (so that check crates need no direct serde_json dependency)
pub fn serde_json_from_str(s: &str) -> Result<Value, String> {
    serde_json::from_str(s).map_err(|e| e.to_string())
}

use std::panic::{catch_unwind, AssertUnwindSafe};

/// Install a panic hook that prints nothing: panics of the subject are observations.
pub fn quiet_panics() {
    std::panic::set_hook(Box::new(|info| {
        if let Ok(mut g) = LAST_PANIC.lock() {
            *g = format!("{info}");
        }
    }));
}

static LAST_PANIC: std::sync::Mutex<String> = std::sync::Mutex::new(String::new());

/// Message and location of the most recent panic (any thread).
pub fn last_panic() -> String {
    LAST_PANIC.lock().map(|g| g.clone()).unwrap_or_default()
}

/// Run the body of `main`; a panic that escapes every `pv::catch` is a machinery failure
/// (exit 3), reported with its message and location instead of a silent abort.
pub fn main_guard(f: impl FnOnce() -> i32) -> ! {
    quiet_panics();
    match catch_unwind(AssertUnwindSafe(f)) {
        Ok(code) => std::process::exit(code),
        Err(_) => {
            eprintln!("MACHINERY-FAILURE: uncaught panic in the checker: {}", last_panic());
            std::process::exit(3)
        }
    }
}

/// Run `f`, turning a panic into `Err(message)`.
pub fn catch<T>(f: impl FnOnce() -> T) -> Result<T, String> {
    match catch_unwind(AssertUnwindSafe(f)) {
        Ok(v) => Ok(v),
        Err(e) => {
            let msg = if let Some(s) = e.downcast_ref::<&str>() {
                (*s).to_string()
            } else if let Some(s) = e.downcast_ref::<String>() {
                s.clone()
            } else {
                "<non-string panic>".to_string()
            };
            Err(msg)
        }
    }
}

/// FNV-1a, used for stable (run-independent) hashing of signatures and outcomes.
pub fn fnv(bytes: &[u8]) -> u64 {
    let mut h: u64 = 0xcbf29ce484222325;
    for b in bytes {
        h ^= *b as u64;
        h = h.wrapping_mul(0x100000001b3);
    }
    h
}

/// splitmix64 — only ever used to choose which explored cases are printed as samples.
pub fn splitmix(x: u64) -> u64 {
    let mut z = x.wrapping_add(0x9e3779b97f4a7c15);
    z = (z ^ (z >> 30)).wrapping_mul(0xbf58476d1ce4e5b9);
    z = (z ^ (z >> 27)).wrapping_mul(0x94d049bb133111eb);
    z ^ (z >> 31)
}
