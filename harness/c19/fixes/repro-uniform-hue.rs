use palette::RgbHue;
use rand::{distributions::{Distribution, Uniform}, RngCore};
struct Fixed(u32); // an RNG that always answers the same word
impl RngCore for Fixed {
    fn next_u32(&mut self) -> u32 { self.0 }
    fn next_u64(&mut self) -> u64 { self.0 as u64 }
    fn fill_bytes(&mut self, d: &mut [u8]) { d.fill(0) }
    fn try_fill_bytes(&mut self, d: &mut [u8]) -> Result<(), rand::Error> { d.fill(0); Ok(()) }
}
fn main() {
    let u = Uniform::new(RgbHue::from_degrees(10.0f32), RgbHue::from_degrees(20.0f32));
    for w in [0u32, 0x4000_0000, 0x8000_0000, 0xFFFF_FFFF] {
        let h = u.sample(&mut Fixed(w));
        println!("word {w:#010x}: raw {:>8} = {:>7.3} deg  (expected within [10, 20))", h.into_raw_degrees(), h.into_positive_degrees());
    }
}
