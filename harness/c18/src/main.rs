//! C18 — struct-of-arrays colour collections behave like a vector of colours.
//!
//! E2 operation-sequence search (DESIGN.md §3.1, §4 C18): for every colour type that has the
//! struct-of-arrays impls, plain and wrapped in `Alpha`, the real container `Color<Vec<f32>>`
//! is driven through every operation of the alphabet from every reachable state and compared
//! step by step with a plain `Vec<Color<f32>>` subjected to the same operation.
mod engine;
mod fam;
mod hetero;
mod ops;

use engine::*;
use fam::*;
use ops::*;
use pv::{json, Collector, Ctx, Mode as RunMode, Tier, Value};

trait Visit {
    type Out;
    fn go<G: Cfg>(self) -> Self::Out;
}
struct VBfs<'a>(&'a Ctx, &'a mut Collector);
impl Visit for VBfs<'_> {
    type Out = ();
    fn go<G: Cfg>(self) {
        run_bfs::<G>(self.0, self.1)
    }
}
struct VUnmerged<'a>(&'a Ctx, &'a mut Collector, Option<(usize, usize)>);
impl Visit for VUnmerged<'_> {
    type Out = ();
    fn go<G: Cfg>(self) {
        run_unmerged::<G>(self.0, self.1, self.2)
    }
}
struct VHue;
impl Visit for VHue {
    type Out = bool;
    fn go<G: Cfg>(self) -> bool {
        <G::F as Fam>::HUE.is_some()
    }
}
struct VReplay<'a>(&'a mut Collector, &'a Value);
impl Visit for VReplay<'_> {
    type Out = ();
    fn go<G: Cfg>(self) {
        replay_case::<G>(self.0, self.1)
    }
}

// one Cfg per macro expansion in palette: 26 colour types x {plain, Alpha}
macro_rules! cfgs {
    ($($p:ident $a:ident $fam:ident;)+) => {
        $(impl_cfg!($p, $fam, false); impl_cfg!($a, WithAlpha<$fam>, true);)+
        /// run the visitor on the configuration called `name`
        fn dispatch<V: Visit>(name: &str, v: V) -> Option<V::Out> {
            $(
                if name == <$p as Cfg>::name() { return Some(v.go::<$p>()); }
                if name == <$a as Cfg>::name() { return Some(v.go::<$a>()); }
            )+
            None
        }
        fn all_names() -> Vec<String> {
            vec![$(<$p as Cfg>::name(), <$a as Cfg>::name()),+]
        }
    };
}

cfgs! {
    PRgb ARgb FRgb;
    PHsv AHsv FHsv;
    PLab ALab FLab;
    PLch ALch FLch;
    PLuma ALuma FLuma;
    POklab AOklab FOklab;
    POkhsv AOkhsv FOkhsv;
    PJch AJch FJch;
    PHsl AHsl FHsl;
    PHwb AHwb FHwb;
    PLuv ALuv FLuv;
    PLchuv ALchuv FLchuv;
    PHsluv AHsluv FHsluv;
    PXyz AXyz FXyz;
    PYxy AYxy FYxy;
    PLms ALms FLms;
    POklch AOklch FOklch;
    POkhsl AOkhsl FOkhsl;
    POkhwb AOkhwb FOkhwb;
    PUcsJab AUcsJab FUcsJab;
    PUcsJmh AUcsJmh FUcsJmh;
    PJmh AJmh FJmh;
    PJsh AJsh FJsh;
    PQch AQch FQch;
    PQmh AQmh FQmh;
    PQsh AQsh FQsh;
}

/// the eight types of the full search (each plain and with alpha = 16 configurations)
const FULL: [&str; 8] = ["Rgb", "Hsv", "Lab", "Lch", "Luma", "Oklab", "Okhsv", "Cam16Jch"];
fn is_full(name: &str) -> bool {
    FULL.contains(&name.trim_end_matches("+alpha"))
}

fn run_bfs<G: Cfg>(ctx: &Ctx, total: &mut Collector) {
    let name = G::name();
    let full = is_full(&name);
    let sub = if full { format!("bfs/{name}") } else { format!("basic/{name}") };
    if !ctx.wants(&sub) {
        return;
    }
    let p = if full {
        Params { max_len: ctx.tier.pick(5, 6), ncol: ctx.tier.pick(3, 4), level: Level::Full, predict_model_panics: false }
    } else {
        Params { max_len: ctx.tier.pick(3, 4), ncol: ctx.tier.pick(2, 3), level: Level::Full, predict_model_panics: false }
    };
    let (c, visited) = bfs::<G>(&sub, &p, ctx.seed);
    total.merge(c);
    // closure reached: every sequence of <= max_len colours is reachable (push alone does it)
    let want: usize = (0..=p.max_len).map(|l| p.ncol.pow(l as u32)).sum();
    if visited.len() != want {
        total.cap_hit(format!("{sub}: BFS closed on {} states, {} expected", visited.len(), want));
    }
    total.exhaustive(
        &sub,
        visited.len() == want,
        &format!(
            "merged BFS to closure: every sequence of <= {} colours from a {}-colour set ({} states) x the complete alphabet of that state (push, pop, clear, extend/collect of 0..=2 colours, with_capacity, get(index|range) through Vec, [T;N], &[T], &mut [T], Box<[T]> backings and get_mut(index|range)+write for index 0..=len+1 and usize::MAX, and drain(range) for all 6 range forms with bounds 0..=len+1 (+ ..=MAX) x every consumption script (next^k, next_back^k, both alternations, then drop/count/forget), iter/iter_mut/into_iter over Vec, [T;N], &[T], &mut [T], Box<[T]> backings (13 IntoIterator impls) x every script ending in drop/count)",
            p.max_len, p.ncol, want
        ),
    );
}

fn run_unmerged<G: Cfg>(ctx: &Ctx, total: &mut Collector, replay_bounds: Option<(usize, usize)>) {
    let name = G::name();
    let sub = format!("unmerged/{name}");
    if !is_full(&name) || !ctx.wants(&sub) {
        return;
    }
    // quick: the four types that cover {no hue, hue} x {phantom parameter, none} x {1, 3 components}
    if replay_bounds.is_none() && ctx.tier == Tier::Quick && !["Rgb", "Hsv", "Luma", "Cam16Jch"].contains(&name.trim_end_matches("+alpha")) {
        return;
    }
    let depth = 3;
    let (max_len, ncol) = replay_bounds.unwrap_or((ctx.tier.pick(5, 6), ctx.tier.pick(2, 3)));
    let p = Params { max_len, ncol, level: Level::Reduced, predict_model_panics: true };
    let (c1, merged) = bfs::<G>(&sub, &p, ctx.seed);
    let (c2, un) = unmerged::<G>(&sub, &p, depth);
    // sequences that diverge from the Vec are reported by their own signature and not extended,
    // so the two reachable sets are only comparable when no operation mismatched
    let clean = c1.viol.is_empty() && c2.viol.is_empty();
    total.merge(c1);
    total.merge(c2);
    if clean {
        cross_check::<G>(total, &p, depth, &merged, &un);
    }
    total.exhaustive(
        &sub,
        true,
        &format!(
            "all operation sequences of length <= {depth} from the empty container over the reduced alphabet ({} colours; every valid range of every form + an inverted and an out-of-range one for drain and get_mut(range); drains consumed by drop / next / next_back / exhaust / forget after 0 or 1 steps; no merging, each sequence replayed from scratch), plus the merged BFS over the same alphabet; both must reach the same canonical states at the same depths",
            p.ncol
        ),
    );
}

/// One defect in shared code (the generic `Iter` structs, a macro body) shows up in every
/// iterator source and in every type expanded from that macro. Raw signatures are per type
/// configuration and per method (`C18/ops/<type>/<method>/<class>`, class = panic | behaviour |
/// lengths); two deterministic merges keep one defect at a handful of signatures without hiding
/// a defect that is confined to one type or one impl:
///  A. per (type, class): if drain and all 13 IntoIterator sources fail, they become
///     `Iter(every source)`;
///  B. per (method, class): if every explored type of a macro family (plain, hue, plain+alpha,
///     hue+alpha; at least two explored) fails, they become `all <family> types`.
fn collapse(total: &mut Collector, run: &[String]) {
    use std::collections::BTreeMap;
    fn merge_into(dst: &mut BTreeMap<String, pv::report::Viol>, sig: String, parts: Vec<(String, pv::report::Viol)>) {
        let mut it = parts.into_iter();
        let (s0, mut v) = it.next().unwrap();
        let mut from = vec![s0];
        for (s, w) in it {
            v.count += w.count;
            if w.magnitude > v.magnitude {
                v.magnitude = w.magnitude;
            }
            from.push(s);
        }
        if from.len() > 1 {
            if let Some(o) = v.first.as_object_mut() {
                o.insert("merged_signatures".into(), json!(from));
            }
            v.worst = v.first.clone();
        }
        dst.insert(sig, v);
    }
    let parse = |sig: &str| -> Option<(String, String, String)> {
        let rest = sig.strip_prefix("C18/ops/")?;
        let (cfg, rest) = rest.split_once('/')?;
        let (method, class) = rest.rsplit_once('/')?;
        Some((cfg.to_string(), method.to_string(), class.to_string()))
    };
    let iter_methods: Vec<String> = std::iter::once("drain".to_string()).chain(SOURCES.iter().map(|(m, b)| format!("{}/{}", m.name(), b.name()))).collect();
    // A
    let mut out: BTreeMap<String, pv::report::Viol> = BTreeMap::new();
    let mut groups: BTreeMap<(usize, String), Vec<(String, String, pv::report::Viol)>> = BTreeMap::new();
    for (sig, v) in std::mem::take(&mut total.viol) {
        match parse(&sig) {
            Some((cfg, method, class)) if iter_methods.contains(&method) => {
                let ci = run.iter().position(|n| *n == cfg).unwrap_or(usize::MAX);
                groups.entry((ci, format!("{cfg}\u{0}{class}"))).or_default().push((method, sig, v));
            }
            _ => {
                out.insert(sig, v);
            }
        }
    }
    for ((_, key), mut g) in groups {
        let (cfg, class) = key.split_once('\u{0}').unwrap();
        if g.len() == iter_methods.len() {
            g.sort_by_key(|(m, _, _)| iter_methods.iter().position(|x| x == m));
            merge_into(&mut out, format!("C18/ops/{cfg}/Iter(every source)/{class}"), g.into_iter().map(|(_, s, v)| (s, v)).collect());
        } else {
            for (_, s, v) in g {
                out.insert(s, v);
            }
        }
    }
    // B
    let family = |cfg: &str| -> Option<&'static str> {
        let alpha = cfg.ends_with("+alpha");
        let hue = dispatch(cfg, VHue)?;
        Some(match (hue, alpha) {
            (false, false) => "plain",
            (true, false) => "hue",
            (false, true) => "plain+alpha",
            (true, true) => "hue+alpha",
        })
    };
    let mut fin: BTreeMap<String, pv::report::Viol> = BTreeMap::new();
    let mut groups: BTreeMap<(String, String, String), Vec<(usize, String, pv::report::Viol)>> = BTreeMap::new();
    for (sig, v) in out {
        match parse(&sig).and_then(|(cfg, m, c)| family(&cfg).map(|f| (cfg, f, m, c))) {
            Some((cfg, fam, method, class)) => {
                let ci = run.iter().position(|n| *n == cfg).unwrap_or(usize::MAX);
                groups.entry((fam.to_string(), method, class)).or_default().push((ci, sig, v));
            }
            None => {
                fin.insert(sig, v);
            }
        }
    }
    for ((fam, method, class), mut g) in groups {
        let members = run.iter().filter(|n| family(n) == Some(fam.as_str())).count();
        if g.len() == members && members >= 2 {
            g.sort_by_key(|(ci, _, _)| *ci);
            merge_into(&mut fin, format!("C18/ops/all {fam} types/{method}/{class}"), g.into_iter().map(|(_, s, v)| (s, v)).collect());
        } else {
            for (_, s, v) in g {
                fin.insert(s, v);
            }
        }
    }
    total.viol = fin;
}

fn replay_case<G: Cfg>(c: &mut Collector, case: &Value) {
    let ncol = case["ncol"].as_u64().unwrap_or(3) as usize;
    let cols: Vec<Key> = (0..ncol).map(|j| colour(j, G::nc())).collect();
    let contents: Vec<u8> = case["contents"].as_array().map(|a| a.iter().map(|x| x.as_u64().unwrap_or(0) as u8).collect()).unwrap_or_default();
    let op = Op::from_json(&case["op"]).expect("replay: cannot parse op");
    // initial contents: by the recorded path when there is one, else by pushing the contents
    let path: Vec<Op> = match case["path"].as_array() {
        Some(a) if case.get("path").is_some() => a.iter().map(|o| Op::from_json(o).expect("replay: cannot parse path op")).collect(),
        _ => contents.iter().map(|c| Op::Push(*c)).collect(),
    };
    let (mut v, mut m) = rebuild::<G>(&path, &cols, false);
    let start = state_of(&model_keys::<G>(&m), &cols);
    println!("type config : {}", G::name());
    println!("contents    : {:?} (colour j has components 4j+i+1.5)", start);
    println!("operation   : {}", op.to_json());
    let o = step::<G>(&mut v, &mut m, &op, &cols, false);
    let nc = G::nc();
    println!("observed    : {:?} panic={:?}", show_trace(&o.real, nc), o.real_panic);
    println!("  components after: {:?}", o.bufs);
    println!("expected    : {:?} panic={:?}", show_trace(&o.model, nc), o.model_panic);
    println!("  colours after   : {:?}", o.expect.iter().map(|k| show_key(k, nc)).collect::<Vec<_>>());
    if let Some((class, why)) = &o.mismatch {
        println!("mismatch    : {why}");
        c.violation(&signature::<G>(&op, class), 1.0, || case_json::<G>("ops", ncol, &contents, &path, &op, &o, true));
    }
}

fn replay(ctx: &Ctx, c: &mut Collector, rep: &Value) {
    let case = &rep["case"];
    let cfg = case["cfg"].as_str().unwrap_or("").to_string();
    if case["sub"] == "hetero-alpha" {
        // small space: the sub-check is re-run and only the replayed signature kept
        let only = Ctx { id: ctx.id, tier: ctx.tier, seed: ctx.seed, start: ctx.start, root: ctx.root.clone(), only: Some("hetero-alpha".into()) };
        let mut all = Collector::new();
        hetero::run(&only, &mut all);
        let want = rep["signature"].as_str().unwrap_or("").to_string();
        all.viol.retain(|k, _| *k == want);
        c.merge(all);
        return;
    }
    if case["sub"] == "unmerged" {
        // the reachable-set cross-check: re-run it for that configuration
        if dispatch(&cfg, VUnmerged(ctx, c, Some((case["max_len"].as_u64().unwrap_or(5) as usize, case["ncol"].as_u64().unwrap_or(2) as usize)))).is_none() {
            eprintln!("replay: unknown type config {cfg}");
            std::process::exit(3);
        }
        c.viol.retain(|k, _| k.starts_with("C18/unmerged-vs-merged/"));
        return;
    }
    if dispatch(&cfg, VReplay(c, case)).is_none() {
        eprintln!("replay: unknown type config {cfg}");
        std::process::exit(3);
    }
}

fn main() {
    pv::main_guard(real_main)
}

fn real_main() -> i32 {
    if let Err(e) = selftest_resolve() {
        eprintln!("MACHINERY-FAILURE: range oracle self-test: {e}");
        return 3;
    }
    let (ctx, mode) = Ctx::from_args("C18");
    if let RunMode::Replay(rep) = mode {
        let mut c = Collector::new();
        replay(&ctx, &mut c, &rep);
        return ctx.finish_replay(c);
    }
    let mut total = Collector::new();
    for name in all_names() {
        let _ = dispatch(&name, VBfs(&ctx, &mut total));
    }
    for name in all_names() {
        let _ = dispatch(&name, VUnmerged(&ctx, &mut total, None));
    }
    hetero::run(&ctx, &mut total);
    total.note("type_configs", json!(all_names()));
    let run: Vec<String> = all_names().into_iter().filter(|n| ctx.wants(&format!("bfs/{n}")) || ctx.wants(&format!("basic/{n}")) || ctx.wants(&format!("unmerged/{n}"))).collect();
    collapse(&mut total, &run);
    ctx.finish(
        total,
        "model_checking",
        "state = (type configuration, sequence of colours held); states are enumerated by merged breadth-first search from the empty container to closure under the length bound, the container being rebuilt by replaying the first-found operation path for every transition; every transition executes one operation of the alphabet on the real struct-of-arrays container and on a Vec of scalar colours and compares every observation (return values, Some/None, panics, len(), size_hint(), count(), every yielded item) and the resulting component collections read from the fields; non-trivial = states holding >= 2 colours (order matters)",
        &[
            "the canonical form (the colours held, in order) determines all futures: the component collections are Vec<f32>, whose only other state is capacity, which no operation of the alphabet can observe; the unmerged enumeration to depth 3 cross-checks this",
            "std's Vec<C> is the specification (same toolchain for both sides)",
            "after mem::forget of a Drain only the equal-length invariant and order-preserving prefix consistency are required (the statement does not cover forgotten iterators); on the pinned tree the containers match Vec exactly there too",
            "harness built with debug-assertions off: the debug_assert!s inside palette's iterators are not active",
        ],
    )
}
