// C17 finding: conversions out of Lab/Lch on f32 SIMD vectors are only ~11 bits accurate, because
// `Recip for f32x4/f32x8` (palette/src/num/wide.rs) is the rcpps hardware estimate and Lab -> Xyz multiplies by 116.recip().
use palette::{convert::FromColorUnclamped, white_point::D65, Lab, LinSrgb, Xyz};
use wide::f32x4;
fn main() {
    let (l, a, b) = (70.0f32, 20.0, 30.0); // an ordinary in-gamut colour
    let s: Xyz<D65, f32> = Xyz::from_color_unclamped(Lab::<D65, f32>::new(l, a, b));
    let v: Xyz<D65, f32x4> = Xyz::from_color_unclamped(Lab::<D65, f32x4>::new(f32x4::splat(l), f32x4::splat(a), f32x4::splat(b)));
    let r: LinSrgb<f32x4> = LinSrgb::from_color_unclamped(Lab::<D65, f32x4>::new(f32x4::splat(l), f32x4::splat(a), f32x4::splat(b)));
    let rs: LinSrgb<f32> = LinSrgb::from_color_unclamped(Lab::<D65, f32>::new(l, a, b));
    println!("Lab(70,20,30) -> Xyz     scalar f32 {:?}   f32x4 lane 0 {:?}", (s.x, s.y, s.z), (v.x.to_array()[0], v.y.to_array()[0], v.z.to_array()[0]));
    println!("Lab(70,20,30) -> LinSrgb scalar f32 {:?}   f32x4 lane 0 {:?}", (rs.red, rs.green, rs.blue), (r.red.to_array()[0], r.green.to_array()[0], r.blue.to_array()[0]));
    println!("palette::num::Recip::recip(f32x4::splat(116.0)) = {:e}, 1.0 / 116.0 = {:e}", palette::num::Recip::recip(f32x4::splat(116.0)).to_array()[0], 1.0f32 / 116.0);
}
