//! The formats (the environment of the property): serde_json, ron 0.8 and the harness' TokenFormat.
use crate::tok::{from_toks, structs_to_tuples, to_toks, Key, Node, StructAs, Tok};
use serde::de::DeserializeOwned;
use serde::Serialize;

#[derive(Clone, Copy, PartialEq, Eq, Hash, Debug)]
pub enum Fmt {
    /// serde_json, structs as objects
    Json,
    /// serde_json, every struct written as an array of its values (JSON's sequence form)
    JsonArray,
    /// ron::to_string
    Ron,
    /// ron pretty printer with struct names
    RonNamed,
    /// TokenFormat, self-describing, structs through visit_map, keys delivered as `Key`
    TokMap(Key),
    /// TokenFormat, self-describing, structs through visit_seq, length given by the data
    TokSeq,
    /// TokenFormat, not self-describing, strictly typed, structs/tuples through visit_seq with
    /// exactly the requested number of elements (bincode-like)
    TokFixed,
}

pub const ALL_FMTS: [Fmt; 11] = [
    Fmt::TokMap(Key::Str),
    Fmt::TokMap(Key::Borrowed),
    Fmt::TokMap(Key::Owned),
    Fmt::TokMap(Key::Bytes),
    Fmt::TokMap(Key::Index),
    Fmt::TokSeq,
    Fmt::TokFixed,
    Fmt::Json,
    Fmt::JsonArray,
    Fmt::Ron,
    Fmt::RonNamed,
];
/// formats that accept a struct's fields in any order
pub const MAP_FMTS: [Fmt; 7] =
    [Fmt::TokMap(Key::Str), Fmt::TokMap(Key::Borrowed), Fmt::TokMap(Key::Owned), Fmt::TokMap(Key::Bytes), Fmt::TokMap(Key::Index), Fmt::Json, Fmt::Ron];

impl Fmt {
    pub fn name(self) -> &'static str {
        match self {
            Fmt::Json => "json",
            Fmt::JsonArray => "json-array",
            Fmt::Ron => "ron",
            Fmt::RonNamed => "ron-named",
            Fmt::TokMap(Key::Str) => "tok-map/str",
            Fmt::TokMap(Key::Borrowed) => "tok-map/borrowed-str",
            Fmt::TokMap(Key::Owned) => "tok-map/string",
            Fmt::TokMap(Key::Bytes) => "tok-map/bytes",
            Fmt::TokMap(Key::Index) => "tok-map/index",
            Fmt::TokSeq => "tok-seq",
            Fmt::TokFixed => "tok-fixed",
        }
    }
    /// class used in finding signatures: the way the data reaches the Deserialize impl. The
    /// concrete format is part of the replayable case, not of the signature (the formats are
    /// the environment; the call site is in palette).
    pub fn class(self) -> &'static str {
        match self {
            Fmt::Json | Fmt::Ron | Fmt::RonNamed => "map-form",
            Fmt::TokMap(Key::Index) => "map-form/index-keys",
            Fmt::TokMap(_) => "map-form",
            Fmt::JsonArray | Fmt::TokSeq => "seq-form",
            Fmt::TokFixed => "fixed-form",
        }
    }
    pub fn parse(s: &str) -> Option<Fmt> {
        ALL_FMTS.iter().copied().find(|f| f.name() == s)
    }
    pub fn id(self) -> u8 {
        ALL_FMTS.iter().position(|f| *f == self).unwrap() as u8
    }
    /// is the colour's own struct delivered through visit_map
    pub fn is_map(self) -> bool {
        matches!(self, Fmt::Json | Fmt::Ron | Fmt::RonNamed | Fmt::TokMap(_))
    }
    fn hr(self) -> bool {
        !matches!(self, Fmt::TokSeq | Fmt::TokFixed)
    }
}

#[derive(Clone, Debug, PartialEq)]
pub enum Wire {
    Text(String),
    Toks(Vec<Tok>),
}
impl Wire {
    pub fn show(&self) -> String {
        match self {
            Wire::Text(s) => s.clone(),
            Wire::Toks(t) => crate::tok::show(t),
        }
    }
    pub fn hash(&self) -> u64 {
        match self {
            Wire::Text(s) => pv::fnv(s.as_bytes()),
            Wire::Toks(t) => pv::fnv(format!("{t:?}").as_bytes()),
        }
    }
}

fn ron_named<T: Serialize + ?Sized>(x: &T) -> Result<String, String> {
    ron::ser::to_string_pretty(x, ron::ser::PrettyConfig::new().struct_names(true)).map_err(|e| e.to_string())
}

/// serialize `x` with the real format (no harness code between the subject and the format,
/// except for `JsonArray` which renders the recorded tokens in array form)
pub fn ser<T: Serialize + ?Sized>(f: Fmt, x: &T) -> Result<Wire, String> {
    match f {
        Fmt::Json => serde_json::to_string(x).map(Wire::Text).map_err(|e| e.to_string()),
        Fmt::JsonArray => {
            let t = to_toks(x, true).map_err(|e| e.0)?;
            let t = structs_to_tuples(&t);
            serde_json::to_string(&Node(&t, 0)).map(Wire::Text).map_err(|e| e.to_string())
        }
        Fmt::Ron => ron::to_string(x).map(Wire::Text).map_err(|e| e.to_string()),
        Fmt::RonNamed => ron_named(x).map(Wire::Text),
        Fmt::TokMap(_) | Fmt::TokSeq | Fmt::TokFixed => to_toks(x, f.hr()).map(Wire::Toks).map_err(|e| e.0),
    }
}

/// render a (permuted / mutated) token list as input for format `f`
pub fn wire_of_toks(f: Fmt, t: &[Tok]) -> Result<Wire, String> {
    match f {
        Fmt::Json => serde_json::to_string(&Node(t, 0)).map(Wire::Text).map_err(|e| e.to_string()),
        Fmt::JsonArray => {
            let t = structs_to_tuples(t);
            serde_json::to_string(&Node(&t, 0)).map(Wire::Text).map_err(|e| e.to_string())
        }
        Fmt::Ron => ron::to_string(&Node(t, 0)).map(Wire::Text).map_err(|e| e.to_string()),
        Fmt::RonNamed => ron_named(&Node(t, 0)).map(Wire::Text),
        _ => Ok(Wire::Toks(t.to_vec())),
    }
}

pub fn de<T: DeserializeOwned>(f: Fmt, w: &Wire) -> Result<T, String> {
    match (f, w) {
        (Fmt::Json | Fmt::JsonArray, Wire::Text(s)) => serde_json::from_str(s).map_err(|e| e.to_string()),
        (Fmt::Ron | Fmt::RonNamed, Wire::Text(s)) => ron::from_str(s).map_err(|e| e.to_string()),
        (Fmt::TokMap(k), Wire::Toks(t)) => from_toks(t, StructAs::Map, k).map_err(|e| e.0),
        (Fmt::TokSeq, Wire::Toks(t)) => from_toks(t, StructAs::Seq, Key::Str).map_err(|e| e.0),
        (Fmt::TokFixed, Wire::Toks(t)) => from_toks(t, StructAs::Fixed, Key::Str).map_err(|e| e.0),
        _ => Err("harness: wire kind does not match the format".into()),
    }
}

/// what happened to one subject operation (serialize + deserialize)
#[derive(Clone, Debug, PartialEq)]
pub enum Got<T> {
    Value(T),
    Err(String),
    Panic(String),
}

pub const DOCUMENTED_PANICS: [&str; 3] = [
    "AlphaSerializer can only serialize structs, maps and sequences",
    "AlphaDeserializer can only deserialize structs, maps and sequences",
    "StructFieldDeserializer can only deserialize identifiers",
];
pub fn documented_panic(msg: &str) -> bool {
    DOCUMENTED_PANICS.iter().any(|d| msg.contains(d))
}

pub fn try_ser<T: Serialize + ?Sized>(f: Fmt, x: &T) -> Got<Wire> {
    match pv::catch(|| ser(f, x)) {
        Ok(Ok(w)) => Got::Value(w),
        Ok(Err(e)) => Got::Err(e),
        Err(p) => Got::Panic(p),
    }
}
pub fn try_de<T: DeserializeOwned>(f: Fmt, w: &Wire) -> Got<T> {
    match pv::catch(|| de::<T>(f, w)) {
        Ok(Ok(v)) => Got::Value(v),
        Ok(Err(e)) => Got::Err(e),
        Err(p) => Got::Panic(p),
    }
}
/// serialize then deserialize; the wire is returned when serialization succeeded
pub fn roundtrip<T: Serialize + DeserializeOwned>(f: Fmt, x: &T) -> (Option<Wire>, Got<T>) {
    match try_ser(f, x) {
        Got::Value(w) => {
            let g = try_de::<T>(f, &w);
            (Some(w), g)
        }
        Got::Err(e) => (None, Got::Err(format!("serialize: {e}"))),
        Got::Panic(p) => (None, Got::Panic(p)),
    }
}
