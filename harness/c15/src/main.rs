fn main() {
    eprintln!("C15: check not built yet");
    std::process::exit(3);
}
