//! Sub-check (a): format as hexadecimal -> parse returns the same colour; the formatted string
//! is the canonical zero-padded r,g,b(,a) form; every parsable type reads it as the reference does.
use crate::hexref::{HexTy, TyEntry};
use core::str::FromStr;
use palette::{Srgb, Srgba};
use pv::{json, Collector, Ctx, Tier};

/// integer colour types that can be formatted with {:x} / {:X}
pub trait HexFmt: HexTy + core::fmt::LowerHex + core::fmt::UpperHex {
    /// hex digits per channel
    const W: usize;
    fn from_native(ch: [u32; 4]) -> Self;
}
macro_rules! hexfmt {
    ($t:ty, $w:expr) => {
        impl HexFmt for Srgb<$t> {
            const W: usize = $w;
            fn from_native(ch: [u32; 4]) -> Self {
                Srgb::new(ch[0] as $t, ch[1] as $t, ch[2] as $t)
            }
        }
        impl HexFmt for Srgba<$t> {
            const W: usize = $w;
            fn from_native(ch: [u32; 4]) -> Self {
                Srgba::new(ch[0] as $t, ch[1] as $t, ch[2] as $t, ch[3] as $t)
            }
        }
    };
}
hexfmt!(u8, 2);
hexfmt!(u16, 4);
hexfmt!(u32, 8);

#[derive(Default, Clone, Copy)]
pub struct Stats {
    pub ops: u64,
    pub traces: u64,
}

fn canonical(ch: [u32; 4], nch: usize, w: usize, upper: bool) -> String {
    let tab: &[u8; 16] = if upper { b"0123456789ABCDEF" } else { b"0123456789abcdef" };
    let mut s = String::with_capacity(nch * w);
    for c in ch.iter().take(nch) {
        for j in (0..w).rev() {
            s.push(tab[((c >> (4 * j)) & 15) as usize] as char);
        }
    }
    s
}

fn hexv(ch: [u32; 4], nch: usize) -> Vec<String> {
    ch.iter().take(nch).map(|v| format!("0x{:x}", v)).collect()
}

/// explicit round trip of one formatted string
fn back<T: HexFmt>(c: &mut Collector, st: &mut Stats, ch: [u32; 4], col: &T, input: &str, form: &str) {
    st.ops += 1;
    st.traces += 1;
    let (kind, obs) = match pv::catch(|| T::from_str(input)) {
        Ok(Ok(v)) => {
            if v.chan() == col.chan() {
                return;
            }
            ("wrong-value", json!({"parsed": v.show()}))
        }
        Ok(Err(e)) => ("rejected", json!({"error": e.to_string()})),
        Err(msg) => ("panic", json!({"panic": msg})),
    };
    c.violation(&format!("C12/hex-roundtrip/{}/{}->parse/{}", T::NAME, form, kind), 1.0, || {
        json!({"sub": "hex", "ty": T::NAME, "input": hexv(ch, T::NCH), "string": input, "observed": obs, "expected": col.show()})
    });
}

/// one colour: format lower/upper, canonical form, parse back (with/without '#'), from_hex,
/// the short form where it exists, and every parsable type against the reference parser.
pub fn roundtrip_case<T: HexFmt>(c: &mut Collector, tys: &[TyEntry], ch: [u32; 4], st: &mut Stats) -> u64 {
    let col = T::from_native(ch);
    let mut outcome = 0u64;
    for (form, upper) in [("{:x}", false), ("{:X}", true)] {
        st.ops += 1;
        st.traces += 1;
        let s = match pv::catch(|| if upper { format!("{:X}", col) } else { format!("{:x}", col) }) {
            Ok(s) => s,
            Err(msg) => {
                c.violation(&format!("C12/hex-roundtrip/{}/{}/panic", T::NAME, form), 1.0, || json!({"sub": "hex", "ty": T::NAME, "input": hexv(ch, T::NCH), "observed": {"panic": msg}, "expected": "a string"}));
                continue;
            }
        };
        outcome ^= pv::fnv(s.as_bytes());
        // the digits must be the zero-padded r,g,b(,a) components; letter case and a leading '#'
        // are not part of the property (the parser accepts both), so they are only noted
        let canon = canonical(ch, T::NCH, T::W, upper);
        if s != canon && s.strip_prefix('#').unwrap_or(&s).eq_ignore_ascii_case(&canon) {
            c.note(&format!("hex/{}/{}/case-or-hash-differs-from-canonical", T::NAME, form), json!({"observed": s, "canonical": canon}));
        } else if s != canon {
            c.violation(&format!("C12/hex-roundtrip/{}/{}/not-canonical", T::NAME, form), 1.0, || json!({"sub": "hex", "ty": T::NAME, "input": hexv(ch, T::NCH), "observed": s, "expected": canon}));
        }
        let hashed = format!("#{s}");
        back::<T>(c, st, ch, &col, &s, form);
        back::<T>(c, st, ch, &col, &hashed, if upper { "#{:X}" } else { "#{:x}" });
        if !upper {
            st.ops += 1;
            st.traces += 1;
            let ok = matches!(pv::catch(|| T::via_from_hex(&s)), Ok(Ok(v)) if v.chan() == col.chan());
            if !ok {
                c.violation(&format!("C12/hex-roundtrip/{}/from_hex", T::NAME), 1.0, || json!({"sub": "hex", "ty": T::NAME, "input": hexv(ch, T::NCH), "string": s, "observed": "from_hex(format!(\"{:x}\")) is not Ok(the colour)", "expected": col.show()}));
            }
        }
        for ty in tys {
            (ty.check)(c, &s);
            st.ops += 1;
            st.traces += 1;
        }
    }
    // short form: one digit per channel
    if T::W == 2 && ch.iter().take(T::NCH).all(|v| v % 17 == 0) {
        let mut nibs = [0u32; 4];
        for k in 0..T::NCH {
            nibs[k] = ch[k] / 17;
        }
        for upper in [false, true] {
            let s = canonical(nibs, T::NCH, 1, upper);
            let hashed = format!("#{s}");
            back::<T>(c, st, ch, &col, &s, "short-form");
            back::<T>(c, st, ch, &col, &hashed, "#short-form");
            for input in [&s, &hashed] {
                for ty in tys {
                    (ty.check)(c, input);
                    st.ops += 1;
                    st.traces += 1;
                }
            }
        }
    }
    outcome
}

pub struct FmtEntry {
    pub name: &'static str,
    pub run: fn(&mut Collector, &[TyEntry], [u32; 4], &mut Stats) -> u64,
}
pub fn fmt_types() -> Vec<FmtEntry> {
    macro_rules! e {
        ($t:ty) => {
            FmtEntry { name: <$t as HexTy>::NAME, run: roundtrip_case::<$t> }
        };
    }
    vec![e!(Srgb<u8>), e!(Srgba<u8>), e!(Srgb<u16>), e!(Srgba<u16>), e!(Srgb<u32>), e!(Srgba<u32>)]
}

// ---------------------------------------------------------------------------------------
// spaces

fn max_of(bits: u32) -> u32 {
    if bits == 32 {
        u32::MAX
    } else {
        (1u32 << bits) - 1
    }
}

/// channel levels of the lattice: values with leading-zero digits, letter digits in every
/// position, both ends, the sign-bit boundary.
pub fn levels(bits: u32, tier: Tier) -> Vec<u32> {
    let mut v: Vec<u32> = match bits {
        8 => vec![0x00, 0x01, 0x02, 0x09, 0x0a, 0x0f, 0x10, 0x11, 0x5c, 0x7f, 0x80, 0x99, 0xa0, 0xab, 0xf0, 0xfe, 0xff],
        16 => vec![0x0000, 0x0001, 0x000f, 0x0010, 0x00ff, 0x0100, 0x0a0b, 0x0fff, 0x1000, 0x1234, 0x7fff, 0x8000, 0xa0b0, 0xabcd, 0xdcba, 0xfffe, 0xffff],
        _ => vec![
            0x0000_0000, 0x0000_0001, 0x0000_000f, 0x0000_0010, 0x0000_00ff, 0x0000_ffff, 0x0001_0000, 0x0a0b_0c0d, 0x0fff_ffff, 0x1000_0000, 0x1234_5678, 0x7fff_ffff, 0x8000_0000, 0xabcd_ef01, 0xfedc_ba98,
            0xffff_fffe, 0xffff_ffff,
        ],
    };
    if tier == Tier::Thorough {
        if bits == 8 {
            for x in 0..=255u32 {
                if x % 5 == 0 || x % 17 == 0 {
                    v.push(x);
                }
            }
        } else {
            let m = max_of(bits);
            for k in 0..(bits / 4) {
                for d in [1u32, 9, 0xa, 0xf] {
                    v.push(d << (4 * k));
                    v.push(m & !(0xf << (4 * k)) | ((15 - d) << (4 * k)));
                }
            }
        }
    }
    v.sort();
    v.dedup();
    v
}

/// values walked through a single channel while the others are all 0 or all MAX
fn channel_walk(bits: u32, tier: Tier) -> Vec<u32> {
    let mut v: Vec<u32> = vec![];
    match bits {
        8 => v.extend(0..=255u32),
        16 => v.extend(0..=65535u32),
        _ => {
            for k in 0..8 {
                for d in 0..16u32 {
                    v.push(d << (4 * k));
                    v.push(!(0xfu32 << (4 * k)) | (d << (4 * k)));
                }
            }
            for x in 0..=255u32 {
                v.extend([x, x << 8, x << 16, x << 24, x * 0x0101_0101]);
            }
            if tier == Tier::Thorough {
                for x in 0..=65535u32 {
                    v.extend([x, x << 16, x * 0x0001_0001]);
                }
            }
        }
    }
    v.sort();
    v.dedup();
    v
}

pub fn hex_roundtrip<T: HexFmt>(ctx: &Ctx, total: &mut Collector, tys: &[TyEntry], bits: u32, complete: bool) {
    let sub = format!("hex/{}", T::NAME);
    if !ctx.wants(&sub) {
        return;
    }
    let t0 = std::time::Instant::now();
    let lv: Vec<u32> = if complete { (0..=max_of(bits)).collect() } else { levels(bits, ctx.tier) };
    let nl = lv.len() as u64;
    let nch = T::NCH;
    let count = nl.pow(nch as u32);
    // extremes: one channel walks, the others all 0 / all MAX; skipped when inside the lattice
    let mut ext: Vec<[u32; 4]> = vec![];
    if !complete {
        let walk = channel_walk(bits, ctx.tier);
        let m = max_of(bits);
        for k in 0..nch {
            for &o in &[0u32, m] {
                for &x in &walk {
                    if lv.binary_search(&x).is_ok() {
                        continue; // o is a level, so the colour is a lattice point
                    }
                    let mut ch = [0u32; 4];
                    for (j, c) in ch.iter_mut().enumerate().take(nch) {
                        *c = if j == k { x } else { o };
                    }
                    ext.push(ch);
                }
            }
        }
    }
    let per: u64 = 4096;
    let n_lat_chunks = count.div_ceil(per);
    let n_ext_chunks = (ext.len() as u64).div_ceil(per);
    let seed = ctx.seed;
    let sample_stride = ((count + ext.len() as u64) / 6).max(1);
    let lvr = &lv;
    let extr = &ext;
    let subr = &sub;
    let c = pv::par::run_chunks((n_lat_chunks + n_ext_chunks) as usize, |ci, c| {
        let ci = ci as u64;
        let mut st = Stats::default();
        let mut n = 0u64;
        let mut nt = 0u64;
        let mut one = |c: &mut Collector, ch: [u32; 4], id: u64| {
            let o = roundtrip_case::<T>(c, tys, ch, &mut st);
            n += 1;
            // non-trivial: channels not all equal (order observable) or a channel that needs zero padding
            let lim = 1u32 << (4 * (T::W - 1)).min(31);
            if ch[..nch].iter().any(|v| *v != ch[0]) || ch[..nch].iter().any(|v| *v < lim) {
                nt += 1;
            }
            if id % 4099 == 0 {
                c.outcome(o);
            }
            if id % sample_stride == sample_stride / 2 {
                c.sample(pv::splitmix(seed ^ id ^ pv::fnv(subr.as_bytes())), || {
                    let col = T::from_native(ch);
                    json!({"sub": subr, "channels": hexv(ch, nch), "lower": format!("{:x}", col), "upper": format!("{:X}", col)})
                });
            }
        };
        if ci < n_lat_chunks {
            for idx in (ci * per)..((ci + 1) * per).min(count) {
                let mut ch = [0u32; 4];
                for (k, cc) in ch.iter_mut().enumerate().take(nch) {
                    *cc = lvr[((idx / nl.pow((nch - 1 - k) as u32)) % nl) as usize];
                }
                one(c, ch, idx);
            }
        } else {
            let e = ci - n_lat_chunks;
            for idx in (e * per)..((e + 1) * per).min(extr.len() as u64) {
                one(c, extr[idx as usize], count + idx);
            }
        }
        c.add(subr, n, st.ops, st.traces, nt);
    });
    total.merge(c);
    let desc = if complete {
        format!("all 2^{} {} colours: {{:x}}/{{:X}} canonical, parse back with and without '#', from_hex, short form for the {} colours that have one, and all 10 FromStr impls on both formatted strings against the reference parser", bits as usize * nch, T::NAME, 16u64.pow(nch as u32))
    } else {
        format!(
            "{}-level lattice per channel ({} colours; levels {:x?}) plus {} colours with one channel walking through {} and the others all 0 / all MAX; per colour as for Rgb<u8>",
            nl,
            count,
            lv,
            ext.len(),
            if bits == 32 { "every digit in every nibble position over 0 and over MAX, every byte in every byte position, byte-replicated values (thorough: every 16-bit half and replicated half)" } else { "all its values" }
        )
    };
    total.exhaustive(&sub, true, &desc);
    total.note(&format!("wall_s/{sub}"), json!(t0.elapsed().as_secs_f64()));
}
