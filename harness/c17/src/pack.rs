//! (4a) `From<[C<S>; N]> for C<V>` and `From<C<V>> for [C<S>; N]` (palette/src/macros/simd.rs,
//! impl_simd_array_conversion[_hue]) are exact transposes, bit for bit, for plain colours,
//! `Alpha` and `PreAlpha` — for every node type of the graph where the impl exists (discovered
//! by an autoref-specialisation probe, like the edges).
use crate::vect::{Vect, MAXN};
use core::marker::PhantomData;
use palette::blend::{PreAlpha, Premultiply};
use palette::Alpha;
use pg::{Kind, Node};
use pv::fl::Fl;
use pv::{json, Collector, Ctx, Value};
use wide::{f32x4, f32x8, f64x2, f64x4};
pg::group_prelude!();

/// colours as 4 components (colour padded to 3, then alpha)
pub type PackFn<V> = fn(&[[<V as Vect>::S; 4]]) -> [V; 4];
pub type UnpackFn<V> = fn([V; 4]) -> [[<V as Vect>::S; 4]; MAXN];
pub type PackFns<V> = (PackFn<V>, UnpackFn<V>);

pub struct PackProbe<CS, CV, V, const N: usize>(pub PhantomData<(CS, CV, V)>);

fn lanes4<V: Vect>(v: [V; 4]) -> [[V::S; 4]; MAXN] {
    let l = [v[0].lanes(), v[1].lanes(), v[2].lanes(), v[3].lanes()];
    core::array::from_fn(|i| [l[0][i], l[1][i], l[2][i], l[3][i]])
}
fn pad<S: Default + Copy, const N: usize>(f: impl Fn(usize) -> [S; 4]) -> [[S; 4]; MAXN] {
    core::array::from_fn(|i| if i < N { f(i) } else { [S::default(); 4] })
}

macro_rules! pack_probe {
    ($yes:ident, $no:ident, $get:ident, [$($bound:tt)*], |$cols:ident| $pack:expr, |$v:ident| $unpack:expr) => {
        pub trait $yes<V: Vect> {
            fn $get(&self) -> Option<PackFns<V>>;
        }
        pub trait $no<V: Vect> {
            fn $get(&self) -> Option<PackFns<V>>;
        }
        impl<CS, CV, V, const N: usize> $yes<V> for PackProbe<CS, CV, V, N>
        where
            V: Vect,
            CS: Node<V::S>,
            CV: Node<V>,
            $($bound)*
        {
            fn $get(&self) -> Option<PackFns<V>> {
                Some((|$cols| $pack, |$v| $unpack))
            }
        }
        impl<CS, CV, V: Vect, const N: usize> $no<V> for &PackProbe<CS, CV, V, N> {
            fn $get(&self) -> Option<PackFns<V>> {
                None
            }
        }
    };
}

pack_probe!(PlainYes, PlainNo, get_plain, [CV: From<[CS; N]>, [CS; N]: From<CV>,],
    |cols| {
        let arr: [CS; N] = core::array::from_fn(|i| CS::from3([cols[i][0], cols[i][1], cols[i][2]]));
        let t = CV::from(arr).to3();
        [t[0], t[1], t[2], V::default()]
    },
    |v| {
        let arr: [CS; N] = <[CS; N]>::from(CV::from3([v[0], v[1], v[2]]));
        let mut it = arr.into_iter();
        let out: [[V::S; 3]; N] = core::array::from_fn(|_| it.next().unwrap().to3());
        pad::<V::S, N>(|i| [out[i][0], out[i][1], out[i][2], <V::S>::default()])
    });

pack_probe!(AlphaYes, AlphaNo, get_alpha, [Alpha<CV, V>: From<[Alpha<CS, V::S>; N]>, [Alpha<CS, V::S>; N]: From<Alpha<CV, V>>,],
    |cols| {
        let arr: [Alpha<CS, V::S>; N] = core::array::from_fn(|i| Alpha { color: CS::from3([cols[i][0], cols[i][1], cols[i][2]]), alpha: cols[i][3] });
        let r = <Alpha<CV, V>>::from(arr);
        let t = r.color.to3();
        [t[0], t[1], t[2], r.alpha]
    },
    |v| {
        let arr = <[Alpha<CS, V::S>; N]>::from(Alpha { color: CV::from3([v[0], v[1], v[2]]), alpha: v[3] });
        let mut it = arr.into_iter();
        let out: [[V::S; 4]; N] = core::array::from_fn(|_| {
            let a = it.next().unwrap();
            let t = a.color.to3();
            [t[0], t[1], t[2], a.alpha]
        });
        pad::<V::S, N>(|i| out[i])
    });

pack_probe!(PreYes, PreNo, get_pre, [CS: Premultiply<Scalar = V::S>, CV: Premultiply<Scalar = V>, PreAlpha<CV>: From<[PreAlpha<CS>; N]>, [PreAlpha<CS>; N]: From<PreAlpha<CV>>,],
    |cols| {
        let arr: [PreAlpha<CS>; N] = core::array::from_fn(|i| PreAlpha { color: CS::from3([cols[i][0], cols[i][1], cols[i][2]]), alpha: cols[i][3] });
        let r = <PreAlpha<CV>>::from(arr);
        let t = r.color.to3();
        [t[0], t[1], t[2], r.alpha]
    },
    |v| {
        let arr = <[PreAlpha<CS>; N]>::from(PreAlpha { color: CV::from3([v[0], v[1], v[2]]), alpha: v[3] });
        let mut it = arr.into_iter();
        let out: [[V::S; 4]; N] = core::array::from_fn(|_| {
            let a = it.next().unwrap();
            let t = a.color.to3();
            [t[0], t[1], t[2], a.alpha]
        });
        pad::<V::S, N>(|i| out[i])
    });

pub struct PackEntry<V: Vect> {
    pub name: &'static str,
    pub kind: Kind,
    pub plain: Option<PackFns<V>>,
    pub alpha: Option<PackFns<V>>,
    pub pre: Option<PackFns<V>>,
}

macro_rules! pack_table {
    ($fname:ident, $V:ty, $N:expr, [ $( ($tag:literal, $sty:ty, $vty:ty, $kind:expr) ),* $(,)? ]) => {
        pub fn $fname() -> Vec<PackEntry<$V>> {
            let mut t = vec![];
            $( t.push({
                fn e() -> PackEntry<$V> {
                    let p = PackProbe::<$sty, $vty, $V, $N>(PhantomData);
                    PackEntry { name: $tag, kind: $kind, plain: (&p).get_plain(), alpha: (&p).get_alpha(), pre: (&p).get_pre() }
                }
                e()
            }); )*
            t
        }
    };
}
crate::d65_nodes!(pack_table, f32, f32x4, table_f32x4, f32x4, 4,);
crate::d65_nodes!(pack_table, f32, f32x8, table_f32x8, f32x8, 8,);
crate::d65_nodes!(pack_table, f64, f64x2, table_f64x2, f64x2, 2,);
crate::d65_nodes!(pack_table, f64, f64x4, table_f64x4, f64x4, 4,);

/// special bit patterns that a transposition must carry unchanged
fn specials<S: Fl>() -> Vec<S> {
    let nan_payload = if S::NAME == "f32" { 0x7fc1_2345u64 } else { 0x7ff8_0000_1234_5678u64 };
    let neg_nan = if S::NAME == "f32" { 0xffc0_0001u64 } else { 0xfff8_0000_0000_0001u64 };
    let min_sub = 1u64;
    vec![S::from64(-0.0), S::from_bits64(nan_payload), S::from_bits64(neg_nan), S::from64(f64::INFINITY), S::from64(f64::NEG_INFINITY), S::from_bits64(min_sub), S::from64(360.0), S::from64(-725.5), S::from64(1.0).up()]
}
/// distinct sentinel per (lane, component)
fn sentinel<S: Fl>(lane: usize, comp: usize, round: usize) -> S {
    S::from64(1.0 + lane as f64 * 4.0 + comp as f64 + round as f64 * 0.03125 + if round % 2 == 1 { 100.0 } else { 0.0 }) // exact in f32
}
fn hex4<S: Fl>(v: [S; 4]) -> Vec<String> {
    v.iter().map(|x| format!("{:#x}", x.bits64())).collect()
}
fn parse_cols<S: Fl>(v: &Value) -> Vec<[S; 4]> {
    v.as_array()
        .map(|rows| {
            rows.iter()
                .map(|r| {
                    let a: Vec<u64> = r.as_array().map(|a| a.iter().map(|x| u64::from_str_radix(x.as_str().unwrap_or("0").trim_start_matches("0x"), 16).unwrap_or(0)).collect()).unwrap_or_default();
                    [S::from_bits64(a[0]), S::from_bits64(a[1]), S::from_bits64(a[2]), S::from_bits64(a[3])]
                })
                .collect()
        })
        .unwrap_or_default()
}

/// number of meaningful components of the 4-component view
fn live(kind: Kind, form: &str) -> [bool; 4] {
    let c = !kind.is_luma();
    [true, c, c, form != "plain"]
}

/// one packed array: pack, look at the lanes; unpack the same vector built directly, compare
pub fn check_pack_case<V: Vect>(e: &PackEntry<V>, form: &str, cols: &[[V::S; 4]], c: &mut Collector) -> u64 {
    let fns = match form {
        "plain" => e.plain,
        "Alpha" => e.alpha,
        _ => e.pre,
    };
    let Some((pack, unpack)) = fns else { return 0 };
    let lv = live(e.kind, form);
    let sig = |dir: &str, what: &str| format!("C17/pack-unpack/{}/{}/{}/{}/{}", V::NAME, form, e.name, dir, what);
    let mk = |dir: &str, obs: Value, exp: Value| json!({"sub": "pack-unpack", "vec": V::NAME, "form": form, "node": e.name, "dir": dir, "cols": cols.iter().map(|c| hex4(*c)).collect::<Vec<_>>(), "input": cols.iter().map(|c| c.iter().map(|x| x.to64()).map(pv::report::fnum).collect::<Vec<_>>()).collect::<Vec<_>>(), "observed": obs, "expected": exp});
    let mut ops = 0;
    // pack: lane i, component k of the vector colour == colour i, component k
    match pv::catch(|| lanes4::<V>(pack(cols))) {
        Err(msg) => c.violation(&sig("pack", "panic"), 1.0, || mk("pack", json!({"panic": msg}), json!("no panic"))),
        Ok(l) => {
            ops += 1;
            let mut h = 0u64;
            for i in 0..V::N {
                for k in 0..4 {
                    if !lv[k] {
                        continue;
                    }
                    h = pv::splitmix(h ^ l[i][k].bits64());
                    if l[i][k].bits64() != cols[i][k].bits64() {
                        // where did the value come from? (swapped lanes / components are the realistic defects)
                        let what = if (0..V::N).any(|j| j != i && l[i][k].bits64() == cols[j][k].bits64()) { "lane-moved" } else if (0..4).any(|m| m != k && l[i][k].bits64() == cols[i][m].bits64()) { "component-moved" } else { "value-changed" };
                        c.violation(&sig("pack", what), 1.0, || mk("pack", json!({"lane": i, "component": k, "bits": format!("{:#x}", l[i][k].bits64())}), json!({"bits": format!("{:#x}", cols[i][k].bits64())})));
                    }
                }
            }
            c.outcome(h);
        }
    }
    // unpack: build the vector colour directly from the transposed lanes
    let mut tl = [[<V::S>::default(); MAXN]; 4];
    for i in 0..V::N {
        for k in 0..4 {
            tl[k][i] = cols[i][k];
        }
    }
    let v: [V; 4] = core::array::from_fn(|k| V::from_lanes(&tl[k][..V::N]));
    match pv::catch(|| unpack(v)) {
        Err(msg) => c.violation(&sig("unpack", "panic"), 1.0, || mk("unpack", json!({"panic": msg}), json!("no panic"))),
        Ok(out) => {
            ops += 1;
            for i in 0..V::N {
                for k in 0..4 {
                    if !lv[k] {
                        continue;
                    }
                    if out[i][k].bits64() != cols[i][k].bits64() {
                        let what = if (0..V::N).any(|j| j != i && out[i][k].bits64() == cols[j][k].bits64()) { "lane-moved" } else if (0..4).any(|m| m != k && out[i][k].bits64() == cols[i][m].bits64()) { "component-moved" } else { "value-changed" };
                        c.violation(&sig("unpack", what), 1.0, || mk("unpack", json!({"colour": i, "component": k, "bits": format!("{:#x}", out[i][k].bits64())}), json!({"bits": format!("{:#x}", cols[i][k].bits64())})));
                    }
                }
            }
        }
    }
    ops
}

pub fn run_pack<V: Vect>(ctx: &Ctx, table: &[PackEntry<V>], total: &mut Collector) {
    let sub = format!("pack-unpack/{}", V::NAME);
    if !ctx.wants(&sub) {
        return;
    }
    let sp = specials::<V::S>();
    let mut found = vec![];
    let cc = pv::par::run_chunks(table.len(), |ti, c| {
        let e = &table[ti];
        let (mut states, mut ops) = (0u64, 0u64);
        for form in ["plain", "Alpha", "PreAlpha"] {
            // rounds of all-distinct sentinels
            for round in 0..4 {
                let cols: Vec<[V::S; 4]> = (0..V::N).map(|i| core::array::from_fn(|k| sentinel::<V::S>(i, k, round))).collect();
                let o = check_pack_case(e, form, &cols, c);
                if o > 0 {
                    states += 1;
                    ops += o;
                    if round == 0 {
                        c.sample(pv::splitmix(ti as u64 * 3 + 5 << 50), || json!({"sub": sub, "node": e.name, "form": form, "cols": cols.iter().map(|c| c.iter().map(|x| x.to64()).collect::<Vec<_>>()).collect::<Vec<_>>()}));
                    }
                }
            }
            // every special value in every (lane, component) position, the rest distinct
            for (si, s) in sp.iter().enumerate() {
                for lane in 0..V::N {
                    for comp in 0..4 {
                        let mut cols: Vec<[V::S; 4]> = (0..V::N).map(|i| core::array::from_fn(|k| sentinel::<V::S>(i, k, si))).collect();
                        cols[lane][comp] = *s;
                        let o = check_pack_case(e, form, &cols, c);
                        if o > 0 {
                            states += 1;
                            ops += o;
                        }
                    }
                }
            }
        }
        c.add(&sub, states, ops, ops, states);
    });
    total.merge(cc);
    for e in table {
        found.push(json!([e.name, e.plain.is_some(), e.alpha.is_some(), e.pre.is_some()]));
    }
    let cnt = |f: fn(&PackEntry<V>) -> bool| table.iter().filter(|e| f(e)).count();
    total.note(&format!("pack-impls/{}", V::NAME), json!({"columns": ["node", "plain", "Alpha", "PreAlpha"], "rows": found}));
    total.exhaustive(
        &sub,
        true,
        &format!(
            "{} node types: {} plain, {} Alpha, {} PreAlpha array<->SIMD impls discovered for {} (N = {}); 4 rounds of all-distinct sentinels + every one of {} special bit patterns (-0, NaN payloads, ±inf, min subnormal, 360, -725.5, 1+ulp) in every (lane, component) position; both directions, bitwise",
            table.len(),
            cnt(|e| e.plain.is_some()),
            cnt(|e| e.alpha.is_some()),
            cnt(|e| e.pre.is_some()),
            V::NAME,
            V::N,
            sp.len()
        ),
    );
}

pub fn replay_pack<V: Vect>(table: &[PackEntry<V>], case: &Value, c: &mut Collector) {
    let node = case["node"].as_str().unwrap_or("");
    let form = case["form"].as_str().unwrap_or("plain").to_string();
    let e = table.iter().find(|e| e.name == node).expect("node");
    let cols = parse_cols::<V::S>(&case["cols"]);
    println!("pack/unpack {} {} {}: {:?}", V::NAME, form, node, cols.iter().map(|c| c.iter().map(|x| x.to64()).collect::<Vec<_>>()).collect::<Vec<_>>());
    check_pack_case(e, &form, &cols, c);
}
