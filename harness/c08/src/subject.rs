//! The subject side: palette's public blending API, instantiated per colour type / float and
//! reduced to plain arrays (`Px`) so that the explorer and the replay use one code path.
use palette::blend::{Blend, BlendFunction, BlendWith, Compose, Equation, Equations, Parameter, Parameters, PreAlpha, Premultiply};
use palette::cast::{self, ArrayCast};
use palette::Alpha;
use pv::fl::Fl;

/// Up to three colour components (first `n` used) and an alpha.
#[derive(Clone, Copy, Debug)]
pub struct Px<T> {
    pub c: [T; 3],
    pub a: T,
}
impl<T: Fl> Px<T> {
    pub fn grey(c: T, a: T) -> Self {
        Px { c: [c; 3], a }
    }
    pub fn to64(&self) -> Px<f64> {
        Px { c: [self.c[0].to64(), self.c[1].to64(), self.c[2].to64()], a: self.a.to64() }
    }
}

/// How the inputs are handed to palette (and in which form the result comes back).
#[derive(Clone, Copy, PartialEq, Eq, Debug)]
pub enum Form {
    /// `C`: opaque colour in, opaque colour out (`.unpremultiply().color`)
    Opaque,
    /// `Alpha<C, T>`: straight alpha in, straight alpha out
    Alpha,
    /// `PreAlpha<C>`: premultiplied in, premultiplied out
    Pre,
}
pub const FORMS: [Form; 3] = [Form::Opaque, Form::Alpha, Form::Pre];
impl Form {
    pub fn name(self) -> &'static str {
        match self {
            Form::Opaque => "opaque",
            Form::Alpha => "alpha",
            Form::Pre => "pre",
        }
    }
    pub fn from_name(s: &str) -> Option<Form> {
        FORMS.into_iter().find(|f| f.name() == s)
    }
}

#[derive(Clone, Copy, PartialEq, Eq, Debug)]
pub enum Op {
    Multiply,
    Screen,
    Overlay,
    Darken,
    Lighten,
    Dodge,
    Burn,
    HardLight,
    SoftLight,
    Difference,
    Exclusion,
    Over,
    Inside,
    Outside,
    Atop,
    Xor,
    Plus,
}
pub const BLEND_OPS: [Op; 11] = [Op::Multiply, Op::Screen, Op::Overlay, Op::Darken, Op::Lighten, Op::Dodge, Op::Burn, Op::HardLight, Op::SoftLight, Op::Difference, Op::Exclusion];
pub const COMPOSE_OPS: [Op; 6] = [Op::Over, Op::Inside, Op::Outside, Op::Atop, Op::Xor, Op::Plus];
impl Op {
    pub fn name(self) -> &'static str {
        match self {
            Op::Multiply => "multiply",
            Op::Screen => "screen",
            Op::Overlay => "overlay",
            Op::Darken => "darken",
            Op::Lighten => "lighten",
            Op::Dodge => "dodge",
            Op::Burn => "burn",
            Op::HardLight => "hard_light",
            Op::SoftLight => "soft_light",
            Op::Difference => "difference",
            Op::Exclusion => "exclusion",
            Op::Over => "over",
            Op::Inside => "inside",
            Op::Outside => "outside",
            Op::Atop => "atop",
            Op::Xor => "xor",
            Op::Plus => "plus",
        }
    }
    pub fn from_name(s: &str) -> Option<Op> {
        BLEND_OPS.into_iter().chain(COMPOSE_OPS).find(|o| o.name() == s)
    }
    pub fn is_blend(self) -> bool {
        BLEND_OPS.contains(&self)
    }
    pub fn index(self) -> u64 {
        BLEND_OPS.into_iter().chain(COMPOSE_OPS).position(|o| o == self).unwrap() as u64
    }
}

pub fn to_c<C, T: Fl, const N: usize>(p: &Px<T>) -> C
where
    C: ArrayCast<Array = [T; N]>,
{
    let mut a = [T::from64(0.0); N];
    a.copy_from_slice(&p.c[..N]);
    cast::from_array::<C>(a)
}
pub fn from_c<C, T: Fl, const N: usize>(c: C, a: T) -> Px<T>
where
    C: ArrayCast<Array = [T; N]>,
{
    let arr: [T; N] = cast::into_array(c);
    let mut out = [T::from64(0.0); 3];
    out[..N].copy_from_slice(&arr);
    Px { c: out, a }
}

pub fn subj_blend<C, T, const N: usize>(form: Form, op: Op, s: Px<T>, d: Px<T>) -> Px<T>
where
    T: Fl,
    C: Premultiply<Scalar = T> + ArrayCast<Array = [T; N]> + Blend + Copy,
    Alpha<C, T>: Blend,
    PreAlpha<C>: Blend,
{
    macro_rules! go {
        ($ty:ty, $a:expr, $b:expr) => {{
            let (a, b): ($ty, $ty) = ($a, $b);
            match op {
                Op::Multiply => <$ty as Blend>::multiply(a, b),
                Op::Screen => <$ty as Blend>::screen(a, b),
                Op::Overlay => <$ty as Blend>::overlay(a, b),
                Op::Darken => <$ty as Blend>::darken(a, b),
                Op::Lighten => <$ty as Blend>::lighten(a, b),
                Op::Dodge => <$ty as Blend>::dodge(a, b),
                Op::Burn => <$ty as Blend>::burn(a, b),
                Op::HardLight => <$ty as Blend>::hard_light(a, b),
                Op::SoftLight => <$ty as Blend>::soft_light(a, b),
                Op::Difference => <$ty as Blend>::difference(a, b),
                Op::Exclusion => <$ty as Blend>::exclusion(a, b),
                _ => panic!("checker: {} is not a blend mode", op.name()),
            }
        }};
    }
    match form {
        Form::Opaque => {
            let r = go!(C, to_c::<C, T, N>(&s), to_c::<C, T, N>(&d));
            from_c::<C, T, N>(r, T::from64(1.0))
        }
        Form::Alpha => {
            let r = go!(Alpha<C, T>, Alpha { color: to_c::<C, T, N>(&s), alpha: s.a }, Alpha { color: to_c::<C, T, N>(&d), alpha: d.a });
            from_c::<C, T, N>(r.color, r.alpha)
        }
        Form::Pre => {
            let r = go!(PreAlpha<C>, PreAlpha { color: to_c::<C, T, N>(&s), alpha: s.a }, PreAlpha { color: to_c::<C, T, N>(&d), alpha: d.a });
            from_c::<C, T, N>(r.color, r.alpha)
        }
    }
}

pub fn subj_compose<C, T, const N: usize>(form: Form, op: Op, s: Px<T>, d: Px<T>) -> Px<T>
where
    T: Fl,
    C: Premultiply<Scalar = T> + ArrayCast<Array = [T; N]> + Compose + Copy,
    Alpha<C, T>: Compose,
    PreAlpha<C>: Compose,
{
    macro_rules! go {
        ($ty:ty, $a:expr, $b:expr) => {{
            let (a, b): ($ty, $ty) = ($a, $b);
            match op {
                Op::Over => <$ty as Compose>::over(a, b),
                Op::Inside => <$ty as Compose>::inside(a, b),
                Op::Outside => <$ty as Compose>::outside(a, b),
                Op::Atop => <$ty as Compose>::atop(a, b),
                Op::Xor => <$ty as Compose>::xor(a, b),
                Op::Plus => <$ty as Compose>::plus(a, b),
                _ => panic!("checker: {} is not a compose operator", op.name()),
            }
        }};
    }
    match form {
        Form::Opaque => {
            let r = go!(C, to_c::<C, T, N>(&s), to_c::<C, T, N>(&d));
            from_c::<C, T, N>(r, T::from64(1.0))
        }
        Form::Alpha => {
            let r = go!(Alpha<C, T>, Alpha { color: to_c::<C, T, N>(&s), alpha: s.a }, Alpha { color: to_c::<C, T, N>(&d), alpha: d.a });
            from_c::<C, T, N>(r.color, r.alpha)
        }
        Form::Pre => {
            let r = go!(PreAlpha<C>, PreAlpha { color: to_c::<C, T, N>(&s), alpha: s.a }, PreAlpha { color: to_c::<C, T, N>(&d), alpha: d.a });
            from_c::<C, T, N>(r.color, r.alpha)
        }
    }
}

pub const PREMUL_ROUTES: [&str; 5] = [
    "Premultiply::premultiply/Premultiply::unpremultiply",
    "PreAlpha::new/PreAlpha::unpremultiply",
    "Alpha::premultiply/Alpha::from(PreAlpha)",
    "PreAlpha::from(Alpha)/C::from(PreAlpha)",
    "PreAlpha::from(C)+new_opaque/unpremultiply (alpha = 1 only)",
];

/// (premultiplied, back) for a straight colour `p.c` with alpha `p.a` through one API route.
pub fn subj_premul<C, T, const N: usize>(route: usize, p: Px<T>) -> (Px<T>, Px<T>)
where
    T: Fl + palette::stimulus::Stimulus + palette::num::Real,
    C: Premultiply<Scalar = T> + ArrayCast<Array = [T; N]> + Copy + From<PreAlpha<C>>,
{
    let col = to_c::<C, T, N>(&p);
    match route {
        0 => {
            let pre = <C as Premultiply>::premultiply(col, p.a);
            let prepx = from_c::<C, T, N>(pre.color, pre.alpha);
            let (b, a) = <C as Premultiply>::unpremultiply(pre);
            (prepx, from_c::<C, T, N>(b, a))
        }
        1 => {
            let pre = PreAlpha::new(col, p.a);
            let prepx = from_c::<C, T, N>(pre.color, pre.alpha);
            let back = pre.unpremultiply();
            (prepx, from_c::<C, T, N>(back.color, back.alpha))
        }
        2 => {
            let pre = Alpha { color: col, alpha: p.a }.premultiply();
            let prepx = from_c::<C, T, N>(pre.color, pre.alpha);
            let back: Alpha<C, T> = Alpha::from(pre);
            (prepx, from_c::<C, T, N>(back.color, back.alpha))
        }
        3 => {
            let pre: PreAlpha<C> = PreAlpha::from(Alpha { color: col, alpha: p.a });
            let prepx = from_c::<C, T, N>(pre.color, pre.alpha);
            let back: C = C::from(pre);
            (prepx, from_c::<C, T, N>(back, p.a))
        }
        _ => {
            // opaque constructors; p.a is ignored (the result alpha must be 1)
            let pre: PreAlpha<C> = PreAlpha::from(col);
            let pre2: PreAlpha<C> = PreAlpha::new_opaque(col);
            let prepx = from_c::<C, T, N>(pre.color, pre.alpha);
            let p2 = from_c::<C, T, N>(pre2.color, pre2.alpha);
            // both constructors must agree bitwise; fold a disagreement into a NaN alpha
            let same = (0..N).all(|i| prepx.c[i].bits64() == p2.c[i].bits64()) && prepx.a.bits64() == p2.a.bits64();
            let back = pre.unpremultiply();
            let mut b = from_c::<C, T, N>(back.color, back.alpha);
            if !same {
                b.a = T::from64(f64::NAN);
            }
            (prepx, b)
        }
    }
}

/// A blend function handed to `BlendWith::blend_with`.
#[derive(Clone, Copy, Debug)]
pub enum Bw {
    /// closure `|s, d| 0.25·s + 0.5·d` (colour and alpha), asymmetric on purpose
    Closure,
    Eq(Equations),
}

pub fn subj_bw<C, T, const N: usize>(form: Form, f: Bw, s: Px<T>, d: Px<T>) -> Px<T>
where
    T: Fl + palette::stimulus::Stimulus + palette::num::Real,
    C: Premultiply<Scalar = T> + ArrayCast<Array = [T; N]> + Copy,
    Equations: BlendFunction<C>,
{
    let clo = |a: PreAlpha<C>, b: PreAlpha<C>| -> PreAlpha<C> {
        let (aa, ba): ([T; N], [T; N]) = (cast::into_array(a.color), cast::into_array(b.color));
        let mut o = [T::from64(0.0); N];
        for i in 0..N {
            o[i] = T::from64(0.25 * aa[i].to64() + 0.5 * ba[i].to64());
        }
        PreAlpha { color: cast::from_array::<C>(o), alpha: T::from64(0.25 * a.alpha.to64() + 0.5 * b.alpha.to64()) }
    };
    macro_rules! go {
        ($ty:ty, $a:expr, $b:expr) => {{
            let (a, b): ($ty, $ty) = ($a, $b);
            match f {
                Bw::Closure => <$ty as BlendWith>::blend_with(a, b, clo),
                Bw::Eq(e) => <$ty as BlendWith>::blend_with(a, b, e),
            }
        }};
    }
    match form {
        Form::Opaque => {
            let r = go!(C, to_c::<C, T, N>(&s), to_c::<C, T, N>(&d));
            from_c::<C, T, N>(r, T::from64(1.0))
        }
        Form::Alpha => {
            let r = go!(Alpha<C, T>, Alpha { color: to_c::<C, T, N>(&s), alpha: s.a }, Alpha { color: to_c::<C, T, N>(&d), alpha: d.a });
            from_c::<C, T, N>(r.color, r.alpha)
        }
        Form::Pre => {
            let r = go!(PreAlpha<C>, PreAlpha { color: to_c::<C, T, N>(&s), alpha: s.a }, PreAlpha { color: to_c::<C, T, N>(&d), alpha: d.a });
            from_c::<C, T, N>(r.color, r.alpha)
        }
    }
}

type PairFn<T> = fn(Form, Op, Px<T>, Px<T>) -> Px<T>;

/// One colour type at one float type.
pub struct Spec<T: Fl> {
    pub name: &'static str,
    pub n: usize,
    pub blend: Option<PairFn<T>>,
    pub compose: PairFn<T>,
    pub premul: fn(usize, Px<T>) -> (Px<T>, Px<T>),
    pub bw: Option<fn(Form, Bw, Px<T>, Px<T>) -> Px<T>>,
}
impl<T: Fl> Spec<T> {
    pub fn ops(&self) -> Vec<Op> {
        let mut v = vec![];
        if self.blend.is_some() {
            v.extend(BLEND_OPS);
        }
        v.extend(COMPOSE_OPS);
        v
    }
    pub fn run(&self, form: Form, op: Op, s: Px<T>, d: Px<T>) -> Px<T> {
        if op.is_blend() {
            (self.blend.expect("blend op on a compose-only type"))(form, op, s, d)
        } else {
            (self.compose)(form, op, s, d)
        }
    }
}

macro_rules! spec_full {
    ($T:ty, $name:literal, $C:ty, $n:literal) => {
        Spec::<$T> { name: $name, n: $n, blend: Some(subj_blend::<$C, $T, $n>), compose: subj_compose::<$C, $T, $n>, premul: subj_premul::<$C, $T, $n>, bw: Some(subj_bw::<$C, $T, $n>) }
    };
}
macro_rules! spec_compose {
    ($T:ty, $name:literal, $C:ty, $n:literal) => {
        Spec::<$T> { name: $name, n: $n, blend: None, compose: subj_compose::<$C, $T, $n>, premul: subj_premul::<$C, $T, $n>, bw: None }
    };
}

macro_rules! specs_impl {
    ($fname:ident, $T:ty) => {
        pub fn $fname() -> Vec<Spec<$T>> {
            use palette::white_point::D65;
            vec![
                // Blend + Compose + BlendWith: the StimulusColor types (linear and non-linear RGB,
                // XYZ, luma, LMS)
                spec_full!($T, "LinSrgb", palette::LinSrgb<$T>, 3),
                spec_full!($T, "Srgb", palette::Srgb<$T>, 3),
                spec_full!($T, "Xyz<D65>", palette::Xyz<D65, $T>, 3),
                spec_full!($T, "LinLuma<D65>", palette::LinLuma<D65, $T>, 1),
                spec_full!($T, "VonKriesLms<D65>", palette::lms::VonKriesLms<D65, $T>, 3),
                // Compose + Premultiply only (not StimulusColor)
                spec_compose!($T, "Lab<D65>", palette::Lab<D65, $T>, 3),
                spec_compose!($T, "Oklab", palette::Oklab<$T>, 3),
                spec_compose!($T, "Yxy<D65>", palette::Yxy<D65, $T>, 3),
                spec_compose!($T, "Luv<D65>", palette::Luv<D65, $T>, 3),
                spec_compose!($T, "Cam16UcsJab", palette::cam16::Cam16UcsJab<$T>, 3),
            ]
        }
    };
}
specs_impl!(specs_f32, f32);
specs_impl!(specs_f64, f64);

pub const EQUATIONS: [Equation; 5] = [Equation::Add, Equation::Subtract, Equation::ReverseSubtract, Equation::Min, Equation::Max];
pub const PARAMETERS: [Parameter; 10] = [
    Parameter::One,
    Parameter::Zero,
    Parameter::SourceColor,
    Parameter::OneMinusSourceColor,
    Parameter::DestinationColor,
    Parameter::OneMinusDestinationColor,
    Parameter::SourceAlpha,
    Parameter::OneMinusSourceAlpha,
    Parameter::DestinationAlpha,
    Parameter::OneMinusDestinationAlpha,
];
pub fn eq_name(e: Equation) -> String {
    format!("{e:?}")
}
pub fn eq_from(s: &str) -> Option<Equation> {
    EQUATIONS.into_iter().find(|e| eq_name(*e) == s)
}
pub fn par_name(p: Parameter) -> String {
    format!("{p:?}")
}
pub fn par_from(s: &str) -> Option<Parameter> {
    PARAMETERS.into_iter().find(|p| par_name(*p) == s)
}
pub fn mk_eq(ceq: Equation, aeq: Equation, cs: Parameter, cd: Parameter, as_: Parameter, ad: Parameter) -> Equations {
    Equations { color_equation: ceq, alpha_equation: aeq, color_parameters: Parameters { source: cs, destination: cd }, alpha_parameters: Parameters { source: as_, destination: ad } }
}
