//! Miri oracle (thorough tier): the same enumeration at a smaller bound is run by this very
//! binary (`--miri-child`) under `cargo +nightly miri run`. The child prints the case id before
//! each step; an abort by Miri (undefined behaviour: out-of-bounds / misaligned / wrongly sized
//! `from_raw_parts`, deallocation with a different layout, aliasing violations, leaks) is
//! reported by the parent as a violation carrying the case that was executing.
use crate::kinds::{Owner, P};
use crate::{judge, registry, run_form, shapes, tables, TypeInfo, MIRI};
use pv::{json, Collector, Ctx, Value};
use std::process::Command;

/// One instantiation per class that matters to the unsafe code: every N (1..=5), component
/// sizes 1/2/4/8/16 bytes and alignments up to 16, derived / macro-generated / hand-written
/// (Alpha, PreAlpha, Packed, Luma-as-uint, Packed-as-uint) implementations.
const SUBSET: &[&str] = &[
    "Luma<u16>",
    "Alpha<Luma<u8>>",
    "Srgb<u8>",
    "Hsv<f32>",
    "Cam16Jch<f32>",
    "Alpha<Srgb<u8>>",
    "Alpha<Lab<f64>>",
    "PreAlpha<LinSrgb<f32>>",
    "Alpha<Alpha<Srgb<u8>>>",
    "Packed<Rgba,[u8;4]>",
    "Packed<Rgba,[u32;2]>",
    "Alpha<Srgb<f32x4>>",
    "Luma<u8> as uint",
    "Luma<u128> as uint",
    "Packed<Rgba,u16> as uint",
    "Packed<Rgba,u64> as uint",
];

fn in_subset(t: &TypeInfo) -> bool {
    SUBSET.contains(&t.name.as_str())
}

/// Under Miri the cast traits (thin delegations to the free functions) run on one representative
/// type; all free-function, std and round-trip forms run on the whole subset.
fn traits_too(t: &TypeInfo) -> bool {
    t.name == "Alpha<Srgb<u8>>"
}

fn case_id(t: &TypeInfo, table: u8, form: &str, p: &P) -> String {
    format!("{}|{}|{}|{}|{}|{}|{}", t.name, table, form, p.owner.name(), p.len, p.cap, p.pat)
}

pub fn child(args: &[String]) -> i32 {
    let types = registry();
    println!("MIRI-CHILD-START");
    let (mut cases, mut ops, mut nontrivial, mut fails) = (0u64, 0u64, 0u64, 0u64);
    // `--shard i n`: this process executes the cases whose running index ≡ i (mod n); `--count`: none
    let mut shard: (u64, u64) = (0, 1);
    let mut count_only = false;
    if args.first().map(|s| s.as_str()) == Some("--shard") {
        shard = (args.get(1).and_then(|s| s.parse().ok()).unwrap_or(0), args.get(2).and_then(|s| s.parse().ok()).unwrap_or(1).max(1));
    }
    if args.first().map(|s| s.as_str()) == Some("--count") {
        count_only = true;
    }
    let mut index = 0u64;
    let mut one = |t: &TypeInfo, table: u8, fm: &crate::meta::FormMeta, p: P| {
        index += 1;
        if count_only {
            cases += 1;
            return;
        }
        if (index - 1) % shard.1 != shard.0 {
            return;
        }
        println!("CASE {}", case_id(t, table, fm.name, &p));
        let Some(o) = run_form(t, table, fm, &p) else {
            println!("CHILD-MACHINERY form not executable");
            return;
        };
        let v = judge(t, fm, &p, &o);
        cases += 1;
        ops += o.ops;
        if o.in_len > 0 {
            nontrivial += 1;
        }
        for f in &v.fails {
            fails += 1;
            println!("CHILD-VIOLATION {} :: {} :: {}", case_id(t, table, fm.name, &p), f.kind, f.detail.replace('\n', " "));
        }
    };
    if args.first().map(|s| s.as_str()) == Some("--one") {
        let parts: Vec<&str> = args.get(1).map(|s| s.split('|').collect()).unwrap_or_default();
        if parts.len() != 7 {
            println!("CHILD-MACHINERY bad case id");
            return 3;
        }
        let Some(t) = types.iter().find(|t| t.name == parts[0]) else { return 3 };
        let table: u8 = parts[1].parse().unwrap_or(0);
        let Some(fm) = tables(t).into_iter().find(|(id, _)| *id == table).and_then(|(_, fs)| fs.iter().find(|f| f.name == parts[2])) else { return 3 };
        let p = P { owner: Owner::parse(parts[3]).unwrap_or(Owner::Slice), len: parts[4].parse().unwrap_or(0), cap: parts[5].parse().unwrap_or(0), pat: parts[6].parse().unwrap_or(0) };
        one(t, table, fm, p);
    } else {
        for t in types.iter().filter(|t| in_subset(t)) {
            for (table, forms) in tables(t) {
                if table != 0 && !traits_too(t) {
                    continue;
                }
                for fm in forms.iter() {
                    for &owner in fm.owners {
                        let mut ps = vec![];
                        shapes(t, fm, owner, &MIRI, |p| ps.push(p));
                        for p in ps {
                            one(t, table, fm, p);
                        }
                    }
                }
            }
        }
    }
    println!("MIRI-CHILD-DONE cases={cases} ops={ops} nontrivial={nontrivial} fails={fails}");
    0
}

struct ChildRun {
    started: bool,
    done: bool,
    status_ok: bool,
    last_case: Option<String>,
    child_viol: Vec<String>,
    counts: (u64, u64, u64),
    error: String,
}

fn run_child(ctx: &Ctx, extra: &[&str]) -> ChildRun {
    let target = ctx.root.join("target").join("miri-c04");
    let mut cmd = Command::new("cargo");
    cmd.current_dir(ctx.root.join("harness"))
        .args(["+nightly", "miri", "run", "--offline", "-q", "-p", "c04", "--target-dir"])
        .arg(&target)
        .args(["--", "--miri-child"])
        .args(extra)
        .env("CARGO_NET_OFFLINE", "true")
        .env("MIRIFLAGS", std::env::var("MIRIFLAGS").unwrap_or_default())
        .env_remove("CARGO_TARGET_DIR")
        .env_remove("RUSTFLAGS");
    let out = match cmd.output() {
        Ok(o) => o,
        Err(e) => {
            return ChildRun { started: false, done: false, status_ok: false, last_case: None, child_viol: vec![], counts: (0, 0, 0), error: format!("cannot spawn cargo: {e}") };
        }
    };
    let stdout = String::from_utf8_lossy(&out.stdout).to_string();
    let stderr = String::from_utf8_lossy(&out.stderr).to_string();
    let mut r = ChildRun { started: false, done: false, status_ok: out.status.success(), last_case: None, child_viol: vec![], counts: (0, 0, 0), error: String::new() };
    for l in stdout.lines() {
        if l == "MIRI-CHILD-START" {
            r.started = true;
        } else if let Some(c) = l.strip_prefix("CASE ") {
            r.last_case = Some(c.to_string());
        } else if let Some(v) = l.strip_prefix("CHILD-VIOLATION ") {
            r.child_viol.push(v.to_string());
        } else if let Some(d) = l.strip_prefix("MIRI-CHILD-DONE ") {
            r.done = true;
            let num = |k: &str| d.split_whitespace().find_map(|w| w.strip_prefix(k)).and_then(|x| x.parse::<u64>().ok()).unwrap_or(0);
            r.counts = (num("cases="), num("ops="), num("nontrivial="));
        }
    }
    // excerpt of the first error reported on stderr
    let lines: Vec<&str> = stderr.lines().collect();
    if let Some(i) = lines.iter().position(|l| l.starts_with("error")) {
        r.error = lines[i..lines.len().min(i + 14)].join("\n");
    } else if !r.status_ok {
        r.error = lines.iter().rev().take(8).rev().cloned().collect::<Vec<_>>().join("\n");
    }
    r
}

fn case_value(id: &str, observed: &str) -> Value {
    let parts: Vec<&str> = id.split('|').collect();
    let g = |i: usize| parts.get(i).copied().unwrap_or("");
    json!({"sub": "miri", "id": id, "type": g(0), "table": g(1).parse::<u64>().unwrap_or(0), "form": g(2), "owner": g(3),
           "len": g(4).parse::<u64>().unwrap_or(0), "cap": g(5).parse::<u64>().unwrap_or(0), "pat": g(6).parse::<u64>().unwrap_or(0),
           "input": id, "observed": observed, "expected": "Miri (Stacked Borrows, alignment and layout checks) reports no undefined behaviour and no leak"})
}

fn first_error_line(e: &str) -> String {
    let l = e.lines().next().unwrap_or("abort");
    let l = l.strip_prefix("error: ").unwrap_or(l);
    // "Undefined Behavior: incorrect layout on deallocation: alloc123 has .." -> "UB: incorrect layout on deallocation"
    let l = match l.strip_prefix("Undefined Behavior: ") {
        Some(rest) => format!("UB: {}", rest.split(|c| c == ':' || c == ',').next().unwrap_or(rest)),
        None => l.to_string(),
    };
    // keep the class of the error, drop addresses / allocation ids
    let l: String = l.chars().filter(|c| !c.is_ascii_digit()).collect();
    l.chars().take(90).collect::<String>().trim().to_string()
}

fn report(c: &mut Collector, r: &ChildRun) {
    if !r.started {
        c.cap_hit(format!("miri oracle could not run (toolchain/build problem, not a verdict): {}", r.error.lines().take(4).collect::<Vec<_>>().join(" | ")));
        c.warn("miri oracle did not run; C04 thorough is missing its UB oracle".into());
        return;
    }
    // failures of the ordinary oracle inside the child repeat what the native enumeration reports
    // (same judge, superset of cases): they are counted, not turned into signatures of their own
    if !r.child_viol.is_empty() {
        c.note("miri_child_oracle_failures", json!({"count": r.child_viol.len(), "first": r.child_viol[0]}));
    }
    if !r.done {
        let id = r.last_case.clone().unwrap_or_default();
        let parts: Vec<&str> = id.split('|').collect();
        c.violation(
            &format!("C04/miri/{}@{}/{}", parts.get(2).unwrap_or(&""), parts.get(3).unwrap_or(&""), first_error_line(&r.error)),
            1.0,
            || case_value(&id, &r.error),
        );
    } else if !r.status_ok {
        c.violation(&format!("C04/miri/at-exit/{}", first_error_line(&r.error)), 1.0, || case_value("(whole run)|0|at-exit|slice|0|0|0", &r.error));
    }
    c.add("miri", r.counts.0, r.counts.1, r.counts.0, r.counts.2);
}

pub fn parent(ctx: &Ctx, c: &mut Collector) {
    // warm-up: builds the Miri binary once and counts the planned cases
    let warm = run_child(ctx, &["--count"]);
    if !warm.started || !warm.done {
        report(c, &ChildRun { started: false, ..warm });
        return;
    }
    let planned = warm.counts.0;
    let n = pv::par::threads().clamp(1, 16);
    let runs: Vec<ChildRun> = pv::par::map_chunks(n, |i| run_child(ctx, &["--shard", &i.to_string(), &n.to_string()]));
    let mut executed = 0;
    let mut all_done = true;
    for r in &runs {
        report(c, r);
        executed += r.counts.0;
        all_done &= r.started && r.done;
    }
    if all_done && executed != planned {
        c.cap_hit(format!("miri shards executed {executed} of {planned} planned cases"));
        all_done = false;
    }
    c.note("miri", json!({"planned_cases": planned, "executed_cases": executed, "shards": n}));
    c.exhaustive(
        "miri",
        all_done,
        "the representative instantiations (every hand-written unsafe impl, every N, component size and alignment class) × all free-function/std/round-trip forms (+ every cast trait × owner on one of them) × lengths 0..=N+2 × capacities len..=len+N, executed under Miri (Stacked Borrows, alignment, allocation-layout and leak checks) in parallel shards",
    );
}

pub fn replay(c: &mut Collector, rep: &Value) {
    let ctx = Ctx::from_args("C04").0;
    let id = rep["case"]["id"].as_str().unwrap_or("").to_string();
    let r = if id.starts_with("(whole run)") { run_child(&ctx, &[]) } else { run_child(&ctx, &["--one", &id]) };
    println!("miri child: started={} done={} exit_ok={} last_case={:?}", r.started, r.done, r.status_ok, r.last_case);
    if !r.error.is_empty() {
        println!("{}", r.error);
    }
    if !r.started {
        eprintln!("MACHINERY-FAILURE: miri could not run: {}", r.error);
        std::process::exit(3);
    }
    report(c, &r);
}
