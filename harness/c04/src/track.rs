//! Allocation observer: a global allocator that forwards to the system allocator and, while a
//! window is open on the *current thread*, logs every alloc / dealloc / realloc with its layout.
//! The check uses the log to prove that a cast (a) does not allocate, free or reallocate
//! (zero-copy), (b) hands back an allocation that is later freed with exactly the layout it was
//! allocated with (so length/capacity scaling is exact), (c) leaks nothing.
use std::alloc::{GlobalAlloc, Layout, System};
use std::cell::Cell;

pub const MAXEV: usize = 64;

#[derive(Clone, Copy, Debug, PartialEq, Eq)]
pub enum Ev {
    Alloc { ptr: usize, size: usize, align: usize },
    Dealloc { ptr: usize, size: usize, align: usize },
    Realloc { ptr: usize, size: usize, align: usize, new_ptr: usize, new_size: usize },
    Mark,
    None,
}

struct Tr {
    on: Cell<bool>,
    n: Cell<usize>,
    overflow: Cell<bool>,
    ev: [Cell<Ev>; MAXEV],
}

thread_local! {
    static TR: Tr = const { Tr { on: Cell::new(false), n: Cell::new(0), overflow: Cell::new(false), ev: [const { Cell::new(Ev::None) }; MAXEV] } };
}

#[inline]
fn push(e: Ev) {
    let _ = TR.try_with(|t| {
        if t.on.get() {
            let n = t.n.get();
            if n < MAXEV {
                t.ev[n].set(e);
                t.n.set(n + 1);
            } else {
                t.overflow.set(true);
            }
        }
    });
}

pub struct Tracking;

unsafe impl GlobalAlloc for Tracking {
    unsafe fn alloc(&self, l: Layout) -> *mut u8 {
        let p = System.alloc(l);
        push(Ev::Alloc { ptr: p as usize, size: l.size(), align: l.align() });
        p
    }
    unsafe fn alloc_zeroed(&self, l: Layout) -> *mut u8 {
        let p = System.alloc_zeroed(l);
        push(Ev::Alloc { ptr: p as usize, size: l.size(), align: l.align() });
        p
    }
    unsafe fn dealloc(&self, p: *mut u8, l: Layout) {
        push(Ev::Dealloc { ptr: p as usize, size: l.size(), align: l.align() });
        System.dealloc(p, l)
    }
    unsafe fn realloc(&self, p: *mut u8, l: Layout, new_size: usize) -> *mut u8 {
        let q = System.realloc(p, l, new_size);
        push(Ev::Realloc { ptr: p as usize, size: l.size(), align: l.align(), new_ptr: q as usize, new_size });
        q
    }
}

/// Open a window on this thread (clears the log).
pub fn begin() {
    TR.with(|t| {
        t.n.set(0);
        t.overflow.set(false);
        t.on.set(true);
    });
}

/// Phase separator.
pub fn mark() {
    push(Ev::Mark);
}

/// Run `f` with logging suspended (the checker's own bookkeeping allocations).
pub fn off<R>(f: impl FnOnce() -> R) -> R {
    let was = TR.with(|t| t.on.replace(false));
    let r = f();
    TR.with(|t| t.on.set(was));
    r
}

/// Close the window and return the log (split into phases at the marks) + overflow flag.
pub fn end() -> (Vec<Vec<Ev>>, bool) {
    let (n, ov) = TR.with(|t| {
        t.on.set(false);
        (t.n.get(), t.overflow.get())
    });
    let mut phases = vec![vec![]];
    TR.with(|t| {
        for i in 0..n {
            match t.ev[i].get() {
                Ev::Mark => phases.push(vec![]),
                e => phases.last_mut().unwrap().push(e),
            }
        }
    });
    (phases, ov)
}
