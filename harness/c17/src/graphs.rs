//! The D65-core node list of `pg::d65_core!` (same names, same order as the scalar graphs of
//! pga/pgb, asserted at start-up) instantiated for the four `wide` vector component types.
//! The edge set per vector type is *discovered* by pg's autoref-specialisation probe: a cell is
//! `Some` exactly when rustc finds `Cb<V>: FromColorUnclamped<Ca<V>>` (the Luv family and the
//! Ok-cylindrical spaces need `Mask = bool` and therefore report no edge). Every row of the
//! table is its own small function (one huge function makes rustc's type checker quadratic).
use core::marker::PhantomData;
use pg::{Graph, NodeInfo, Probe, F3};
#[allow(unused_imports)]
use pg::{UncNo, UncYes};
use wide::{f32x4, f32x8, f64x2, f64x4};
pg::group_prelude!();

/// calls `$cb!{ $pre... [ (name, scalar type, vector type, kind), ... ] }`
#[macro_export]
macro_rules! d65_nodes {
    ($cb:ident, $S:ty, $V:ty, $($pre:tt)*) => {
        $cb!{ $($pre)* [
            ("Xyz", Xyz<wp::D65, $S>, Xyz<wp::D65, $V>, K::Xyz(Wp::D65)),
            ("Yxy", Yxy<wp::D65, $S>, Yxy<wp::D65, $V>, K::Yxy(Wp::D65)),
            ("Lab", Lab<wp::D65, $S>, Lab<wp::D65, $V>, K::Lab(Wp::D65)),
            ("Lch", Lch<wp::D65, $S>, Lch<wp::D65, $V>, K::Lch(Wp::D65)),
            ("Luv", Luv<wp::D65, $S>, Luv<wp::D65, $V>, K::Luv(Wp::D65)),
            ("Lchuv", Lchuv<wp::D65, $S>, Lchuv<wp::D65, $V>, K::Lchuv(Wp::D65)),
            ("Hsluv", Hsluv<wp::D65, $S>, Hsluv<wp::D65, $V>, K::Hsluv(Wp::D65)),
            ("LmsVonKries", VonKriesLms<wp::D65, $S>, VonKriesLms<wp::D65, $V>, K::LmsVonKries(Wp::D65)),
            ("LmsBradford", BradfordLms<wp::D65, $S>, BradfordLms<wp::D65, $V>, K::LmsBradford(Wp::D65)),
            ("Oklab", Oklab<$S>, Oklab<$V>, K::Oklab),
            ("Oklch", Oklch<$S>, Oklch<$V>, K::Oklch),
            ("Okhsl", Okhsl<$S>, Okhsl<$V>, K::Okhsl),
            ("Okhsv", Okhsv<$S>, Okhsv<$V>, K::Okhsv),
            ("Okhwb", Okhwb<$S>, Okhwb<$V>, K::Okhwb),
            ("Srgb", Rgb<encoding::Srgb, $S>, Rgb<encoding::Srgb, $V>, K::Rgb(R::SRGB)),
            ("Hsl<Srgb>", Hsl<encoding::Srgb, $S>, Hsl<encoding::Srgb, $V>, K::Hsl(R::SRGB)),
            ("Hsv<Srgb>", Hsv<encoding::Srgb, $S>, Hsv<encoding::Srgb, $V>, K::Hsv(R::SRGB)),
            ("Hwb<Srgb>", Hwb<encoding::Srgb, $S>, Hwb<encoding::Srgb, $V>, K::Hwb(R::SRGB)),
            ("LinSrgb", Rgb<Linear<encoding::Srgb>, $S>, Rgb<Linear<encoding::Srgb>, $V>, K::Rgb(R::LIN_SRGB)),
            ("Hsl<LinSrgb>", Hsl<Linear<encoding::Srgb>, $S>, Hsl<Linear<encoding::Srgb>, $V>, K::Hsl(R::LIN_SRGB)),
            ("Hsv<LinSrgb>", Hsv<Linear<encoding::Srgb>, $S>, Hsv<Linear<encoding::Srgb>, $V>, K::Hsv(R::LIN_SRGB)),
            ("Hwb<LinSrgb>", Hwb<Linear<encoding::Srgb>, $S>, Hwb<Linear<encoding::Srgb>, $V>, K::Hwb(R::LIN_SRGB)),
            ("AdobeRgb", Rgb<encoding::AdobeRgb, $S>, Rgb<encoding::AdobeRgb, $V>, K::Rgb(R::ADOBE)),
            ("Hsv<AdobeRgb>", Hsv<encoding::AdobeRgb, $S>, Hsv<encoding::AdobeRgb, $V>, K::Hsv(R::ADOBE)),
            ("Rec709", Rgb<encoding::Rec709, $S>, Rgb<encoding::Rec709, $V>, K::Rgb(R::REC709)),
            ("Hsl<Rec709>", Hsl<encoding::Rec709, $S>, Hsl<encoding::Rec709, $V>, K::Hsl(R::REC709)),
            ("Rec2020", Rgb<encoding::Rec2020, $S>, Rgb<encoding::Rec2020, $V>, K::Rgb(R::REC2020)),
            ("Hwb<Rec2020>", Hwb<encoding::Rec2020, $S>, Hwb<encoding::Rec2020, $V>, K::Hwb(R::REC2020)),
            ("DisplayP3", Rgb<encoding::DisplayP3, $S>, Rgb<encoding::DisplayP3, $V>, K::Rgb(R::DISPLAY_P3)),
            ("Hsv<DisplayP3>", Hsv<encoding::DisplayP3, $S>, Hsv<encoding::DisplayP3, $V>, K::Hsv(R::DISPLAY_P3)),
            ("LinDisplayP3", Rgb<Linear<encoding::DisplayP3>, $S>, Rgb<Linear<encoding::DisplayP3>, $V>, K::Rgb(R::LIN_DISPLAY_P3)),
            ("LinRec2020", Rgb<Linear<encoding::Rec2020>, $S>, Rgb<Linear<encoding::Rec2020>, $V>, K::Rgb(R::LIN_REC2020)),
            ("Luma<Srgb>", Luma<encoding::Srgb, $S>, Luma<encoding::Srgb, $V>, K::Luma(R::SRGB)),
            ("LinLuma<D65>", Luma<Linear<wp::D65>, $S>, Luma<Linear<wp::D65>, $V>, K::Luma(R::LIN_SRGB)),
        ] }
    };
}

macro_rules! vgraph {
    ($fname:ident, $V:ty, [ $( ($tag:literal, $sty:ty, $vty:ty, $kind:expr) ),* $(,)? ]) => {
        pub fn $fname() -> Graph<$V> {
            let nodes = vec![$( NodeInfo { name: $tag, kind: $kind } ),*];
            let mut unc: Vec<Vec<Option<F3<$V>>>> = vec![];
            vgraph!(@rows $V, unc, [ $( $vty ),* ], [ $( $vty ),* ]);
            Graph { name: "D65-core", float: stringify!($V), nodes, unc, clamped: vec![], tryc: vec![], aa: vec![], pa: vec![], ap: vec![], clamp: vec![], wa: vec![], buf: vec![] }
        }
    };
    (@rows $V:ty, $unc:ident, [ $( $from:ty ),* ], $tos:tt) => {
        $( $unc.push(vgraph!(@row $V, $from, $tos)); )*
    };
    (@row $V:ty, $from:ty, [ $( $to:ty ),* ]) => {{
        fn row() -> Vec<Option<F3<$V>>> {
            vec![ $( (&Probe::<$from, $to, $V>(PhantomData)).get_unc() ),* ]
        }
        row()
    }};
}

pub mod g_f32x4 {
    use super::*;
    d65_nodes!(vgraph, f32, f32x4, graph, f32x4,);
}
pub mod g_f32x8 {
    use super::*;
    d65_nodes!(vgraph, f32, f32x8, graph, f32x8,);
}
pub mod g_f64x2 {
    use super::*;
    d65_nodes!(vgraph, f64, f64x2, graph, f64x2,);
}
pub mod g_f64x4 {
    use super::*;
    d65_nodes!(vgraph, f64, f64x4, graph, f64x4,);
}
