//! Reference models in plain f64, written from the published definitions (DESIGN.md §3.3).
pub mod tf;
