use pv::colorkind::plausible;
use pg::Kind;
fn fam(k: &Kind) -> bool { matches!(k, Kind::Xyz(_) | Kind::Yxy(_) | Kind::Lab(_) | Kind::Lch(_) | Kind::Luv(_) | Kind::Lchuv(_) | Kind::Oklab | Kind::Oklch | Kind::Hsluv(_) | Kind::LmsVonKries(_) | Kind::LmsBradford(_)) }
fn main() {
    let g = pgb::d65_f64();
    let n = g.n();
    let mut rows = vec![];
    for a in 0..n {
        let ka = g.nodes[a].kind;
        if !fam(&ka) { continue; }
        let vals = ka.lattice(true);
        for b in 0..n {
            if a == b { continue; }
            let Some(f) = g.unc[a][b] else { continue };
            let kb = g.nodes[b].kind;
            if !fam(&kb) { continue; }
            let mut worst = 0.0f64; let mut cnt = 0;
            for v in &vals {
                let x = ka.to_xyz(*v);
                if !plausible(x) || !ka.can_represent(x, 1e-7) || !kb.can_represent(x, 1e-7) { continue; }
                let Ok(r) = pv::catch(|| f(*v)) else { continue };
                let y = kb.to_xyz(r);
                let e = (0..3).map(|i| (x[i]-y[i]).abs()).fold(0.0, f64::max);
                if e.is_finite() { worst = worst.max(e); cnt += 1; }
            }
            rows.push((worst, g.nodes[a].name, g.nodes[b].name, cnt));
        }
    }
    rows.sort_by(|x, y| x.0.partial_cmp(&y.0).unwrap());
    for r in rows.iter() { println!("{:e} {} -> {} ({})", r.0, r.1, r.2, r.3); }
}
