//! C03 — clamped, checked and unclamped conversions obey one bounds contract.
//! (a) per type: full product of a per-component class lattice (far below … far above) through
//!     clamp / clamp_assign / is_within_bounds, plain, with Alpha and as slices, against the
//!     bounds returned by the type's own min/max accessors;
//! (b) per discovered conversion edge and lattice value (in and out of range):
//!     from_color == clamp(from_color_unclamped), try_from_color Ok/Err contract. All exact.
use palette::cast::ArrayCast;
use palette::{Alpha, Clamp, ClampAssign, IsWithinBounds};
use pg::Graph;
use pv::fl::Fl;
use pv::{json, Collector, Ctx, Mode, Tier, Value};

mod ints;
mod intoforms;

fn same<T: Fl>(a: T, b: T) -> bool {
    a.bits64() == b.bits64() || a.to64() == b.to64()
}
fn bits<T: Fl>(v: &[T]) -> Vec<u64> {
    v.iter().map(|x| x.bits64()).collect()
}
fn hex<T: Fl>(v: &[T]) -> Vec<String> {
    v.iter().map(|x| format!("{:#x}", x.bits64())).collect()
}
fn f64s<T: Fl>(v: &[T]) -> Vec<f64> {
    v.iter().map(|x| x.to64()).collect()
}

/// Runtime description of one colour type: its accessor bounds and its clamp functions.
struct Spec<T: Fl> {
    name: String,
    n: usize,
    /// (component index, min, Some(max) | None) as returned by the type's accessors
    bounds: Vec<(usize, T, Option<T>)>,
    /// whiteness + blackness <= max (HWB family): no reference *value* is imposed on those
    coupled: bool,
    clamp: Box<dyn Fn(&[T]) -> Vec<T> + Sync>,
    clamp_assign: Box<dyn Fn(&[T]) -> Vec<T> + Sync>,
    within: Box<dyn Fn(&[T]) -> bool + Sync>,
    slice_clamp_assign: Box<dyn Fn(&[Vec<T>]) -> Vec<Vec<T>> + Sync>,
    slice_within: Box<dyn Fn(&[Vec<T>]) -> bool + Sync>,
    alpha_clamp: Box<dyn Fn(&[T], T) -> (Vec<T>, T) + Sync>,
    alpha_clamp_assign: Box<dyn Fn(&[T], T) -> (Vec<T>, T) + Sync>,
    alpha_within: Box<dyn Fn(&[T], T) -> bool + Sync>,
}

fn mk<C, T, const N: usize>(name: &str, bounds: Vec<(usize, T, Option<T>)>, coupled: bool) -> Spec<T>
where
    T: Fl + palette::stimulus::Stimulus + palette::num::PartialCmp<Mask = bool> + palette::num::Clamp + palette::num::ClampAssign + Clone,
    C: ArrayCast<Array = [T; N]> + Clamp + ClampAssign + IsWithinBounds<Mask = bool> + Copy + 'static,
{
    let from = |v: &[T]| -> C {
        let mut a = [T::from64(0.0); N];
        a.copy_from_slice(&v[..N]);
        palette::cast::from_array(a)
    };
    let to = |c: C| -> Vec<T> { palette::cast::into_array(c).to_vec() };
    mk_ft(name, N, bounds, coupled, from, to)
}

/// like `mk`, for types without `ArrayCast` (the full `Cam16`): components through struct fields
fn mk_ft<C, T, F, G>(name: &str, n: usize, bounds: Vec<(usize, T, Option<T>)>, coupled: bool, from: F, to: G) -> Spec<T>
where
    T: Fl + palette::stimulus::Stimulus + palette::num::PartialCmp<Mask = bool> + palette::num::Clamp + palette::num::ClampAssign + Clone,
    C: Clamp + ClampAssign + IsWithinBounds<Mask = bool> + Copy + 'static,
    F: Fn(&[T]) -> C + Copy + Sync + 'static,
    G: Fn(C) -> Vec<T> + Copy + Sync + 'static,
{
    Spec {
        name: name.to_string(),
        n,
        bounds,
        coupled,
        clamp: Box::new(move |v| to(from(v).clamp())),
        clamp_assign: Box::new(move |v| {
            let mut c = from(v);
            c.clamp_assign();
            to(c)
        }),
        within: Box::new(move |v| from(v).is_within_bounds()),
        slice_clamp_assign: Box::new(move |vs| {
            let mut cs: Vec<C> = vs.iter().map(|v| from(v)).collect();
            cs[..].clamp_assign();
            cs.into_iter().map(to).collect()
        }),
        slice_within: Box::new(move |vs| {
            let cs: Vec<C> = vs.iter().map(|v| from(v)).collect();
            cs[..].is_within_bounds()
        }),
        alpha_clamp: Box::new(move |v, a| {
            let r = Alpha { color: from(v), alpha: a }.clamp();
            (to(r.color), r.alpha)
        }),
        alpha_clamp_assign: Box::new(move |v, a| {
            let mut r = Alpha { color: from(v), alpha: a };
            r.clamp_assign();
            (to(r.color), r.alpha)
        }),
        alpha_within: Box::new(move |v, a| Alpha { color: from(v), alpha: a }.is_within_bounds()),
    }
}

macro_rules! specs_for {
    ($T:ty) => {{
        use palette::cam16::{Cam16, Cam16Jch, Cam16Jmh, Cam16Jsh, Cam16Qch, Cam16Qmh, Cam16Qsh, Cam16UcsJab, Cam16UcsJmh};
        use palette::encoding::{self, Linear};
        use palette::lms::VonKriesLms;
        use palette::luma::Luma;
        use palette::rgb::Rgb;
        use palette::white_point::{D50, D65};
        use palette::{Hsl, Hsluv, Hsv, Hwb, Lab, Lch, Lchuv, Luv, Okhsl, Okhsv, Okhwb, Oklab, Oklch, Xyz, Yxy};
        type T = $T;
        let s = |x: T| Some(x);
        let mut v: Vec<Spec<T>> = vec![];
        v.push(mk::<Rgb<encoding::Srgb, T>, T, 3>("Srgb", vec![(0, Rgb::<encoding::Srgb, T>::min_red(), s(Rgb::<encoding::Srgb, T>::max_red())), (1, Rgb::<encoding::Srgb, T>::min_green(), s(Rgb::<encoding::Srgb, T>::max_green())), (2, Rgb::<encoding::Srgb, T>::min_blue(), s(Rgb::<encoding::Srgb, T>::max_blue()))], false));
        v.push(mk::<Rgb<Linear<encoding::Rec2020>, T>, T, 3>("LinRec2020", vec![(0, Rgb::<Linear<encoding::Rec2020>, T>::min_red(), s(Rgb::<Linear<encoding::Rec2020>, T>::max_red())), (1, Rgb::<Linear<encoding::Rec2020>, T>::min_green(), s(Rgb::<Linear<encoding::Rec2020>, T>::max_green())), (2, Rgb::<Linear<encoding::Rec2020>, T>::min_blue(), s(Rgb::<Linear<encoding::Rec2020>, T>::max_blue()))], false));
        v.push(mk::<Luma<encoding::Srgb, T>, T, 1>("Luma<Srgb>", vec![(0, Luma::<encoding::Srgb, T>::min_luma(), s(Luma::<encoding::Srgb, T>::max_luma()))], false));
        v.push(mk::<Xyz<D65, T>, T, 3>("Xyz<D65>", vec![(0, Xyz::<D65, T>::min_x(), s(Xyz::<D65, T>::max_x())), (1, Xyz::<D65, T>::min_y(), s(Xyz::<D65, T>::max_y())), (2, Xyz::<D65, T>::min_z(), s(Xyz::<D65, T>::max_z()))], false));
        v.push(mk::<Xyz<D50, T>, T, 3>("Xyz<D50>", vec![(0, Xyz::<D50, T>::min_x(), s(Xyz::<D50, T>::max_x())), (1, Xyz::<D50, T>::min_y(), s(Xyz::<D50, T>::max_y())), (2, Xyz::<D50, T>::min_z(), s(Xyz::<D50, T>::max_z()))], false));
        v.push(mk::<Yxy<D65, T>, T, 3>("Yxy", vec![(0, Yxy::<D65, T>::min_x(), s(Yxy::<D65, T>::max_x())), (1, Yxy::<D65, T>::min_y(), s(Yxy::<D65, T>::max_y())), (2, Yxy::<D65, T>::min_luma(), s(Yxy::<D65, T>::max_luma()))], false));
        v.push(mk::<Lab<D65, T>, T, 3>("Lab", vec![(0, Lab::<D65, T>::min_l(), s(Lab::<D65, T>::max_l())), (1, Lab::<D65, T>::min_a(), s(Lab::<D65, T>::max_a())), (2, Lab::<D65, T>::min_b(), s(Lab::<D65, T>::max_b()))], false));
        v.push(mk::<Luv<D65, T>, T, 3>("Luv", vec![(0, Luv::<D65, T>::min_l(), s(Luv::<D65, T>::max_l())), (1, Luv::<D65, T>::min_u(), s(Luv::<D65, T>::max_u())), (2, Luv::<D65, T>::min_v(), s(Luv::<D65, T>::max_v()))], false));
        v.push(mk::<Lch<D65, T>, T, 3>("Lch", vec![(0, Lch::<D65, T>::min_l(), s(Lch::<D65, T>::max_l())), (1, Lch::<D65, T>::min_chroma(), None)], false)); // max_chroma()/max_extended_chroma() are documented as practical figures that "do not cover the entire color space", not as bounds
        v.push(mk::<Lchuv<D65, T>, T, 3>("Lchuv", vec![(0, Lchuv::<D65, T>::min_l(), s(Lchuv::<D65, T>::max_l())), (1, Lchuv::<D65, T>::min_chroma(), s(Lchuv::<D65, T>::max_chroma()))], false));
        v.push(mk::<Hsluv<D65, T>, T, 3>("Hsluv", vec![(1, Hsluv::<D65, T>::min_saturation(), s(Hsluv::<D65, T>::max_saturation())), (2, Hsluv::<D65, T>::min_l(), s(Hsluv::<D65, T>::max_l()))], false));
        v.push(mk::<Hsl<encoding::Srgb, T>, T, 3>("Hsl", vec![(1, Hsl::<encoding::Srgb, T>::min_saturation(), s(Hsl::<encoding::Srgb, T>::max_saturation())), (2, Hsl::<encoding::Srgb, T>::min_lightness(), s(Hsl::<encoding::Srgb, T>::max_lightness()))], false));
        v.push(mk::<Hsv<encoding::Srgb, T>, T, 3>("Hsv", vec![(1, Hsv::<encoding::Srgb, T>::min_saturation(), s(Hsv::<encoding::Srgb, T>::max_saturation())), (2, Hsv::<encoding::Srgb, T>::min_value(), s(Hsv::<encoding::Srgb, T>::max_value()))], false));
        v.push(mk::<Hwb<encoding::Srgb, T>, T, 3>("Hwb", vec![(1, Hwb::<encoding::Srgb, T>::min_whiteness(), s(Hwb::<encoding::Srgb, T>::max_whiteness())), (2, Hwb::<encoding::Srgb, T>::min_blackness(), s(Hwb::<encoding::Srgb, T>::max_blackness()))], true));
        v.push(mk::<Oklab<T>, T, 3>("Oklab", vec![(0, Oklab::<T>::min_l(), s(Oklab::<T>::max_l()))], false));
        v.push(mk::<Oklch<T>, T, 3>("Oklch", vec![(0, Oklch::<T>::min_l(), s(Oklch::<T>::max_l())), (1, Oklch::<T>::min_chroma(), None)], false));
        v.push(mk::<Okhsl<T>, T, 3>("Okhsl", vec![(1, Okhsl::<T>::min_saturation(), s(Okhsl::<T>::max_saturation())), (2, Okhsl::<T>::min_lightness(), s(Okhsl::<T>::max_lightness()))], false));
        v.push(mk::<Okhsv<T>, T, 3>("Okhsv", vec![(1, Okhsv::<T>::min_saturation(), s(Okhsv::<T>::max_saturation())), (2, Okhsv::<T>::min_value(), s(Okhsv::<T>::max_value()))], false));
        v.push(mk::<Okhwb<T>, T, 3>("Okhwb", vec![(1, Okhwb::<T>::min_whiteness(), s(Okhwb::<T>::max_whiteness())), (2, Okhwb::<T>::min_blackness(), s(Okhwb::<T>::max_blackness()))], true));
        v.push(mk::<VonKriesLms<D65, T>, T, 3>("Lms", vec![(0, VonKriesLms::<D65, T>::min_long(), None), (1, VonKriesLms::<D65, T>::min_medium(), None), (2, VonKriesLms::<D65, T>::min_short(), None)], false));
        let z: T = 0.0;
        // CAM16: the documented lower bound of every attribute is zero, there is no upper bound
        // the full CAM16 colour has no ArrayCast: [lightness, chroma, hue, brightness, colorfulness, saturation]
        v.push(mk_ft::<Cam16<T>, T, _, _>(
            "Cam16",
            6,
            vec![(0, z, None), (1, z, None), (3, z, None), (4, z, None), (5, z, None)],
            false,
            |v: &[T]| Cam16 { lightness: v[0], chroma: v[1], hue: palette::hues::Cam16Hue::new(v[2]), brightness: v[3], colorfulness: v[4], saturation: v[5] },
            |c: Cam16<T>| vec![c.lightness, c.chroma, c.hue.into_inner(), c.brightness, c.colorfulness, c.saturation],
        ));
        v.push(mk::<Cam16Jch<T>, T, 3>("Cam16Jch", vec![(0, z, None), (1, z, None)], false));
        v.push(mk::<Cam16Jmh<T>, T, 3>("Cam16Jmh", vec![(0, z, None), (1, z, None)], false));
        v.push(mk::<Cam16Jsh<T>, T, 3>("Cam16Jsh", vec![(0, z, None), (1, z, None)], false));
        v.push(mk::<Cam16Qch<T>, T, 3>("Cam16Qch", vec![(0, z, None), (1, z, None)], false));
        v.push(mk::<Cam16Qmh<T>, T, 3>("Cam16Qmh", vec![(0, z, None), (1, z, None)], false));
        v.push(mk::<Cam16Qsh<T>, T, 3>("Cam16Qsh", vec![(0, z, None), (1, z, None)], false));
        v.push(mk::<Cam16UcsJmh<T>, T, 3>("Cam16UcsJmh", vec![(0, Cam16UcsJmh::<T>::min_lightness(), s(Cam16UcsJmh::<T>::max_lightness())), (1, Cam16UcsJmh::<T>::min_colorfulness(), None)], false));
        v.push(mk::<Cam16UcsJab<T>, T, 3>("Cam16UcsJab", vec![(0, Cam16UcsJab::<T>::min_lightness(), s(Cam16UcsJab::<T>::max_lightness()))], false));
        v
    }};
}

/// class lattice of one bounded component
fn comp_lattice<T: Fl>(min: T, max: Option<T>, small: bool) -> Vec<T> {
    let lo = min.to64();
    match max {
        Some(mx) => {
            let hi = mx.to64();
            if small {
                vec![T::from64(lo - 10.0 * (hi - lo)), min.down(), min, T::from64(0.5 * (lo + hi)), mx, mx.up(), T::from64(hi + 10.0 * (hi - lo))]
            } else {
                pv::lattice::with_outside::<T>(lo, hi, 2)
            }
        }
        None => {
            let mut v = vec![T::from64(lo - 1e6), T::from64(lo - 1.0), min.down(), min, min.up(), T::from64(lo + 0.5), T::from64(lo + 1e6)];
            if small {
                v = vec![T::from64(lo - 1.0), min.down(), min, T::from64(lo + 0.5), T::from64(lo + 1e6)];
            }
            pv::lattice::dedup(v)
        }
    }
}
/// unbounded component (hue, a/b of Oklab, …)
fn free_lattice<T: Fl>(small: bool) -> Vec<T> {
    if small {
        vec![T::from64(-400.0), T::from64(0.0), T::from64(361.5)]
    } else {
        vec![T::from64(-1e6), T::from64(-400.0), T::from64(-0.0), T::from64(0.0), T::from64(0.5), T::from64(180.0), T::from64(361.5), T::from64(1e6)]
    }
}

fn input_class<T: Fl>(sp: &Spec<T>, v: &[T]) -> String {
    // which components are below / above their bound
    let mut s = String::new();
    for &(i, mn, mx) in &sp.bounds {
        let x = v[i].to64();
        if x < mn.to64() {
            s.push_str(&format!("c{i}<min,"));
        } else if let Some(m) = mx {
            if x > m.to64() {
                s.push_str(&format!("c{i}>max,"));
            }
        }
    }
    if s.is_empty() {
        "in-range".into()
    } else {
        s.trim_end_matches(',').to_string()
    }
}

fn check_point<T: Fl>(sp: &Spec<T>, v: &[T], c: &mut Collector, cnt: &mut [u64; 3]) {
    let tname = T::NAME;
    let mk = |what: &str, obs: Value, exp: Value| json!({"sub": "type", "type": sp.name, "float": tname, "what": what, "input": hex(v), "value": f64s(v), "observed": obs, "expected": exp});
    let sig = |check: &str, cls: &str| format!("C03/{}/{}<{}>/{}", check, sp.name, tname, cls);
    let cls = input_class(sp, v);
    cnt[0] += 1;
    let r = match pv::catch(|| ((sp.clamp)(v), (sp.clamp_assign)(v), (sp.within)(v))) {
        Ok(x) => x,
        Err(msg) => {
            c.violation(&sig("panic", &cls), 1.0, || mk("clamp", json!({"panic": msg}), json!("no panic")));
            return;
        }
    };
    let (cl, cla, within) = r;
    cnt[1] += 3;
    // accessor-defined membership
    let mut acc_within = true;
    for &(i, mn, mx) in &sp.bounds {
        let x = v[i].to64();
        if x < mn.to64() || mx.map(|m| x > m.to64()).unwrap_or(false) {
            acc_within = false;
        }
    }
    let sum_ok = |w: &[T]| -> bool {
        if !sp.coupled {
            return true;
        }
        let (iw, ib) = (sp.bounds[0].0, sp.bounds[1].0);
        let mx = sp.bounds[0].2.unwrap();
        // computed in the component type, like the implementation must
        T::from64(w[iw].to64()).to64() + 0.0 <= f64::INFINITY && {
            let s = T::from64(w[iw].to64() + w[ib].to64());
            // sum rounded to T (the library adds in T)
            s.to64() <= mx.to64()
        }
    };
    let acc_within_full = acc_within && sum_ok(v);
    cnt[2] += 1;
    if within != acc_within_full {
        c.violation(&sig("is_within_bounds-vs-accessors", &cls), 1.0, || mk("is_within_bounds", json!(within), json!({"by_accessors": acc_within_full})));
    }
    // clamp result reports itself within bounds
    let w2 = pv::catch(|| (sp.within)(&cl)).unwrap_or(false);
    cnt[1] += 1;
    cnt[2] += 1;
    if !w2 {
        c.violation(&sig("clamp-within-bounds", &cls), 1.0, || mk("clamp().is_within_bounds()", json!({"clamped": f64s(&cl), "within": w2}), json!(true)));
    }
    // … and lies within the accessor bounds
    for &(i, mn, mx) in &sp.bounds {
        let x = cl[i].to64();
        let over = if x < mn.to64() { mn.to64() - x } else if let Some(m) = mx { if x > m.to64() { x - m.to64() } else { 0.0 } } else { 0.0 };
        cnt[2] += 1;
        if over > 0.0 || x.is_nan() {
            c.violation(&sig("clamp-vs-accessor-bounds", &format!("c{i}/{cls}")), over, || mk("clamp() component outside [min_*(), max_*()]", json!({"clamped": f64s(&cl), "component": i}), json!({"min": mn.to64(), "max": mx.map(|m| m.to64())})));
        }
        if !sp.coupled {
            // independently bounded component: reference clamp
            let want = {
                let mut y = v[i].to64();
                if y < mn.to64() {
                    y = mn.to64();
                }
                if let Some(m) = mx {
                    if y > m.to64() {
                        y = m.to64();
                    }
                }
                T::from64(y)
            };
            if !same(cl[i], want) && over == 0.0 {
                c.violation(&sig("clamp-value", &format!("c{i}/{cls}")), (cl[i].to64() - want.to64()).abs(), || mk("clamp() component value", json!({"clamped": f64s(&cl), "component": i}), json!(want.to64())));
            }
        }
    }
    // unbounded components untouched
    for i in 0..sp.n {
        if !sp.bounds.iter().any(|b| b.0 == i) && cl[i].bits64() != v[i].bits64() {
            c.violation(&sig("clamp-touches-unbounded", &format!("c{i}")), 1.0, || mk("clamp() changed an unbounded component", json!(f64s(&cl)), json!(f64s(v))));
        }
    }
    // in bounds => unchanged (bitwise)
    if within && bits(&cl) != bits(v) {
        c.violation(&sig("clamp-identity-in-bounds", &cls), 1.0, || mk("clamp() of an in-bounds colour", json!(f64s(&cl)), json!(f64s(v))));
    }
    // idempotent
    let cl2 = pv::catch(|| (sp.clamp)(&cl)).unwrap_or_default();
    cnt[1] += 1;
    cnt[2] += 2;
    if bits(&cl2) != bits(&cl) {
        c.violation(&sig("clamp-idempotent", &cls), 1.0, || mk("clamp(clamp(x))", json!(f64s(&cl2)), json!(f64s(&cl))));
    }
    // clamp_assign == clamp
    if bits(&cla) != bits(&cl) {
        c.violation(&sig("clamp_assign-vs-clamp", &cls), 1.0, || mk("clamp_assign", json!(f64s(&cla)), json!(f64s(&cl))));
    }
    c.outcome(pv::fnv(format!("{:?}{}", bits(&cl), within).as_bytes()));
}

fn check_alpha_and_slices<T: Fl>(sp: &Spec<T>, pts: &[Vec<T>], c: &mut Collector, cnt: &mut [u64; 3]) {
    let tname = T::NAME;
    let sig = |check: &str| format!("C03/{}/{}<{}>", check, sp.name, tname);
    let alphas = [T::from64(-1.0), T::from64(0.0).down(), T::from64(0.0), T::from64(0.5), T::from64(1.0), T::from64(1.0).up(), T::from64(3.0)];
    // a 6-point subset: in, out, boundary
    let pick: Vec<&Vec<T>> = {
        let n = pts.len();
        [0, n / 5, 2 * n / 5, n / 2, 4 * n / 5, n - 1].iter().map(|&i| &pts[i]).collect()
    };
    for v in pts.iter().step_by((pts.len() / 400).max(1)) {
        let base = (sp.clamp)(v);
        let w = (sp.within)(v);
        for &a in &alphas {
            cnt[0] += 1;
            cnt[1] += 3;
            cnt[2] += 3;
            let mk = |what: &str, obs: Value, exp: Value| json!({"sub": "alpha", "type": sp.name, "float": tname, "what": what, "input": hex(v), "alpha": a.to64(), "observed": obs, "expected": exp});
            match pv::catch(|| ((sp.alpha_clamp)(v, a), (sp.alpha_clamp_assign)(v, a), (sp.alpha_within)(v, a))) {
                Err(msg) => c.violation(&sig("alpha-panic"), 1.0, || mk("Alpha clamp", json!({"panic": msg}), json!("no panic"))),
                Ok(((cc, ca), (ac, aa), aw)) => {
                    let want_a = T::from64(a.to64().clamp(0.0, 1.0));
                    if bits(&cc) != bits(&base) || !same(ca, want_a) {
                        c.violation(&sig("alpha-clamp"), 1.0, || mk("Alpha::clamp", json!({"color": f64s(&cc), "alpha": ca.to64()}), json!({"color": f64s(&base), "alpha": want_a.to64()})));
                    }
                    if bits(&ac) != bits(&cc) || aa.bits64() != ca.bits64() {
                        c.violation(&sig("alpha-clamp_assign"), 1.0, || mk("Alpha::clamp_assign", json!({"color": f64s(&ac), "alpha": aa.to64()}), json!({"color": f64s(&cc), "alpha": ca.to64()})));
                    }
                    let want_w = w && a.to64() >= 0.0 && a.to64() <= 1.0;
                    if aw != want_w {
                        c.violation(&sig("alpha-is_within_bounds"), 1.0, || mk("Alpha::is_within_bounds", json!(aw), json!(want_w)));
                    }
                }
            }
        }
    }
    // slices: all sequences of length 0..=3 over the 6-colour subset
    let mut seqs: Vec<Vec<usize>> = vec![vec![]];
    for len in 1..=3usize {
        let mut idx = vec![0usize; len];
        loop {
            seqs.push(idx.clone());
            let mut k = len;
            loop {
                if k == 0 {
                    break;
                }
                k -= 1;
                idx[k] += 1;
                if idx[k] < pick.len() {
                    break;
                }
                idx[k] = 0;
                if k == 0 {
                    k = usize::MAX;
                    break;
                }
            }
            if k == usize::MAX {
                break;
            }
        }
    }
    for s in &seqs {
        let vs: Vec<Vec<T>> = s.iter().map(|&i| pick[i].clone()).collect();
        cnt[0] += 1;
        cnt[1] += 2;
        cnt[2] += 2;
        let mk = |what: &str, obs: Value, exp: Value| json!({"sub": "slice", "type": sp.name, "float": tname, "what": what, "input": vs.iter().map(|v| hex(v)).collect::<Vec<_>>(), "observed": obs, "expected": exp});
        match pv::catch(|| ((sp.slice_clamp_assign)(&vs), (sp.slice_within)(&vs))) {
            Err(msg) => c.violation(&sig("slice-panic"), 1.0, || mk("slice", json!({"panic": msg}), json!("no panic"))),
            Ok((cl, w)) => {
                let want: Vec<Vec<T>> = vs.iter().map(|v| (sp.clamp)(v)).collect();
                if cl.iter().map(|v| bits(v)).collect::<Vec<_>>() != want.iter().map(|v| bits(v)).collect::<Vec<_>>() {
                    c.violation(&sig("slice-clamp_assign"), 1.0, || mk("[C]::clamp_assign", json!(cl.iter().map(|v| f64s(v)).collect::<Vec<_>>()), json!(want.iter().map(|v| f64s(v)).collect::<Vec<_>>())));
                }
                let want_w = vs.iter().all(|v| (sp.within)(v));
                if w != want_w {
                    c.violation(&sig("slice-is_within_bounds"), 1.0, || mk("[C]::is_within_bounds", json!(w), json!(want_w)));
                }
            }
        }
    }
}

fn points_for<T: Fl>(sp: &Spec<T>) -> Vec<Vec<T>> {
    let small = sp.n > 4;
    let lats: Vec<Vec<T>> = (0..sp.n)
        .map(|i| match sp.bounds.iter().find(|b| b.0 == i) {
            Some(&(_, mn, mx)) => comp_lattice(mn, mx, small),
            None => free_lattice::<T>(small || sp.n >= 3 && sp.bounds.len() >= 2),
        })
        .collect();
    let mut out: Vec<Vec<T>> = vec![vec![]];
    for l in &lats {
        let mut next = Vec::with_capacity(out.len() * l.len());
        for p in &out {
            for &x in l {
                let mut q = p.clone();
                q.push(x);
                next.push(q);
            }
        }
        out = next;
    }
    out
}

fn run_types<T: Fl>(ctx: &Ctx, specs: &[Spec<T>], total: &mut Collector) {
    let sub = format!("types/{}", T::NAME);
    if !ctx.wants(&sub) {
        return;
    }
    let cc = pv::par::run_chunks(specs.len(), |i, c| {
        let sp = &specs[i];
        let pts = points_for(sp);
        let mut cnt = [0u64; 3];
        for p in &pts {
            check_point(sp, p, c, &mut cnt);
        }
        check_alpha_and_slices(sp, &pts, c, &mut cnt);
        let nontrivial = pts.iter().filter(|p| input_class(sp, p) != "in-range").count() as u64;
        c.add(&sub, cnt[0], cnt[1], cnt[2], nontrivial);
        c.sample(pv::splitmix(i as u64 ^ ctx.seed), || json!({"type": sp.name, "float": T::NAME, "point": f64s(&pts[pts.len() / 3]), "clamped": f64s(&(sp.clamp)(&pts[pts.len() / 3]))}));
    });
    total.merge(cc);
    total.exhaustive(&sub, true, &format!("{} colour types: full product over components of the class lattice {{far below, just below, min−ulp, min, min+ulp, inside…, max−ulp, max, max+ulp, just above, far above}} (unbounded components: 8 values); Alpha form with 7 alphas; all slices of length 0..=3 over a 6-colour subset", specs.len()));
}

// ---------------------------------------------------------------------------------------
// (b) conversion edges

fn edge_values<T: Fl>(g: &Graph<T>, a: usize, dense: bool) -> Vec<[T; 3]> {
    let kind = g.nodes[a].kind;
    let mut vals: Vec<[f64; 3]> = kind.lattice(dense);
    // out-of-range values: scale the lattice away from its centre
    let extra: Vec<[f64; 3]> = vals.iter().step_by(7).flat_map(|v| vec![[v[0] * 1.5 + 0.1, v[1] * 1.5 - 0.3, v[2] * 1.25], [v[0] - 0.5, v[1] * 2.0, -v[2]], [v[0] * 1.0001, v[1], v[2] * 0.9999 - 1e-7]]).collect();
    vals.extend(extra);
    let mut out: Vec<[T; 3]> = vals.into_iter().filter(|v| v.iter().all(|x| x.is_finite())).map(|v| [T::from64(v[0]), T::from64(v[1]), T::from64(v[2])]).collect();
    out.sort_by_key(|v| [v[0].bits64(), v[1].bits64(), v[2].bits64()]);
    out.dedup_by_key(|v| [v[0].bits64(), v[1].bits64(), v[2].bits64()]);
    out
}

fn check_edge_value<T: Fl>(g: &Graph<T>, a: usize, b: usize, v: [T; 3], c: &mut Collector, cnt: &mut [u64; 3]) {
    let (Some(unc), Some(clamped), Some(tryc), Some((clamp_b, within_b))) = (g.unc[a][b], g.clamped[a][b], g.tryc[a][b], g.clamp[b]) else { return };
    let sig = |check: &str| format!("C03/{}/{}/{}/{}->{}", check, g.name, T::NAME, g.nodes[a].name, g.nodes[b].name);
    let mk = |what: &str, obs: Value, exp: Value| json!({"sub": "edge", "group": g.name, "float": T::NAME, "path": [g.nodes[a].name, g.nodes[b].name], "what": what, "input": hex(&v), "value": f64s(&v), "observed": obs, "expected": exp});
    cnt[0] += 1;
    let r = pv::catch(|| {
        let u = unc(v);
        (u, clamped(v), tryc(v), clamp_b(u), within_b(u))
    });
    cnt[1] += 5;
    match r {
        Err(msg) => {
            // a panic in a conversion is C07's business unless only one of the forms panics
            let _ = msg;
        }
        Ok((u, cl, t, want_cl, w)) => {
            if !u.iter().all(|x| x.finite()) {
                return; // non-finite intermediate: outside this property's quantifier (finite components)
            }
            cnt[2] += 2;
            if bits(&cl) != bits(&want_cl) {
                c.violation(&sig("from_color-vs-unclamped+clamp"), 1.0, || mk("from_color", json!(f64s(&cl)), json!({"unclamped": f64s(&u), "then_clamp": f64s(&want_cl)})));
            }
            match t {
                Ok(x) => {
                    if !w || bits(&x) != bits(&u) {
                        c.violation(&sig("try_from_color-ok"), 1.0, || mk("try_from_color returned Ok", json!({"ok": f64s(&x)}), json!({"unclamped": f64s(&u), "unclamped_within_bounds": w})));
                    }
                }
                Err(x) => {
                    if w || bits(&x) != bits(&u) {
                        c.violation(&sig("try_from_color-err"), 1.0, || mk("try_from_color returned Err", json!({"err_color": f64s(&x)}), json!({"unclamped": f64s(&u), "unclamped_within_bounds": w})));
                    }
                }
            }
            c.outcome(pv::fnv(format!("{:?}{}", bits(&cl), w).as_bytes()));
        }
    }
}

/// buffer forms of one edge over one chunk of source values: `Vec<B>::from_color`, `Box<[B]>::from_color`
/// element-wise equal to from_color_unclamped + clamp; the unclamped buffer forms equal to the single conversion
fn check_edge_buffers<T: Fl>(g: &Graph<T>, a: usize, b: usize, vals: &[[T; 3]], c: &mut Collector, cnt: &mut [u64; 3]) {
    let (Some(unc), Some(buf), Some((clamp_b, _))) = (g.unc[a][b], g.buf[a][b], g.clamp[b]) else { return };
    let sig = |check: &str| format!("C03/{}/{}/{}/{}->{}", check, g.name, T::NAME, g.nodes[a].name, g.nodes[b].name);
    let Ok(outs) = pv::catch(|| buf(vals)) else { return };
    cnt[1] += 4 * vals.len() as u64;
    let names = ["Vec::from_color", "Box<[_]>::from_color", "Vec::from_color_unclamped", "Box<[_]>::from_color_unclamped"];
    for (k, out) in outs.iter().enumerate() {
        if out.len() != vals.len() {
            c.violation(&sig("buffer-length"), 1.0, || json!({"sub": "edge-buffer", "group": g.name, "float": T::NAME, "path": [g.nodes[a].name, g.nodes[b].name], "what": names[k], "input": vals.iter().map(|v| hex(v)).collect::<Vec<_>>(), "observed": out.len(), "expected": vals.len()}));
            continue;
        }
        for (i, v) in vals.iter().enumerate() {
            let Ok(u) = pv::catch(|| unc(*v)) else { continue };
            if !u.iter().all(|x| x.finite()) {
                continue;
            }
            let want = if k < 2 {
                match pv::catch(|| clamp_b(u)) {
                    Ok(w) => w,
                    Err(_) => continue,
                }
            } else {
                u
            };
            cnt[2] += 1;
            if bits(&out[i]) != bits(&want) {
                let v1 = [*v];
                c.violation(&sig(if k < 2 { "buffer-from_color-vs-unclamped+clamp" } else { "buffer-unclamped-vs-single" }), 1.0, || {
                    json!({"sub": "edge-buffer", "group": g.name, "float": T::NAME, "path": [g.nodes[a].name, g.nodes[b].name], "what": names[k], "input": v1.iter().map(|v| hex(v)).collect::<Vec<_>>(), "value": f64s(v), "observed": f64s(&out[i]), "expected": f64s(&want)})
                });
            }
        }
    }
}

fn run_graph<T: Fl>(ctx: &Ctx, g: &Graph<T>, dense: bool, total: &mut Collector) {
    let sub = format!("edges/{}/{}", g.name, T::NAME);
    if !ctx.wants(&sub) {
        return;
    }
    let n = g.n();
    let vals: Vec<Vec<[T; 3]>> = (0..n).map(|a| edge_values(g, a, dense)).collect();
    let mut items = vec![];
    for a in 0..n {
        let per = 256;
        let mut i = 0;
        while i < vals[a].len() {
            items.push((a, i, (i + per).min(vals[a].len())));
            i += per;
        }
    }
    let (items_ref, vals_ref) = (&items, &vals);
    let cc = pv::par::run_chunks(items.len(), |ci, c| {
        let (a, lo, hi) = items_ref[ci];
        let mut cnt = [0u64; 3];
        let mut states = 0u64;
        for i in lo..hi {
            states += 1;
            for b in 0..n {
                check_edge_value(g, a, b, vals_ref[a][i], c, &mut cnt);
            }
        }
        for b in 0..n {
            check_edge_buffers(g, a, b, &vals_ref[a][lo..hi], c, &mut cnt);
        }
        c.add(&sub, states, cnt[1], cnt[2], states);
    });
    total.merge(cc);
    total.exhaustive(&sub, true, &format!("{} nodes, every discovered FromColor/TryFromColor edge x every lattice value of the source (in range + scaled out of range); Vec and Box<[_]> buffer forms of every edge over the same values in chunks of up to 256", n));
}

macro_rules! with_graph {
    ($group:expr, $float:expr, |$g:ident| $body:expr) => {
        match ($group, $float) {
            ("D65-core", "f32") => { let $g = pga::d65_f32(); $body }
            ("D65-core", "f64") => { let $g = pgb::d65_f64(); $body }
            ("D65-cylindrical", "f32") => { let $g = pgc::d65cyl_f32(); $body }
            ("D65-cylindrical", "f64") => { let $g = pgc::d65cyl_f64(); $body }
            ("D50", "f32") => { let $g = pgd::d50_f32(); $body }
            ("D50", "f64") => { let $g = pgd::d50_f64(); $body }
            ("DCI", "f32") => { let $g = pgd::dci_f32(); $body }
            ("DCI", "f64") => { let $g = pgd::dci_f64(); $body }
            (g, f) => { eprintln!("unknown graph {g}/{f}"); std::process::exit(3) }
        }
    };
}

fn replay(c: &mut Collector, rep: &Value) {
    let case = &rep["case"];
    let float = case["float"].as_str().unwrap_or("f32").to_string();
    let inbits = |v: &Value| -> Vec<u64> { v.as_array().map(|a| a.iter().map(|x| u64::from_str_radix(x.as_str().unwrap_or("0").trim_start_matches("0x"), 16).unwrap_or(0)).collect()).unwrap_or_default() };
    match case["sub"].as_str().unwrap_or("") {
        "edge" => {
            let group = case["group"].as_str().unwrap_or("").to_string();
            let path: Vec<String> = case["path"].as_array().map(|a| a.iter().map(|x| x.as_str().unwrap_or("").to_string()).collect()).unwrap_or_default();
            let b = inbits(&case["input"]);
            fn go<T: Fl>(g: &Graph<T>, path: &[String], b: &[u64], c: &mut Collector) {
                let (ia, ib) = (g.index(&path[0]).expect("node"), g.index(&path[1]).expect("node"));
                let mut cnt = [0u64; 3];
                check_edge_value(g, ia, ib, [T::from_bits64(b[0]), T::from_bits64(b[1]), T::from_bits64(b[2])], c, &mut cnt);
            }
            with_graph!(group.as_str(), float.as_str(), |g| go(&g, &path, &b, c));
        }
        "into-forms" => {
            let ctx = Ctx { only: Some("into-forms".into()), ..Ctx::from_args("C03").0 };
            let mut all = Collector::new();
            intoforms::run(&ctx, &mut all);
            let want = rep["signature"].as_str().unwrap_or("").to_string();
            all.viol.retain(|k, _| *k == want);
            c.merge(all);
        }
        "integer" => {
            // small complete spaces: the whole sub-check is re-run and only the replayed signature kept
            let ctx = Ctx { only: Some("integer".into()), ..Ctx::from_args("C03").0 };
            let mut all = Collector::new();
            ints::run(&ctx, &mut all);
            let want = rep["signature"].as_str().unwrap_or("").to_string();
            all.viol.retain(|k, _| *k == want);
            c.merge(all);
        }
        "edge-buffer" => {
            let group = case["group"].as_str().unwrap_or("").to_string();
            let path: Vec<String> = case["path"].as_array().map(|a| a.iter().map(|x| x.as_str().unwrap_or("").to_string()).collect()).unwrap_or_default();
            let vals: Vec<Vec<u64>> = case["input"].as_array().map(|a| a.iter().map(|v| inbits(v)).collect()).unwrap_or_default();
            fn go<T: Fl>(g: &Graph<T>, path: &[String], vals: &[Vec<u64>], c: &mut Collector) {
                let (ia, ib) = (g.index(&path[0]).expect("node"), g.index(&path[1]).expect("node"));
                let mut cnt = [0u64; 3];
                let v: Vec<[T; 3]> = vals.iter().map(|b| [T::from_bits64(b[0]), T::from_bits64(b[1]), T::from_bits64(b[2])]).collect();
                check_edge_buffers(g, ia, ib, &v, c, &mut cnt);
            }
            with_graph!(group.as_str(), float.as_str(), |g| go(&g, &path, &vals, c));
        }
        _ => {
            let ty = case["type"].as_str().unwrap_or("").to_string();
            fn go<T: Fl>(specs: Vec<Spec<T>>, ty: &str, case: &Value, b: Vec<u64>, c: &mut Collector) {
                let sp = specs.iter().find(|s| s.name == ty).expect("type");
                let mut cnt = [0u64; 3];
                if case["sub"] == "type" {
                    let v: Vec<T> = b.iter().map(|x| T::from_bits64(*x)).collect();
                    check_point(sp, &v, c, &mut cnt);
                    println!("clamp({:?}) = {:?}, is_within_bounds = {}", f64s(&v), f64s(&(sp.clamp)(&v)), (sp.within)(&v));
                } else {
                    let pts = points_for(sp);
                    check_alpha_and_slices(sp, &pts, c, &mut cnt);
                }
            }
            let b = inbits(&case["input"]);
            if float == "f32" {
                go::<f32>(specs_for!(f32), &ty, case, b, c)
            } else {
                go::<f64>(specs_for!(f64), &ty, case, b, c)
            }
        }
    }
}

fn main() {
    pv::main_guard(real_main)
}

fn real_main() -> i32 {
    let (ctx, mode) = Ctx::from_args("C03");
    if let Mode::Replay(rep) = mode {
        let mut c = Collector::new();
        replay(&mut c, &rep);
        return ctx.finish_replay(c);
    }
    let mut total = Collector::new();
    ints::run(&ctx, &mut total);
    intoforms::run(&ctx, &mut total);
    run_types::<f32>(&ctx, &specs_for!(f32), &mut total);
    run_types::<f64>(&ctx, &specs_for!(f64), &mut total);
    let dense = ctx.tier == Tier::Thorough;
    run_graph(&ctx, &pga::d65_f32(), dense, &mut total);
    run_graph(&ctx, &pgb::d65_f64(), dense, &mut total);
    run_graph(&ctx, &pgc::d65cyl_f32(), dense, &mut total);
    run_graph(&ctx, &pgc::d65cyl_f64(), dense, &mut total);
    run_graph(&ctx, &pgd::d50_f32(), dense, &mut total);
    run_graph(&ctx, &pgd::d50_f64(), dense, &mut total);
    run_graph(&ctx, &pgd::dci_f32(), dense, &mut total);
    run_graph(&ctx, &pgd::dci_f64(), dense, &mut total);
    ctx.finish(
        total,
        "model_checking",
        "states = colours of the per-type class-lattice product (each component independently far below / just below / at / inside / at / just above / far above its accessor bound) and (edge, lattice value) pairs; transitions = clamp / clamp_assign / is_within_bounds / from_color / try_from_color / from_color_unclamped calls; traces = contract relations evaluated; non-trivial = colours with at least one component out of bounds",
        &["all comparisons are exact (bitwise; −0 == +0 for a clamped value)", "the bounds are read from the type's own min_*/max_* accessors at run time; CAM16 attributes have the documented lower bound 0", "HWB family: no reference value is imposed on the coupled whiteness/blackness, only what the statement says"],
    )
}
