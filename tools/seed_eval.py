#!/usr/bin/env python3
"""tools/seed_eval.py <Cxx> [--name NAME] [--checks C01,C02] [--tier quick] [--skip-verify]

Takes the seeded change an independent sub-agent left in /tmp/wt-<Cxx>/SEEDED (patch.diff, demo.rs,
meta.json), CONFIRMS it in that scratch worktree (suite still passes with the change; the demo fails
with the change and passes without), stores it as /verif/seeded/<name>/, runs the named checks
against it in isolation (tools/mutant_run.sh: scratch copy of /repo + patch; /repo is never touched)
and records which checks raised a VIOLATION in meta.json.
"""
import json, os, re, shutil, subprocess, sys, time

def sh(cmd, cwd=None, timeout=7200):
    r = subprocess.run(cmd, shell=True, cwd=cwd, capture_output=True, text=True, timeout=timeout)
    return r.returncode, r.stdout + r.stderr

def main():
    a = sys.argv[1:]
    pid = a[0]
    name = pid
    checks = [pid]
    tier = "quick"
    verify = True
    wt_override = None
    i = 1
    while i < len(a):
        if a[i] == "--name": name = a[i+1]; i += 2
        elif a[i] == "--checks": checks = a[i+1].split(","); i += 2
        elif a[i] == "--tier": tier = a[i+1]; i += 2
        elif a[i] == "--skip-verify": verify = False; i += 1
        elif a[i] == "--wt": wt_override = a[i+1]; i += 2
        else: raise SystemExit("bad arg " + a[i])
    wt = wt_override or f"/tmp/wt-{pid}"
    sd = f"{wt}/SEEDED"
    out = f"/verif/seeded/{name}"
    os.makedirs(out, exist_ok=True)
    meta = json.load(open(f"{sd}/meta.json"))
    ran = []
    if verify:
        feats = meta.get("features") or []
        fflag = ("--features " + ",".join(feats)) if feats else ""
        tgt = f"CARGO_TARGET_DIR={wt}/target"
        # state: change applied?  make sure the tree == HEAD + patch
        rc, o = sh("git diff --stat -- palette palette_derive integration_tests codegen | tail -1", cwd=wt)
        if not o.strip():
            rc, o = sh(f"git apply {sd}/patch.diff", cwd=wt)
            if rc: raise SystemExit("patch does not apply: " + o)
        # 1. suite with the change
        rc, o = sh(f"{tgt} cargo test --workspace --no-fail-fast --offline --lib --bins --tests 2>&1 | grep -E '^test result'", cwd=wt)
        passed = sum(int(m.group(1)) for m in re.finditer(r"(\d+) passed", o))
        failed = sum(int(m.group(1)) for m in re.finditer(r"(\d+) failed", o))
        ran.append(f"suite with change: passed={passed} failed={failed}")
        print(ran[-1])
        if passed != 871 or failed != 0:
            print("REJECT: the existing suite does not pass with the change"); meta["confirmed"] = False
            json.dump(meta, open(f"{out}/meta.json", "w"), indent=1); return 1
        # 2. demo with the change must fail
        os.makedirs(f"{wt}/palette/tests", exist_ok=True)
        shutil.copy(f"{sd}/demo.rs", f"{wt}/palette/tests/seeded_demo.rs")
        rc1, o1 = sh(f"{tgt} cargo test -p palette --offline --test seeded_demo {fflag} 2>&1 | grep -E '^test result|panicked|error' | head -5", cwd=wt)
        with_fail = ("FAILED" in o1) or ("panicked" in o1) or ("failed" in o1 and "0 failed" not in o1)
        ran.append("demo with change: " + o1.strip().replace("\n", " | ")[:300])
        print(ran[-1])
        # 3. demo without the change must pass
        os.remove(f"{wt}/palette/tests/seeded_demo.rs")
        rc, o = sh(f"git apply -R {sd}/patch.diff", cwd=wt)
        if rc: raise SystemExit("cannot revert patch: " + o)
        shutil.copy(f"{sd}/demo.rs", f"{wt}/palette/tests/seeded_demo.rs")
        rc2, o2 = sh(f"{tgt} cargo test -p palette --offline --test seeded_demo {fflag} 2>&1 | grep -E '^test result|panicked|error' | head -5", cwd=wt)
        without_ok = "test result: ok" in o2
        ran.append("demo without change: " + o2.strip().replace("\n", " | ")[:300])
        print(ran[-1])
        os.remove(f"{wt}/palette/tests/seeded_demo.rs")
        sh(f"git apply {sd}/patch.diff", cwd=wt)
        meta["confirmed"] = bool(with_fail and without_ok)
        if not meta["confirmed"]:
            print("REJECT: demo does not discriminate")
    shutil.copy(f"{sd}/patch.diff", f"{out}/patch.diff")
    shutil.copy(f"{sd}/demo.rs", f"{out}/demo.rs")
    det = {}
    for c in checks:
        t0 = time.time()
        rc, o = sh(f"MUT_TAIL=3000 /verif/tools/mutant_run.sh {c} {out}/patch.diff {tier}", timeout=7200)
        viol = [l for l in o.splitlines() if l.startswith("VIOLATION")]
        sigs = [l.strip()[:240] for l in o.splitlines() if l.strip().startswith("signature=")]
        det[c] = {"tier": tier, "exit": rc, "detected": rc == 1 and bool(viol), "violation_lines": len(viol), "example": (sigs[0] if sigs else ""), "wall_s": round(time.time() - t0)}
        print(c, det[c])
        ran.append(f"tools/mutant_run.sh {c} seeded/{name}/patch.diff {tier} -> exit {rc}, {len(viol)} VIOLATION lines")
    meta["what_i_ran"] = ran
    meta["detection"] = det
    meta["detected_by"] = [c for c, d in det.items() if d["detected"]]
    json.dump(meta, open(f"{out}/meta.json", "w"), indent=1)
    print("stored", out, "detected_by", meta["detected_by"])
    return 0

if __name__ == "__main__":
    sys.exit(main())
