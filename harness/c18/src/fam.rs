//! Colour families: for every palette colour type that has the struct-of-arrays impls, a way to
//! build `Color<X>` from its component values `X` and to take it apart again by *direct field
//! access* (no palette collection API involved), generic in the component type `X`
//! (`f32`, `Vec<f32>`, `[f32; N]`, `&[f32]`, `&mut [f32]`, `Box<[f32]>`).
use core::marker::PhantomData;
use palette::alpha::Alpha;
use palette::cam16::{Cam16Jch, Cam16Jmh, Cam16Jsh, Cam16Qch, Cam16Qmh, Cam16Qsh, Cam16UcsJab, Cam16UcsJmh};
use palette::encoding::Srgb;
use palette::hues::{Cam16Hue, LabHue, LuvHue, OklabHue, RgbHue};
use palette::lms::matrix::VonKries;
use palette::white_point::D65;

pub trait Fam: 'static {
    /// type name (palette type, "+alpha" when wrapped in Alpha)
    const NAME: &'static str;
    /// number of component collections (hue and alpha included)
    const NC: usize;
    /// index of the hue component in field order, if any
    const HUE: Option<usize>;
    type Of<X>;
    /// build the colour, pulling one value per component in field order (alpha last)
    fn build<X>(p: &mut dyn FnMut() -> X) -> Self::Of<X>;
    /// take the colour apart, feeding one value per component in field order (alpha last)
    fn split<X>(c: Self::Of<X>, f: &mut dyn FnMut(X));
    /// clones of the component vectors, read directly from the fields
    fn bufs(v: &Self::Of<Vec<f32>>) -> Vec<Vec<f32>>;
}

macro_rules! fam {
    // no hue
    ($fam:ident, $name:literal, $of:ident, [$($f:ident),+] $(, $ph:ident)?) => {
        pub struct $fam;
        impl Fam for $fam {
            const NAME: &'static str = $name;
            const NC: usize = [$(stringify!($f)),+].len();
            const HUE: Option<usize> = None;
            type Of<X> = $of<X>;
            fn build<X>(p: &mut dyn FnMut() -> X) -> $of<X> {
                $(let $f = p();)+
                $of { $($f,)+ $($ph: PhantomData,)? }
            }
            fn split<X>(c: $of<X>, f: &mut dyn FnMut(X)) {
                $(f(c.$f);)+
            }
            fn bufs(v: &$of<Vec<f32>>) -> Vec<Vec<f32>> {
                vec![$(v.$f.clone()),+]
            }
        }
    };
    // with hue: `pre` fields, then hue, then `post` fields (declaration order of the struct)
    ($fam:ident, $name:literal, $of:ident, $hue:ident, [$($pre:ident),*] hue [$($post:ident),*] $(, $ph:ident)?) => {
        pub struct $fam;
        impl Fam for $fam {
            const NAME: &'static str = $name;
            const NC: usize = 1 + [$(stringify!($pre),)* $(stringify!($post),)*].len();
            const HUE: Option<usize> = Some({ let a: &[&str] = &[$(stringify!($pre),)*]; a.len() });
            type Of<X> = $of<X>;
            fn build<X>(p: &mut dyn FnMut() -> X) -> $of<X> {
                $(let $pre = p();)*
                let hue = $hue::new(p());
                $(let $post = p();)*
                $of { $($pre,)* hue, $($post,)* $($ph: PhantomData,)? }
            }
            fn split<X>(c: $of<X>, f: &mut dyn FnMut(X)) {
                $(f(c.$pre);)*
                f(c.hue.into_inner());
                $(f(c.$post);)*
            }
            fn bufs(v: &$of<Vec<f32>>) -> Vec<Vec<f32>> {
                // the hue wrapper keeps its collection private: `into_inner` of a clone is the
                // plain accessor (no collection method of the hue type is used)
                vec![$(v.$pre.clone(),)* v.hue.clone().into_inner(), $(v.$post.clone(),)*]
            }
        }
    };
}

pub type RgbOf<X> = palette::rgb::Rgb<Srgb, X>;
pub type LumaOf<X> = palette::luma::Luma<Srgb, X>;
pub type HslOf<X> = palette::Hsl<Srgb, X>;
pub type HsvOf<X> = palette::Hsv<Srgb, X>;
pub type HwbOf<X> = palette::Hwb<Srgb, X>;
pub type LabOf<X> = palette::Lab<D65, X>;
pub type LchOf<X> = palette::Lch<D65, X>;
pub type LuvOf<X> = palette::Luv<D65, X>;
pub type LchuvOf<X> = palette::Lchuv<D65, X>;
pub type HsluvOf<X> = palette::Hsluv<D65, X>;
pub type XyzOf<X> = palette::Xyz<D65, X>;
pub type YxyOf<X> = palette::Yxy<D65, X>;
pub type LmsOf<X> = palette::lms::Lms<VonKries, X>;
pub type OklabOf<X> = palette::Oklab<X>;
pub type OklchOf<X> = palette::Oklch<X>;
pub type OkhslOf<X> = palette::Okhsl<X>;
pub type OkhsvOf<X> = palette::Okhsv<X>;
pub type OkhwbOf<X> = palette::Okhwb<X>;
pub type UcsJabOf<X> = Cam16UcsJab<X>;
pub type UcsJmhOf<X> = Cam16UcsJmh<X>;
pub type JchOf<X> = Cam16Jch<X>;
pub type JmhOf<X> = Cam16Jmh<X>;
pub type JshOf<X> = Cam16Jsh<X>;
pub type QchOf<X> = Cam16Qch<X>;
pub type QmhOf<X> = Cam16Qmh<X>;
pub type QshOf<X> = Cam16Qsh<X>;

fam!(FRgb, "Rgb", RgbOf, [red, green, blue], standard);
fam!(FLuma, "Luma", LumaOf, [luma], standard);
fam!(FHsl, "Hsl", HslOf, RgbHue, [] hue [saturation, lightness], standard);
fam!(FHsv, "Hsv", HsvOf, RgbHue, [] hue [saturation, value], standard);
fam!(FHwb, "Hwb", HwbOf, RgbHue, [] hue [whiteness, blackness], standard);
fam!(FLab, "Lab", LabOf, [l, a, b], white_point);
fam!(FLch, "Lch", LchOf, LabHue, [l, chroma] hue [], white_point);
fam!(FLuv, "Luv", LuvOf, [l, u, v], white_point);
fam!(FLchuv, "Lchuv", LchuvOf, LuvHue, [l, chroma] hue [], white_point);
fam!(FHsluv, "Hsluv", HsluvOf, LuvHue, [] hue [saturation, l], white_point);
fam!(FXyz, "Xyz", XyzOf, [x, y, z], white_point);
fam!(FYxy, "Yxy", YxyOf, [x, y, luma], white_point);
fam!(FLms, "Lms", LmsOf, [long, medium, short], meta);
fam!(FOklab, "Oklab", OklabOf, [l, a, b]);
fam!(FOklch, "Oklch", OklchOf, OklabHue, [l, chroma] hue []);
fam!(FOkhsl, "Okhsl", OkhslOf, OklabHue, [] hue [saturation, lightness]);
fam!(FOkhsv, "Okhsv", OkhsvOf, OklabHue, [] hue [saturation, value]);
fam!(FOkhwb, "Okhwb", OkhwbOf, OklabHue, [] hue [whiteness, blackness]);
fam!(FUcsJab, "Cam16UcsJab", UcsJabOf, [lightness, a, b]);
fam!(FUcsJmh, "Cam16UcsJmh", UcsJmhOf, Cam16Hue, [lightness, colorfulness] hue []);
fam!(FJch, "Cam16Jch", JchOf, Cam16Hue, [lightness, chroma] hue []);
fam!(FJmh, "Cam16Jmh", JmhOf, Cam16Hue, [lightness, colorfulness] hue []);
fam!(FJsh, "Cam16Jsh", JshOf, Cam16Hue, [lightness, saturation] hue []);
fam!(FQch, "Cam16Qch", QchOf, Cam16Hue, [brightness, chroma] hue []);
fam!(FQmh, "Cam16Qmh", QmhOf, Cam16Hue, [brightness, colorfulness] hue []);
fam!(FQsh, "Cam16Qsh", QshOf, Cam16Hue, [brightness, saturation] hue []);

/// `Alpha<Color<X>, X>`: the alpha collection is one more component, last in order.
pub struct WithAlpha<F: Fam>(PhantomData<F>);
impl<F: Fam> Fam for WithAlpha<F> {
    const NAME: &'static str = F::NAME; // the Cfg adds "+alpha"
    const NC: usize = F::NC + 1;
    const HUE: Option<usize> = F::HUE;
    type Of<X> = Alpha<F::Of<X>, X>;
    fn build<X>(p: &mut dyn FnMut() -> X) -> Self::Of<X> {
        let color = F::build(p);
        let alpha = p();
        Alpha { color, alpha }
    }
    fn split<X>(c: Self::Of<X>, f: &mut dyn FnMut(X)) {
        F::split(c.color, f);
        f(c.alpha);
    }
    fn bufs(v: &Self::Of<Vec<f32>>) -> Vec<Vec<f32>> {
        let mut b = F::bufs(&v.color);
        b.push(v.alpha.clone());
        b
    }
}
