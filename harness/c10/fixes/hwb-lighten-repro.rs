use palette::{Darken, Hwb, IsWithinBounds, Lighten, Okhwb};
fn main() {
    let c = Hwb::new_srgb(10.0f32, 0.8, 0.1);
    let l = c.lighten_fixed(0.5); // documented: "Lighten the color by amount, a value ranging from 0.0 to 1.0"
    println!("{:?} in bounds: {}", l, l.is_within_bounds()); // whiteness 1.3 > max_whiteness() = 1.0
    let d = Hwb::new_srgb(10.0f32, 0.1, 0.8).darken_fixed(0.5);
    println!("{:?} in bounds: {}", d, d.is_within_bounds()); // blackness 1.3 > max_blackness() = 1.0
    let o = Okhwb::new(10.0f64, 0.8, 0.1).lighten_fixed(0.5);
    println!("{:?} in bounds: {}", o, o.is_within_bounds());
    assert!(l.whiteness <= Hwb::<palette::encoding::Srgb, f32>::max_whiteness(), "lighten_fixed left the range");
}
