fn main() {
    eprintln!("C01: check not built yet");
    std::process::exit(3);
}
