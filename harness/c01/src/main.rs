//! C01 — conversions invert and commute: path search over the compiler-discovered conversion
//! graph (E3). For every node A, every in-range lattice value of A (plus the images of an
//! RGB grid) and every target B that can represent the colour: cycles A→B→A return the original
//! colour, the direct edge A→B agrees with every stepwise path A→M→B (and A→M1→M2→B in the
//! thorough tier), and attaching alpha changes nothing (bitwise).
use pg::{Graph, Kind};
use pv::fl::Fl;
use pv::refmodel::{max_abs_diff, V3};
use pv::{json, Collector, Ctx, Mode, Tier, Value};

mod assembled;

fn to64<T: Fl>(v: [T; 3]) -> V3 {
    [v[0].to64(), v[1].to64(), v[2].to64()]
}
fn hex<T: Fl>(v: &[T]) -> Vec<String> {
    v.iter().map(|x| format!("{:#x}", x.bits64())).collect()
}
fn bits3<T: Fl>(v: [T; 3]) -> [u64; 3] {
    [v[0].bits64(), v[1].bits64(), v[2].bits64()]
}

/// tolerance on ‖ΔXYZ‖∞ (white = 1) between two descriptions of the same colour.
/// f64: the published 7-digit matrices / white points and their hard-coded inverses limit any
/// implementation to ≈ 5e-7·cond; f32: K·2^-24 with K the length of the longest path times the
/// worst elementary amplification. Both ≥ 8× what rounding produces on the pinned tree (see the
/// max_err_over_tol values in the evidence) and ≤ 1/10 of the smallest seeded bug effect (1e-3).
fn tol<T: Fl>() -> f64 {
    let scale = 1.0;
    if T::NAME == "f32" {
        1.0e-4 * scale
    } else {
        4.0e-6 * scale
    }
}
/// Okhsl/Okhsv/Okhwb amplify single-precision rounding far more than any other node: next to
/// white and black the chroma is a ratio of two vanishing quantities (C / C_max with the toe
/// function on top), measured at 2.1e-4 for white in f32 on the pinned tree against ≤ 2e-5 for
/// every other node. Paths through them get 10× the f32 tolerance (still ≥ 1 order below a
/// wrong constant or branch, which moves colours by ≥ 1e-2 there). f64 is not widened.
/// The CIE / Ok family without RGB: conversions among XYZ, xyY, L*a*b*, LCh(ab), Oklab, Oklch, Okhsl,
/// Okhsv, Okhwb use only the white point, exact formulas and the Oklab matrices, which are published
/// (and stored) with their inverses to >= 10 digits — none of the 7-digit RGB matrices that set the
/// general f64 tolerance. In f64 such paths are held to 1e-9 (measured on the unchanged tree: every
/// cycle among them <= 1e-10 on the dense lattice).
fn exact_family(k: &Kind) -> bool {
    matches!(k, Kind::Xyz(_) | Kind::Yxy(_) | Kind::Lab(_) | Kind::Lch(_) | Kind::Oklab | Kind::Oklch | Kind::Okhsl | Kind::Okhsv | Kind::Okhwb)
}
fn tol_path<T: Fl>(path: &[&Kind]) -> f64 {
    if T::NAME == "f64" && path.iter().all(|k| exact_family(k)) {
        return 1.0e-9;
    }
    if T::NAME == "f32" && path.iter().any(|k| is_ok_cyl(k)) {
        10.0 * tol::<T>()
    } else {
        tol::<T>()
    }
}

fn kind_class(err: f64) -> &'static str {
    if err.is_nan() {
        "NaN"
    } else if err.is_infinite() {
        "inf"
    } else {
        "finite-off"
    }
}

fn is_ok_cyl(k: &Kind) -> bool {
    matches!(k, Kind::Okhsl | Kind::Okhsv | Kind::Okhwb)
}
fn is_ok_family(k: &Kind) -> bool {
    matches!(k, Kind::Oklab | Kind::Oklch | Kind::Okhsl | Kind::Okhsv | Kind::Okhwb)
}
/// types whose RGB space is `Srgb` (sRGB primaries + D65): the ones for which palette uses
/// Ottosson's direct linear-sRGB <-> Oklab matrices instead of the route through XYZ
fn is_srgb_space(k: &Kind) -> bool {
    match k {
        Kind::Rgb(s) | Kind::Hsl(s) | Kind::Hsv(s) | Kind::Hwb(s) => s.prim == pv::refmodel::rgb::SRGB.prim && s.wp == pv::refmodel::cie::Wp::D65,
        _ => false,
    }
}
/// +1 when the edge x -> y enters the Ok family from an sRGB-space type (direct matrices), −1
/// when it leaves the Ok family towards one; 0 for every other edge (XYZ route or no Ok type).
fn direct_step(x: &Kind, y: &Kind) -> i32 {
    if is_ok_family(y) && is_srgb_space(x) {
        1
    } else if is_ok_family(x) && is_srgb_space(y) {
        -1
    } else {
        0
    }
}
/// Net number of uses of the direct sRGB<->Oklab matrices along a path (enter − exit). A luma
/// node projects onto the grey axis and thereby erases whatever offset was picked up before it.
fn direct_net(path: &[&Kind]) -> i32 {
    let mut net = 0;
    for w in path.windows(2) {
        if w[0].is_luma() {
            net = 0;
        }
        net += direct_step(w[0], w[1]);
    }
    net
}
/// Input class of a violation (part of its signature, DESIGN.md §3.6):
/// * `@ok-blue-cusp`: an Okhsl/Okhsv/Okhwb node is on the path and the colour's Oklab hue is
///   within 0.01° of the sRGB blue primary (264.052°), where the published max-saturation
///   approximation is discontinuous;
/// * `@okcyl-near-white`: an Okhsl/Okhsv/Okhwb node on the path and Oklab lightness ≥ 0.95:
///   saturation is a ratio of two quantities that vanish at white. In f32 rounding alone loses
///   them (error grows without bound towards white); in f64 a colour that reaches Okhsl through
///   the XYZ route (M1) lies, by the 2.3e-4 inconsistency with the direct matrices that define
///   Okhsl's gamut, *outside* that gamut next to white, where the published saturation formula
///   has a pole (saturation −4 for a colour 3e-4 from white) and is no longer invertible;
/// * `@oklab-direct-vs-xyz` (`+okcyl` with an Okhsl/Okhsv/Okhwb node on the path): the two
///   compared paths use the direct sRGB<->Oklab matrices a different net number of times (the
///   published direct matrices and M1 are inconsistent at 2.3e-4);
/// * ``: everything else.
fn input_class(path: &[&Kind], xyz_ref: V3, triangle: bool, f32_: bool) -> &'static str {
    let okcyl = path.iter().any(|k| is_ok_cyl(k));
    if okcyl {
        let lab = pv::refmodel::ok::xyz_to_oklab(xyz_ref);
        let h = lab[2].atan2(lab[1]).to_degrees().rem_euclid(360.0);
        let c = (lab[1] * lab[1] + lab[2] * lab[2]).sqrt();
        if c > 1e-6 && (h - 264.0520206).abs() < 0.01 {
            return "@ok-blue-cusp";
        }
        let _ = f32_;
        if lab[0] >= 0.95 {
            return "@okcyl-near-white";
        }
    }
    if triangle && path.len() >= 3 {
        let direct = direct_net(&[path[0], path[path.len() - 1]]);
        if direct != direct_net(path) {
            return if okcyl { "@oklab-direct-vs-xyz+okcyl" } else { "@oklab-direct-vs-xyz" };
        }
    }
    ""
}

struct Cfg {
    dense: bool,
    grid: usize,
    path3: bool,
    alpha: bool,
}

fn grid_spec(g: &str) -> pv::refmodel::rgb::RgbSpec {
    use pv::refmodel::rgb as R;
    match g {
        "D50" => R::PROPHOTO,
        "DCI" => R::DCI_P3,
        _ => R::SRGB,
    }
}

/// the value set of a source node: its in-range lattice ∪ reference images of the RGB grid
fn values_for<T: Fl>(g: &Graph<T>, a: usize, cfg: &Cfg) -> Vec<[T; 3]> {
    let kind = g.nodes[a].kind;
    let mut vals: Vec<V3> = kind.lattice(cfg.dense);
    let spec = grid_spec(g.name);
    for xyz in pv::colorkind::srgb_grid_xyz(cfg.grid, &spec) {
        if kind.can_represent(xyz, 0.0) {
            let img = kind.from_xyz(xyz);
            if img.iter().all(|x| x.is_finite()) {
                vals.push(img);
            }
        }
    }
    let mut out: Vec<[T; 3]> = vals.into_iter().map(|v| [T::from64(v[0]), T::from64(v[1]), T::from64(v[2])]).collect();
    out.sort_by_key(|v| bits3(*v));
    out.dedup_by_key(|v| bits3(*v));
    out
}

fn call3<T: Fl>(f: pg::F3<T>, v: [T; 3]) -> Result<[T; 3], String> {
    pv::catch(|| f(v))
}

/// ‖ΔXYZ‖∞ of two values of node kind `k` (NaN if either is non-finite in the reference map)
fn dist(k: &Kind, a: V3, b_xyz: V3) -> f64 {
    let ax = k.to_xyz(a);
    max_abs_diff(ax, b_xyz)
}

#[allow(clippy::too_many_arguments)]
fn explore_value<T: Fl>(g: &Graph<T>, cfg: &Cfg, a: usize, v: [T; 3], c: &mut Collector, cnt: &mut [u64; 4]) {
    let n = g.n();
    let ka = g.nodes[a].kind;
    let v64 = to64(v);
    let xyz_ref = ka.to_xyz(v64);
    // the source itself must be a real colour that its own type represents well (e.g. no CIELUV
    // value whose chromaticity lies far outside the spectral locus)
    if !pv::colorkind::plausible(xyz_ref) || !(ka.can_represent(xyz_ref, 1e-7) || ka.is_luma()) {
        return;
    }
    cnt[0] += 1;
    // a grey / achromatic value may pass through luma
    let grey_ok = |k: &Kind| -> bool { k.can_represent(xyz_ref, 1e-9) };
    let repr: Vec<bool> = (0..n).map(|b| g.nodes[b].kind.can_represent(xyz_ref, 1e-7)).collect();
    // direct results
    let mut direct: Vec<Option<Result<[T; 3], String>>> = vec![None; n];
    for b in 0..n {
        if let Some(f) = g.unc[a][b] {
            if repr[b] || g.nodes[b].kind.is_luma() {
                direct[b] = Some(call3(f, v));
                cnt[1] += 1;
            }
        }
    }
    let name = |i: usize| g.nodes[i].name;
    let sigbase = |check: &str, a: usize, b: usize, cls: &str| format!("C01/{}/{}/{}/{}->{}/{}", check, g.name, T::NAME, name(a), name(b), cls);
    let mkcase = |sub: &str, path: &[usize], obs: Value, exp: Value| -> Value {
        json!({"sub": sub, "group": g.name, "float": T::NAME, "path": path.iter().map(|&i| name(i)).collect::<Vec<_>>(), "input": hex(&v), "value": v64, "observed": obs, "expected": exp})
    };
    // WithAlpha: attaching, replacing and dropping alpha never touches the colour
    if cfg.alpha {
        if let Some(f) = g.wa[a] {
            let (al, bl) = (T::from64(0.3), T::from64(0.8));
            cnt[1] += 1;
            cnt[2] += 1;
            match pv::catch(|| f(v, al, bl)) {
                Ok(r) => {
                    let want_alpha = [al, al, T::from64(1.0), T::from64(0.0), bl, bl];
                    let names = ["with_alpha.split", "with_alpha.without_alpha", "opaque.split", "transparent.split", "with_alpha.with_alpha.split", "plain"];
                    for i in 0..5 {
                        let same = (0..3).all(|k| r[i][k].bits64() == r[5][k].bits64()) && r[i][3].bits64() == want_alpha[i].bits64();
                        if !same {
                            c.violation(&sigbase("with-alpha", a, a, names[i]), 1.0, || mkcase("with-alpha", &[a], json!({"op": names[i], "result": [r[i][0].to64(), r[i][1].to64(), r[i][2].to64(), r[i][3].to64()]}), json!({"color": [r[5][0].to64(), r[5][1].to64(), r[5][2].to64()], "alpha": want_alpha[i].to64()})));
                        }
                    }
                }
                Err(msg) => c.violation(&sigbase("with-alpha", a, a, "panic"), 1.0, || mkcase("with-alpha", &[a], json!({"panic": msg}), json!("no panic"))),
            }
        }
    }
    for b in 0..n {
        let Some(db) = &direct[b] else { continue };
        let kb = g.nodes[b].kind;
        let db = match db {
            Ok(x) => *x,
            Err(msg) => {
                if repr[b] {
                    c.violation(&sigbase("edge-panic", a, b, "panic"), 1.0, || mkcase("edge", &[a, b], json!({"panic": msg}), json!("no panic")));
                }
                continue;
            }
        };
        let xyz_direct = kb.to_xyz(to64(db));
        // (i) cycle A -> B -> A (never through luma unless the colour is achromatic)
        if b != a && repr[b] && (!kb.is_luma() || grey_ok(&kb)) {
            if let Some(fback) = g.unc[b][a] {
                cnt[1] += 1;
                cnt[2] += 1;
                match call3(fback, db) {
                    Err(msg) => c.violation(&sigbase("cycle", a, b, "panic"), 1.0, || mkcase("cycle", &[a, b, a], json!({"panic": msg}), json!("no panic"))),
                    Ok(back) => {
                        let e = dist(&ka, to64(back), xyz_ref);
                        let t = tol_path::<T>(&[&ka, &kb]);
                        if e <= t {
                            c.ratio("cycle", e / t, || mkcase("cycle", &[a, b, a], json!({"back": to64(back), "err": pv::report::fnum(e)}), json!(v64)));
                        }
                        if !(e <= t) {
                            let cls = format!("{}{}", kind_class(e), input_class(&[&ka, &kb, &ka], xyz_ref, false, T::NAME == "f32"));
                            c.violation(&sigbase("cycle", a, b, &cls), e, || mkcase("cycle", &[a, b, a], json!({"via": to64(db), "back": to64(back), "dxyz": pv::report::fnum(e)}), json!({"back": v64, "tol": t})));
                        }
                        c.outcome(pv::fnv(format!("{:?}", bits3(back)).as_bytes()));
                    }
                }
            }
        }
        if !(repr[b] || (kb.is_luma())) {
            continue;
        }
        // (ii) triangles A -> M -> B versus the direct edge
        for m in 0..n {
            if m == a || m == b || !repr[m] {
                continue;
            }
            let km = g.nodes[m].kind;
            if km.is_luma() && !grey_ok(&km) {
                continue;
            }
            let (Some(Ok(dm)), Some(fmb)) = (&direct[m], g.unc[m][b]) else { continue };
            cnt[1] += 1;
            cnt[2] += 1;
            match call3(fmb, *dm) {
                Err(msg) => c.violation(&sigbase("triangle", a, b, "panic"), 1.0, || mkcase("triangle", &[a, m, b], json!({"panic": msg}), json!("no panic"))),
                Ok(via) => {
                    let e = dist(&kb, to64(via), xyz_direct);
                    let t = tol_path::<T>(&[&ka, &km, &kb]);
                    if e <= t {
                        c.ratio("triangle", e / t, || mkcase("triangle", &[a, m, b], json!({"via": to64(via), "direct": to64(db), "err": pv::report::fnum(e)}), json!(null)));
                    }
                    if !(e <= t) {
                        let cls = format!("{}{}", kind_class(e), input_class(&[&ka, &km, &kb], xyz_ref, true, T::NAME == "f32"));
                        c.violation(&sigbase("triangle", a, b, &cls), e, || mkcase("triangle", &[a, m, b], json!({"stepwise": to64(via), "dxyz": pv::report::fnum(e)}), json!({"direct": to64(db), "tol": t})));
                    }
                    // (iii) paths of length 3: A -> M -> M2 -> B
                    if cfg.path3 {
                        for m2 in 0..n {
                            if m2 == a || m2 == b || m2 == m || !repr[m2] {
                                continue;
                            }
                            let km2 = g.nodes[m2].kind;
                            if km2.is_luma() && !grey_ok(&km2) {
                                continue;
                            }
                            let (Some(fmm2), Some(fm2b)) = (g.unc[m][m2], g.unc[m2][b]) else { continue };
                            cnt[1] += 2;
                            cnt[2] += 1;
                            let r = call3(fmm2, *dm).and_then(|x| call3(fm2b, x));
                            match r {
                                Err(msg) => c.violation(&sigbase("path3", a, b, "panic"), 1.0, || mkcase("path3", &[a, m, m2, b], json!({"panic": msg}), json!("no panic"))),
                                Ok(via3) => {
                                    let e = dist(&kb, to64(via3), xyz_direct);
                                    let t = tol_path::<T>(&[&ka, &km, &km2, &kb]);
                                    if e <= 1.5 * t {
                                        c.ratio("path3", e / (1.5 * t), || mkcase("path3", &[a, m, m2, b], json!({"err": pv::report::fnum(e)}), json!(null)));
                                    }
                                    if !(e <= 1.5 * t) {
                                        let cls = format!("{}{}", kind_class(e), input_class(&[&ka, &km, &km2, &kb], xyz_ref, true, T::NAME == "f32"));
                                        c.violation(&sigbase("path3", a, b, &cls), e, || mkcase("path3", &[a, m, m2, b], json!({"stepwise": to64(via3), "dxyz": pv::report::fnum(e)}), json!({"direct": to64(db), "tol": 1.5 * t})));
                                    }
                                }
                            }
                        }
                    }
                }
            }
        }
        // alpha: bitwise identical colour, alpha untouched / max / dropped
        if cfg.alpha && repr[b] {
            let one = T::from64(1.0);
            for alpha in [T::from64(0.0), T::from64(0.25), one, T::from64(0.1)] {
                let v4 = [v[0], v[1], v[2], alpha];
                if let Some(f) = g.aa[a][b] {
                    cnt[1] += 1;
                    cnt[2] += 1;
                    match pv::catch(|| f(v4)) {
                        Ok(r) => {
                            if bits3([r[0], r[1], r[2]]) != bits3(db) || r[3].bits64() != alpha.bits64() {
                                c.violation(&sigbase("alpha-alpha", a, b, "bits"), 1.0, || mkcase("alpha-aa", &[a, b], json!({"result": [r[0].to64(), r[1].to64(), r[2].to64(), r[3].to64()], "alpha_in": alpha.to64()}), json!({"color": to64(db), "alpha": alpha.to64()})));
                            }
                        }
                        Err(msg) => c.violation(&sigbase("alpha-alpha", a, b, "panic"), 1.0, || mkcase("alpha-aa", &[a, b], json!({"panic": msg}), json!("no panic"))),
                    }
                }
                if let Some(f) = g.ap[a][b] {
                    cnt[1] += 1;
                    cnt[2] += 1;
                    match pv::catch(|| f(v4)) {
                        Ok(r) => {
                            if bits3(r) != bits3(db) {
                                c.violation(&sigbase("alpha-plain", a, b, "bits"), 1.0, || mkcase("alpha-ap", &[a, b], json!({"result": to64(r), "alpha_in": alpha.to64()}), json!({"color": to64(db)})));
                            }
                        }
                        Err(msg) => c.violation(&sigbase("alpha-plain", a, b, "panic"), 1.0, || mkcase("alpha-ap", &[a, b], json!({"panic": msg}), json!("no panic"))),
                    }
                }
            }
            if let Some(f) = g.pa[a][b] {
                cnt[1] += 1;
                cnt[2] += 1;
                match pv::catch(|| f(v)) {
                    Ok(r) => {
                        if bits3([r[0], r[1], r[2]]) != bits3(db) || r[3].bits64() != one.bits64() {
                            c.violation(&sigbase("plain-alpha", a, b, "bits"), 1.0, || mkcase("alpha-pa", &[a, b], json!({"result": [r[0].to64(), r[1].to64(), r[2].to64(), r[3].to64()]}), json!({"color": to64(db), "alpha": 1.0})));
                        }
                    }
                    Err(msg) => c.violation(&sigbase("plain-alpha", a, b, "panic"), 1.0, || mkcase("alpha-pa", &[a, b], json!({"panic": msg}), json!("no panic"))),
                }
            }
        }
    }
}

/// Collection forms of the unclamped conversion (`Vec<_>` and `Box<[_]>`): element for element the same
/// colour as the single conversion, so every clause of the property carries over to them.
fn check_buffers<T: Fl>(g: &Graph<T>, a: usize, b: usize, chunk: &[[T; 3]], c: &mut Collector, cnt: &mut [u64; 4]) {
    let (Some(unc), Some(buf)) = (g.unc[a][b], g.buf[a][b]) else { return };
    let Ok(outs) = pv::catch(|| buf(chunk)) else { return };
    for (k, name) in [(2usize, "Vec::from_color_unclamped"), (3, "Box<[_]>::from_color_unclamped")] {
        cnt[1] += chunk.len() as u64;
        let out = &outs[k];
        let sig = format!("C01/buffer-form/{}/{}/{}->{}/{}", g.name, T::NAME, g.nodes[a].name, g.nodes[b].name, if k == 2 { "vec" } else { "box" });
        let case = |v: &[T; 3], obs: Value, exp: Value| json!({"sub": "buffer-form", "group": g.name, "float": T::NAME, "path": [g.nodes[a].name, g.nodes[b].name], "what": name, "input": hex(v), "value": to64(*v), "observed": obs, "expected": exp});
        if out.len() != chunk.len() {
            c.violation(&sig, 1.0, || case(&chunk[0], json!({"len": out.len()}), json!({"len": chunk.len()})));
            continue;
        }
        for (i, v) in chunk.iter().enumerate() {
            let Ok(u) = call3(unc, *v) else { continue };
            if !u.iter().all(|x| x.finite()) {
                continue;
            }
            cnt[2] += 1;
            if bits3(out[i]) != bits3(u) {
                c.violation(&sig, 1.0, || case(v, json!(to64(out[i])), json!(to64(u))));
            }
        }
    }
}

fn run_graph<T: Fl>(ctx: &Ctx, g: &Graph<T>, cfg: &Cfg, total: &mut Collector) {
    let sub = format!("graph/{}/{}", g.name, T::NAME);
    if !ctx.wants(&sub) {
        return;
    }
    let n = g.n();
    // work items: (node, chunk of its values)
    let vals: Vec<Vec<[T; 3]>> = (0..n).map(|a| values_for(g, a, cfg)).collect();
    let mut items: Vec<(usize, usize, usize)> = vec![];
    for a in 0..n {
        let per = 64;
        let mut i = 0;
        while i < vals[a].len() {
            items.push((a, i, (i + per).min(vals[a].len())));
            i += per;
        }
    }
    let items_ref = &items;
    let vals_ref = &vals;
    let cc = pv::par::run_chunks(items.len(), |ci, c| {
        let (a, lo, hi) = items_ref[ci];
        let mut cnt = [0u64; 4];
        for i in lo..hi {
            let v = vals_ref[a][i];
            explore_value(g, cfg, a, v, c, &mut cnt);
            c.sample(pv::splitmix((ci as u64) << 20 | i as u64), || json!({"group": g.name, "float": T::NAME, "node": g.nodes[a].name, "value": to64(v)}));
        }
        if cfg.alpha {
            for b in 0..n {
                check_buffers(g, a, b, &vals_ref[a][lo..hi], c, &mut cnt);
            }
        }
        c.add(&sub, cnt[0], cnt[1], cnt[2], cnt[0]);
    });
    total.merge(cc);
    total.exhaustive(
        &sub,
        true,
        &format!(
            "{} nodes, {} discovered edges; every lattice value ({}) ∪ {}^3 RGB-grid images per node; all cycles of length 2, all triangles{}{}",
            n,
            g.edge_count(),
            if cfg.dense { "dense" } else { "coarse" },
            cfg.grid,
            if cfg.path3 { ", all simple paths of length 3" } else { "" },
            if cfg.alpha { ", alpha forms and Vec / Box<[_]> forms of every edge" } else { "" }
        ),
    );
    total.note(&format!("adjacency/{}/{}", g.name, T::NAME), json!(g.adjacency_text().lines().collect::<Vec<_>>()));
    total.note(&format!("edges/{}/{}", g.name, T::NAME), json!(g.edge_count()));
}

/// compare the discovered adjacency with the committed expectation (coverage change, not verdict)
fn check_expected_edges(total: &mut Collector, text: &str) {
    let path = std::path::Path::new(env!("CARGO_MANIFEST_DIR")).join("expected_edges.txt");
    // sections "# <group> <float>" -> rows; only the graphs of this run are compared
    let sections = |t: &str| -> std::collections::BTreeMap<String, String> {
        let mut m = std::collections::BTreeMap::new();
        let mut cur = String::new();
        for l in t.lines() {
            if let Some(h) = l.strip_prefix("# ") {
                cur = h.to_string();
                m.insert(cur.clone(), String::new());
            } else if let Some(b) = m.get_mut(&cur) {
                b.push_str(l.trim_end());
                b.push('\n');
            }
        }
        m
    };
    match std::fs::read_to_string(&path) {
        Ok(exp) => {
            let e = sections(&exp);
            for (k, body) in sections(text) {
                match e.get(&k) {
                    Some(b) if *b == body => {}
                    Some(_) => total.warn(format!("discovered conversion-edge matrix of graph '{k}' differs from c01/expected_edges.txt (coverage change)")),
                    None => total.warn(format!("graph '{k}' has no section in c01/expected_edges.txt")),
                }
            }
        }
        Err(_) => total.warn("c01/expected_edges.txt missing".to_string()),
    }
    if std::env::var("C01_WRITE_EDGES").is_ok() {
        let _ = std::fs::write(&path, text);
    }
}

macro_rules! with_graph {
    ($group:expr, $float:expr, |$g:ident| $body:expr) => {
        match ($group, $float) {
            ("D65-core", "f32") => { let $g = pga::d65_f32(); $body }
            ("D65-core", "f64") => { let $g = pgb::d65_f64(); $body }
            ("D65-cylindrical", "f32") => { let $g = pgc::d65cyl_f32(); $body }
            ("D65-cylindrical", "f64") => { let $g = pgc::d65cyl_f64(); $body }
            ("D50", "f32") => { let $g = pgd::d50_f32(); $body }
            ("D50", "f64") => { let $g = pgd::d50_f64(); $body }
            ("DCI", "f32") => { let $g = pgd::dci_f32(); $body }
            ("DCI", "f64") => { let $g = pgd::dci_f64(); $body }
            ("A", "f32") => { let $g = pgd::a_f32(); $body }
            ("A", "f64") => { let $g = pgd::a_f64(); $body }
            ("E", "f32") => { let $g = pgd::e_f32(); $body }
            ("E", "f64") => { let $g = pgd::e_f64(); $body }
            ("D55", "f64") => { let $g = pgd::d55_f64(); $body }
            ("D75", "f64") => { let $g = pgd::d75_f64(); $body }
            ("C", "f64") => { let $g = pgd::c_f64(); $body }
            ("B", "f64") => { let $g = pgd::b_f64(); $body }
            ("F2", "f64") => { let $g = pgd::f2_f64(); $body }
            ("F7", "f64") => { let $g = pgd::f7_f64(); $body }
            ("F11", "f64") => { let $g = pgd::f11_f64(); $body }
            (g, f) => { eprintln!("unknown graph {g}/{f}"); std::process::exit(3) }
        }
    };
}

fn replay(c: &mut Collector, rep: &Value) {
    let case = &rep["case"];
    if case["sub"] == "assembled" {
        // small space: the sub-check is re-run and only the replayed signature kept
        let ctx = Ctx { only: Some("assembled-standards".into()), ..Ctx::from_args("C01").0 };
        let mut all = Collector::new();
        assembled::run(&ctx, &mut all);
        let want = rep["signature"].as_str().unwrap_or("").to_string();
        all.viol.retain(|k, _| *k == want);
        c.merge(all);
        return;
    }
    let group = case["group"].as_str().unwrap_or("").to_string();
    let float = case["float"].as_str().unwrap_or("").to_string();
    let path: Vec<String> = case["path"].as_array().map(|a| a.iter().map(|x| x.as_str().unwrap_or("").to_string()).collect()).unwrap_or_default();
    let bits: Vec<u64> = case["input"].as_array().map(|a| a.iter().map(|x| u64::from_str_radix(x.as_str().unwrap_or("0").trim_start_matches("0x"), 16).unwrap_or(0)).collect()).unwrap_or_default();
    let cfg = Cfg { dense: false, grid: 2, path3: true, alpha: true };
    fn go<T: Fl>(g: &Graph<T>, cfg: &Cfg, path: &[String], bits: &[u64], c: &mut Collector) {
        let a = g.index(&path[0]).expect("node");
        let v = [T::from_bits64(bits[0]), T::from_bits64(bits[1]), T::from_bits64(bits[2])];
        let mut cnt = [0u64; 4];
        let mut all = Collector::new();
        explore_value(g, cfg, a, v, &mut all, &mut cnt);
        if let Some(b) = path.get(1).and_then(|p| g.index(p)) {
            check_buffers(g, a, b, &[v], &mut all, &mut cnt);
        }
        // keep only violations that concern the replayed pair
        let b = path.last().map(|s| s.as_str()).unwrap_or("");
        let b = if path.len() >= 3 && path[0] == *path.last().unwrap() { path[1].as_str() } else { b };
        let needle = format!("/{}->{}/", path[0], b);
        for (sig, v) in all.viol {
            if sig.contains(&needle) {
                println!("  {} magnitude={:e} {}", sig, v.magnitude, pv::report::compact(&v.first));
                c.viol.insert(sig, v);
            }
        }
    }
    with_graph!(group.as_str(), float.as_str(), |g| go(&g, &cfg, &path, &bits, c));
}

fn main() {
    pv::main_guard(real_main)
}

fn real_main() -> i32 {
    let (ctx, mode) = Ctx::from_args("C01");
    if let Mode::Replay(rep) = mode {
        let mut c = Collector::new();
        replay(&mut c, &rep);
        return ctx.finish_replay(c);
    }
    let mut total = Collector::new();
    let quick = ctx.tier == Tier::Quick;
    let main_cfg = Cfg { dense: !quick, grid: if quick { 6 } else { 9 }, path3: false, alpha: true };
    let small_cfg = Cfg { dense: !quick, grid: if quick { 6 } else { 9 }, path3: true, alpha: true };
    // all simple paths of length 3 in the big D65 graph, on the coarse value set (thorough only)
    let p3_cfg = Cfg { dense: false, grid: 3, path3: true, alpha: false };
    let mut adjacency = String::new();
    macro_rules! run {
        ($g:expr, $cfg:expr) => {{
            let g = $g;
            let hdr = format!("# {} {}\n", g.name, g.float);
            if !adjacency.contains(&hdr) {
                adjacency.push_str(&format!("{}{}", hdr, g.adjacency_text()));
            }
            run_graph(&ctx, &g, $cfg, &mut total);
        }};
    }
    run!(pga::d65_f32(), &main_cfg);
    run!(pgb::d65_f64(), &main_cfg);
    run!(pgc::d65cyl_f32(), &main_cfg);
    run!(pgc::d65cyl_f64(), &main_cfg);
    run!(pgd::d50_f32(), &small_cfg);
    run!(pgd::d50_f64(), &small_cfg);
    run!(pgd::dci_f32(), &small_cfg);
    run!(pgd::dci_f64(), &small_cfg);
    run!(pgd::a_f64(), &small_cfg);
    run!(pgd::e_f32(), &small_cfg);
    if !quick {
        run!(pgd::a_f32(), &small_cfg);
        run!(pgd::e_f64(), &small_cfg);
        run!(pgd::d55_f64(), &small_cfg);
        run!(pgd::d75_f64(), &small_cfg);
        run!(pgd::c_f64(), &small_cfg);
        run!(pgd::b_f64(), &small_cfg);
        run!(pgd::f2_f64(), &small_cfg);
        run!(pgd::f7_f64(), &small_cfg);
        run!(pgd::f11_f64(), &small_cfg);
        let mut p3 = Collector::new();
        run_graph(&ctx, &pga::d65_f32(), &p3_cfg, &mut p3);
        run_graph(&ctx, &pgb::d65_f64(), &p3_cfg, &mut p3);
        // keep the path-3 pass under its own sub-check names
        for (k, v) in std::mem::take(&mut p3.sub) {
            p3.sub.insert(k.replace("graph/", "graph-path3/"), v);
        }
        total.merge(p3);
    }
    assembled::run(&ctx, &mut total);
    if ctx.only.is_none() {
        check_expected_edges(&mut total, &adjacency);
    }
    ctx.finish(
        total,
        "model_checking",
        "states = (node type, in-range lattice value or RGB-grid image) pairs per configuration (white point × float type); transitions = conversion edges executed along explored paths; traces = path pairs compared (cycle vs identity, direct vs stepwise, alpha vs bare); every state is non-trivial (has at least one outgoing edge); the edge set is discovered by the compiler",
        &[
            "‘same colour’ is decided in linear-light XYZ through one shared f64 reference map per type (pv::colorkind), used as a metric only",
            "a target/intermediate participates only for colours it can represent: its reference image lies in its nominal range (RGB gamut for the gamut-bounded cylindrical types; grey axis for luma)",
            "values between lattice points are not explored",
        ],
    )
}
