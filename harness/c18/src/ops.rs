//! Operation alphabet, observation tokens, and the two executors: the real struct-of-arrays
//! container (`Cfg`, implemented per colour type by `impl_cfg!`) and the reference `Vec<C>`.
use crate::fam::Fam;
use pv::{json, Value};

pub const MAXC: usize = 4;
pub type Key = [u32; MAXC];

pub fn mk<F: Fam>(k: &Key) -> F::Of<f32> {
    let mut i = 0;
    F::build(&mut || {
        let v = f32::from_bits(k[i]);
        i += 1;
        v
    })
}
pub fn key<F: Fam>(c: F::Of<f32>) -> Key {
    let mut k = [0u32; MAXC];
    let mut i = 0;
    F::split(c, &mut |x: f32| {
        k[i] = x.to_bits();
        i += 1;
    });
    k
}

/// The colour set: colour `j` has component `i` = 4j + i + 1.5 — all values distinct over all
/// colours and components, so any mix-up of components, colours or positions is visible.
pub fn colour(j: usize, nc: usize) -> Key {
    let mut k = [0u32; MAXC];
    for (i, slot) in k.iter_mut().enumerate().take(nc) {
        *slot = ((4 * j + i) as f32 + 1.5).to_bits();
    }
    k
}

// ---------------------------------------------------------------------------------------
// ranges

#[derive(Clone, Copy, PartialEq, Eq, Debug, Hash, PartialOrd, Ord)]
pub enum Rng {
    Full,
    From(usize),
    To(usize),
    ToIncl(usize),
    AB(usize, usize),
    ABIncl(usize, usize),
    /// (Bound::Excluded(a), Bound::Unbounded) — `(Bound, Bound)` pairs are RangeBounds / SliceIndex too
    ExUnb(usize),
    /// (Bound::Excluded(a), Bound::Excluded(b))
    ExEx(usize, usize),
    /// (Bound::Excluded(a), Bound::Included(b))
    ExIn(usize, usize),
}
impl Rng {
    pub fn form(&self) -> &'static str {
        match self {
            Rng::Full => "..",
            Rng::From(_) => "a..",
            Rng::To(_) => "..b",
            Rng::ToIncl(_) => "..=b",
            Rng::AB(..) => "a..b",
            Rng::ABIncl(..) => "a..=b",
            Rng::ExUnb(..) => "(Excluded(a), Unbounded)",
            Rng::ExEx(..) => "(Excluded(a), Excluded(b))",
            Rng::ExIn(..) => "(Excluded(a), Included(b))",
        }
    }
    pub fn to_json(&self) -> Value {
        let u = |x: usize| if x == usize::MAX { json!("MAX") } else { json!(x) };
        match *self {
            Rng::Full => json!({"form": ".."}),
            Rng::From(a) => json!({"form": "a..", "a": u(a)}),
            Rng::To(b) => json!({"form": "..b", "b": u(b)}),
            Rng::ToIncl(b) => json!({"form": "..=b", "b": u(b)}),
            Rng::AB(a, b) => json!({"form": "a..b", "a": u(a), "b": u(b)}),
            Rng::ABIncl(a, b) => json!({"form": "a..=b", "a": u(a), "b": u(b)}),
            Rng::ExUnb(a) => json!({"form": "(Excluded(a), Unbounded)", "a": u(a)}),
            Rng::ExEx(a, b) => json!({"form": "(Excluded(a), Excluded(b))", "a": u(a), "b": u(b)}),
            Rng::ExIn(a, b) => json!({"form": "(Excluded(a), Included(b))", "a": u(a), "b": u(b)}),
        }
    }
    pub fn from_json(v: &Value) -> Option<Rng> {
        let u = |x: &Value| -> Option<usize> {
            if x == "MAX" {
                Some(usize::MAX)
            } else {
                x.as_u64().map(|x| x as usize)
            }
        };
        Some(match v["form"].as_str()? {
            ".." => Rng::Full,
            "a.." => Rng::From(u(&v["a"])?),
            "..b" => Rng::To(u(&v["b"])?),
            "..=b" => Rng::ToIncl(u(&v["b"])?),
            "a..b" => Rng::AB(u(&v["a"])?, u(&v["b"])?),
            "a..=b" => Rng::ABIncl(u(&v["a"])?, u(&v["b"])?),
            "(Excluded(a), Unbounded)" => Rng::ExUnb(u(&v["a"])?),
            "(Excluded(a), Excluded(b))" => Rng::ExEx(u(&v["a"])?, u(&v["b"])?),
            "(Excluded(a), Included(b))" => Rng::ExIn(u(&v["a"])?, u(&v["b"])?),
            _ => return None,
        })
    }
    /// Every range of every form with bounds in 0..=len+1 (empty, full, inner, inverted and
    /// out-of-range ones), plus the inclusive forms ending at usize::MAX.
    pub fn all(len: usize) -> Vec<Rng> {
        let mut v = vec![Rng::Full];
        let hi = len + 1;
        for a in 0..=hi {
            v.push(Rng::From(a));
        }
        for b in 0..=hi {
            v.push(Rng::To(b));
        }
        for b in 0..=hi {
            v.push(Rng::ToIncl(b));
        }
        v.push(Rng::ToIncl(usize::MAX));
        for a in 0..=hi {
            for b in 0..=hi {
                v.push(Rng::AB(a, b));
            }
        }
        for a in 0..=hi {
            for b in 0..=hi {
                v.push(Rng::ABIncl(a, b));
            }
            v.push(Rng::ABIncl(a, usize::MAX));
        }
        // exclusive start bounds (only expressible as a (Bound, Bound) pair)
        for a in 0..=hi {
            v.push(Rng::ExUnb(a));
            for b in 0..=hi {
                v.push(Rng::ExEx(a, b));
                v.push(Rng::ExIn(a, b));
            }
        }
        v.push(Rng::ExUnb(usize::MAX));
        v
    }
    /// (start, end) when the range is valid for a collection of `len` elements.
    pub fn resolve(&self, len: usize) -> Option<(usize, usize)> {
        let (a, b) = match *self {
            Rng::Full => (0, len),
            Rng::From(a) => (a, len),
            Rng::To(b) => (0, b),
            Rng::ToIncl(b) => (0, b.checked_add(1)?),
            Rng::AB(a, b) => (a, b),
            Rng::ABIncl(a, b) => (a, b.checked_add(1)?),
            Rng::ExUnb(a) => (a.checked_add(1)?, len),
            Rng::ExEx(a, b) => (a.checked_add(1)?, b),
            Rng::ExIn(a, b) => (a.checked_add(1)?, b.checked_add(1)?),
        };
        if a <= b && b <= len {
            Some((a, b))
        } else {
            None
        }
    }
}

/// Run `$body` with `$r` bound to the concrete std range value.
#[macro_export]
macro_rules! with_range {
    ($rng:expr, $r:ident => $body:expr) => {
        match $rng {
            $crate::ops::Rng::Full => {
                let $r = ..;
                $body
            }
            $crate::ops::Rng::From(a) => {
                let $r = a..;
                $body
            }
            $crate::ops::Rng::To(b) => {
                let $r = ..b;
                $body
            }
            $crate::ops::Rng::ToIncl(b) => {
                let $r = ..=b;
                $body
            }
            $crate::ops::Rng::AB(a, b) => {
                let $r = a..b;
                $body
            }
            $crate::ops::Rng::ABIncl(a, b) => {
                let $r = a..=b;
                $body
            }
            $crate::ops::Rng::ExUnb(a) => {
                let $r = (core::ops::Bound::Excluded(a), core::ops::Bound::Unbounded);
                $body
            }
            $crate::ops::Rng::ExEx(a, b) => {
                let $r = (core::ops::Bound::Excluded(a), core::ops::Bound::Excluded(b));
                $body
            }
            $crate::ops::Rng::ExIn(a, b) => {
                let $r = (core::ops::Bound::Excluded(a), core::ops::Bound::Included(b));
                $body
            }
        }
    };
}

// ---------------------------------------------------------------------------------------
// iterator consumption scripts

#[derive(Clone, Copy, PartialEq, Eq, Debug, Hash, PartialOrd, Ord)]
pub enum Walk {
    Front,
    Back,
    AltFB,
    AltBF,
    /// step j is `nth(j % 3)` (skips 0, 1, 2, 0, … items before the one returned)
    NthF,
    /// step j is `nth_back(j % 3)`
    NthB,
    /// step 0 is `nth(7)` (past the end of every explored collection), the following steps `next()`
    NthOut,
}
#[derive(Clone, Copy, PartialEq, Eq, Debug, Hash, PartialOrd, Ord)]
pub enum End {
    Drop,
    Count,
    Forget,
    /// `Iterator::last()`
    Last,
    /// `Iterator::fold` collecting the remaining items in order
    Fold,
    /// `DoubleEndedIterator::rfold` collecting the remaining items from the back
    RFold,
}
/// `k` steps of `walk` (next / next_back / alternating / nth / nth_back), observing len() and size_hint()
/// before every step and after the last, then `end` (drop, count(), mem::forget).
#[derive(Clone, Copy, PartialEq, Eq, Debug, Hash, PartialOrd, Ord)]
pub struct Script {
    pub walk: Walk,
    pub k: u8,
    pub end: End,
}
impl Script {
    pub fn to_json(&self) -> Value {
        json!({"walk": format!("{:?}", self.walk), "k": self.k, "end": format!("{:?}", self.end)})
    }
    pub fn from_json(v: &Value) -> Option<Script> {
        let walk = match v["walk"].as_str()? {
            "Front" => Walk::Front,
            "Back" => Walk::Back,
            "AltFB" => Walk::AltFB,
            "AltBF" => Walk::AltBF,
            "NthF" => Walk::NthF,
            "NthB" => Walk::NthB,
            "NthOut" => Walk::NthOut,
            _ => return None,
        };
        let end = match v["end"].as_str()? {
            "Drop" => End::Drop,
            "Count" => End::Count,
            "Forget" => End::Forget,
            "Last" => End::Last,
            "Fold" => End::Fold,
            "RFold" => End::RFold,
            _ => return None,
        };
        Some(Script { walk, k: v["k"].as_u64()? as u8, end })
    }
    /// Every script for an iterator that should yield `n` items: drop at once (k = 0),
    /// next×k and next_back×k for k = 1..=n+1 (k = n+1 is "exhaust" and sees the final None),
    /// both alternations for k = 2..=n+2; each ended by every `End` in `ends`.
    pub fn all(n: usize, ends: &[End]) -> Vec<Script> {
        let mut v = vec![];
        for &end in ends {
            for k in 0..=n + 1 {
                v.push(Script { walk: Walk::Front, k: k as u8, end });
            }
            for k in 1..=n + 1 {
                v.push(Script { walk: Walk::Back, k: k as u8, end });
            }
            for k in 2..=n + 2 {
                v.push(Script { walk: Walk::AltFB, k: k as u8, end });
                v.push(Script { walk: Walk::AltBF, k: k as u8, end });
            }
            // the skipping entry points (Iterator::nth / DoubleEndedIterator::nth_back; skip and step_by are
            // built on them), in range and past the end, each followed by a further observation
            for k in 1..=n + 1 {
                v.push(Script { walk: Walk::NthF, k: k as u8, end });
                v.push(Script { walk: Walk::NthB, k: k as u8, end });
            }
            for k in 1..=2 {
                v.push(Script { walk: Walk::NthOut, k: k as u8, end });
            }
        }
        v
    }
    /// The reduced set used by the unmerged enumeration.
    pub fn reduced(n: usize, ends: &[End]) -> Vec<Script> {
        let mut v = vec![];
        for &end in ends {
            v.push(Script { walk: Walk::Front, k: 0, end });
            v.push(Script { walk: Walk::Front, k: 1, end });
            v.push(Script { walk: Walk::Back, k: 1, end });
            if end != End::Forget {
                v.push(Script { walk: Walk::Front, k: (n + 1) as u8, end });
            }
        }
        v.sort();
        v.dedup();
        v
    }
}

#[derive(Clone, PartialEq, Debug)]
pub enum Tok {
    Len(usize),
    Hint(usize, Option<usize>),
    Item(Option<Key>),
    Ret(Option<Key>),
    Count(usize),
    /// lengths of the component slices of a ranged get (None = the get returned None)
    Slice(Option<Vec<usize>>),
    Panic,
}
pub type Trace = Vec<Tok>;

pub fn run_script<I>(mut it: I, sc: Script, tr: &mut Trace, mut f: impl FnMut(I::Item, usize) -> Key)
where
    I: DoubleEndedIterator + ExactSizeIterator,
{
    for j in 0..sc.k as usize {
        tr.push(Tok::Len(it.len()));
        let h = it.size_hint();
        tr.push(Tok::Hint(h.0, h.1));
        let item = match sc.walk {
            Walk::Front => it.next(),
            Walk::Back => it.next_back(),
            Walk::AltFB => if j % 2 == 0 { it.next() } else { it.next_back() },
            Walk::AltBF => if j % 2 == 1 { it.next() } else { it.next_back() },
            Walk::NthF => it.nth(j % 3),
            Walk::NthB => it.nth_back(j % 3),
            Walk::NthOut => if j == 0 { it.nth(7) } else { it.next() },
        };
        tr.push(Tok::Item(item.map(|x| f(x, j))));
    }
    tr.push(Tok::Len(it.len()));
    let h = it.size_hint();
    tr.push(Tok::Hint(h.0, h.1));
    match sc.end {
        End::Drop => drop(it),
        End::Count => tr.push(Tok::Count(it.count())),
        End::Forget => core::mem::forget(it),
        End::Last => {
            let l = it.last();
            tr.push(Tok::Ret(l.map(|x| f(x, 250))));
        }
        End::Fold | End::RFold => {
            let items = if sc.end == End::Fold { it.fold(vec![], |mut v, x| { v.push(x); v }) } else { it.rfold(vec![], |mut v, x| { v.push(x); v }) };
            tr.push(Tok::Count(items.len()));
            for (i, x) in items.into_iter().enumerate() {
                tr.push(Tok::Item(Some(f(x, 100 + i))));
            }
        }
    }
}

// ---------------------------------------------------------------------------------------
// operations

#[derive(Clone, Copy, PartialEq, Eq, Debug, Hash, PartialOrd, Ord)]
pub enum Backing {
    Vec,
    Arr,
    Slice,
    MutSlice,
    Boxed,
}
impl Backing {
    pub fn name(&self) -> &'static str {
        match self {
            Backing::Vec => "Vec<T>",
            Backing::Arr => "[T;N]",
            Backing::Slice => "&[T]",
            Backing::MutSlice => "&mut[T]",
            Backing::Boxed => "Box<[T]>",
        }
    }
    pub fn from_name(s: &str) -> Option<Backing> {
        [Backing::Vec, Backing::Arr, Backing::Slice, Backing::MutSlice, Backing::Boxed].into_iter().find(|b| b.name() == s)
    }
}
/// How the iterator is obtained: `.iter()` (`&C: IntoIterator`), `.iter_mut()`
/// (`&mut C: IntoIterator`), or `C: IntoIterator` by value.
#[derive(Clone, Copy, PartialEq, Eq, Debug, Hash, PartialOrd, Ord)]
pub enum Mode {
    Ref,
    Mut,
    Owned,
}
impl Mode {
    pub fn name(&self) -> &'static str {
        match self {
            Mode::Ref => "iter",
            Mode::Mut => "iter_mut",
            Mode::Owned => "into_iter",
        }
    }
    pub fn from_name(s: &str) -> Option<Mode> {
        [Mode::Ref, Mode::Mut, Mode::Owned].into_iter().find(|b| b.name() == s)
    }
}
/// The 13 IntoIterator impls per colour type.
pub const SOURCES: [(Mode, Backing); 13] = [
    (Mode::Ref, Backing::Vec),
    (Mode::Ref, Backing::Arr),
    (Mode::Ref, Backing::Slice),
    (Mode::Ref, Backing::MutSlice),
    (Mode::Ref, Backing::Boxed),
    (Mode::Mut, Backing::Vec),
    (Mode::Mut, Backing::Arr),
    (Mode::Mut, Backing::MutSlice),
    (Mode::Mut, Backing::Boxed),
    (Mode::Owned, Backing::Vec),
    (Mode::Owned, Backing::Arr),
    (Mode::Owned, Backing::Slice),
    (Mode::Owned, Backing::MutSlice),
];
/// does iterating this source hand out mutable items (which the script overwrites)?
pub fn writes(mode: Mode, b: Backing) -> bool {
    mode == Mode::Mut || (mode == Mode::Owned && b == Backing::MutSlice)
}

/// Colours are indices into the colour set.
#[derive(Clone, PartialEq, Eq, Debug, Hash, PartialOrd, Ord)]
pub enum Op {
    Push(u8),
    Pop,
    Clear,
    Extend(Vec<u8>),
    Collect(Vec<u8>),
    WithCapacity(u8),
    Drain(Rng, Script),
    Get(usize),
    GetR(Rng),
    /// get_mut(i), then `set` the colour
    GetMut(usize, u8),
    /// get_mut(r), then overwrite element k of the range with colour (k + shift) % ncol
    GetMutR(Rng, u8),
    /// iterate; sources that hand out mutable items overwrite the j-th step's item with
    /// colour (j + shift) % ncol
    Iterate(Mode, Backing, Script, u8),
}
impl Op {
    /// the call site part of the signature
    pub fn method(&self) -> String {
        match self {
            Op::Push(_) => "push".into(),
            Op::Pop => "pop".into(),
            Op::Clear => "clear".into(),
            Op::Extend(_) => "extend".into(),
            Op::Collect(_) => "collect".into(),
            Op::WithCapacity(_) => "with_capacity".into(),
            Op::Drain(..) => "drain".into(),
            Op::Get(_) => "get(index)".into(),
            Op::GetR(_) => "get(range)".into(),
            Op::GetMut(..) => "get_mut(index)".into(),
            Op::GetMutR(..) => "get_mut(range)".into(),
            Op::Iterate(m, b, ..) => format!("{}/{}", m.name(), b.name()),
        }
    }
    pub fn mutating(&self) -> bool {
        match self {
            Op::Get(_) | Op::GetR(_) => false,
            Op::Iterate(m, b, ..) => writes(*m, *b),
            _ => true,
        }
    }
    pub fn to_json(&self) -> Value {
        match self {
            Op::Push(c) => json!({"op": "push", "colour": c}),
            Op::Pop => json!({"op": "pop"}),
            Op::Clear => json!({"op": "clear"}),
            Op::Extend(c) => json!({"op": "extend", "colours": c}),
            Op::Collect(c) => json!({"op": "collect", "colours": c}),
            Op::WithCapacity(k) => json!({"op": "with_capacity", "k": k}),
            Op::Drain(r, s) => json!({"op": "drain", "range": r.to_json(), "script": s.to_json()}),
            Op::Get(i) => json!({"op": "get", "index": i}),
            Op::GetR(r) => json!({"op": "get", "range": r.to_json()}),
            Op::GetMut(i, c) => json!({"op": "get_mut", "index": i, "colour": c}),
            Op::GetMutR(r, s) => json!({"op": "get_mut", "range": r.to_json(), "shift": s}),
            Op::Iterate(m, b, s, sh) => json!({"op": m.name(), "backing": b.name(), "script": s.to_json(), "shift": sh}),
        }
    }
    pub fn from_json(v: &Value) -> Option<Op> {
        let cols = |x: &Value| -> Option<Vec<u8>> { x.as_array()?.iter().map(|c| c.as_u64().map(|c| c as u8)).collect() };
        Some(match v["op"].as_str()? {
            "push" => Op::Push(v["colour"].as_u64()? as u8),
            "pop" => Op::Pop,
            "clear" => Op::Clear,
            "extend" => Op::Extend(cols(&v["colours"])?),
            "collect" => Op::Collect(cols(&v["colours"])?),
            "with_capacity" => Op::WithCapacity(v["k"].as_u64()? as u8),
            "drain" => Op::Drain(Rng::from_json(&v["range"])?, Script::from_json(&v["script"])?),
            "get" => {
                if v.get("range").is_some() {
                    Op::GetR(Rng::from_json(&v["range"])?)
                } else {
                    Op::Get(v["index"].as_u64()? as usize)
                }
            }
            "get_mut" => {
                if v.get("range").is_some() {
                    Op::GetMutR(Rng::from_json(&v["range"])?, v["shift"].as_u64()? as u8)
                } else {
                    Op::GetMut(v["index"].as_u64()? as usize, v["colour"].as_u64()? as u8)
                }
            }
            m => Op::Iterate(Mode::from_name(m)?, Backing::from_name(v["backing"].as_str()?)?, Script::from_json(&v["script"])?, v["shift"].as_u64()? as u8),
        })
    }
}

// ---------------------------------------------------------------------------------------
// the real container

pub trait Cfg: 'static {
    type F: Fam;
    const ALPHA: bool;
    /// the struct of vectors
    type V;
    /// the scalar colour
    type C: Copy + 'static;
    fn mkc(k: &Key) -> Self::C;
    fn keyc(c: &Self::C) -> Key;

    fn with_capacity(k: usize) -> Self::V;
    fn push(v: &mut Self::V, c: &Key);
    fn pop(v: &mut Self::V) -> Option<Key>;
    fn clear(v: &mut Self::V);
    fn extend(v: &mut Self::V, cols: &[Key]);
    fn collect(cols: &[Key]) -> Self::V;
    fn drain(v: &mut Self::V, r: Rng, sc: Script, tr: &mut Trace);
    /// get(index) on the Vec-backed container and on array, &[T], &mut [T] and Box<[T]> backed
    /// copies: five `Ret` tokens
    fn get_i(v: &Self::V, i: usize, tr: &mut Trace);
    /// get(range) on the same five backings
    fn get_r(v: &Self::V, r: Rng, tr: &mut Trace);
    fn get_mut_i(v: &mut Self::V, i: usize, c: &Key) -> Option<Key>;
    fn get_mut_r(v: &mut Self::V, r: Rng, cols: &[Key], shift: usize, tr: &mut Trace);
    fn iterate(v: &mut Self::V, mode: Mode, b: Backing, sc: Script, cols: &[Key], shift: usize, tr: &mut Trace);
    /// component vectors read directly from the fields
    fn bufs(v: &Self::V) -> Vec<Vec<f32>>;
    /// container built directly from component vectors (no palette collection API)
    fn from_bufs(b: Vec<Vec<f32>>) -> Self::V;

    fn name() -> String {
        if Self::ALPHA {
            format!("{}+alpha", <Self::F as Fam>::NAME)
        } else {
            <Self::F as Fam>::NAME.to_string()
        }
    }
    fn nc() -> usize {
        <Self::F as Fam>::NC
    }
}

pub fn arr<const N: usize>(s: &[f32]) -> [f32; N] {
    let mut a = [0f32; N];
    a.copy_from_slice(&s[..N]);
    a
}

/// `$go!(N)` with N = `$len` as a literal (array backings need the length as a const).
#[macro_export]
macro_rules! by_len {
    ($len:expr, $go:ident) => {
        match $len {
            0 => $go!(0),
            1 => $go!(1),
            2 => $go!(2),
            3 => $go!(3),
            4 => $go!(4),
            5 => $go!(5),
            6 => $go!(6),
            _ => panic!("harness: array backing beyond 6 elements not instantiated"),
        }
    };
}

/// Implements `Cfg` for a family; the body is the same token sequence for plain, hue-bearing
/// and Alpha-wrapped types — every call below resolves to that type's own macro expansion in
/// palette (inherent methods / trait impls of `Color<Vec<f32>>`, `Alpha<Color<..>, ..>`).
#[macro_export]
macro_rules! impl_cfg {
    ($cfg:ident, $fam:ty, $alpha:expr) => {
        pub struct $cfg;
        impl $crate::ops::Cfg for $cfg {
            type F = $fam;
            const ALPHA: bool = $alpha;
            type V = <$fam as Fam>::Of<Vec<f32>>;
            type C = <$fam as Fam>::Of<f32>;
            fn mkc(k: &Key) -> Self::C {
                mk::<$fam>(k)
            }
            fn keyc(c: &Self::C) -> Key {
                key::<$fam>(*c)
            }
            fn with_capacity(k: usize) -> Self::V {
                <Self::V>::with_capacity(k)
            }
            fn push(v: &mut Self::V, c: &Key) {
                v.push(mk::<$fam>(c))
            }
            fn pop(v: &mut Self::V) -> Option<Key> {
                v.pop().map(key::<$fam>)
            }
            fn clear(v: &mut Self::V) {
                v.clear()
            }
            fn extend(v: &mut Self::V, cols: &[Key]) {
                // the same items through sources with other size hints: (0, Some(n)) and (0, None).
                // An Extend impl may use the hint to reserve, never to decide what to append; a
                // difference is reported through the panic channel with the ORACLE prefix
                let mut w1 = v.clone();
                let mut w2 = v.clone();
                v.extend(cols.iter().map(mk::<$fam>));
                w1.extend(cols.iter().map(mk::<$fam>).filter(|_| true));
                let mut it = cols.iter();
                w2.extend(core::iter::from_fn(|| it.next().map(mk::<$fam>)));
                let (a, b, c) = (<$fam as Fam>::bufs(v), <$fam as Fam>::bufs(&w1), <$fam as Fam>::bufs(&w2));
                if a != b || a != c {
                    panic!("C18-ORACLE: extend() appends other items from an iterator whose size_hint lower bound is 0 than from an exact-size iterator: exact {:?}, filter {:?}, from_fn {:?}", a, b, c);
                }
            }
            fn collect(cols: &[Key]) -> Self::V {
                let v: Self::V = cols.iter().map(mk::<$fam>).collect();
                let w: Self::V = cols.iter().map(mk::<$fam>).filter(|_| true).collect();
                let (a, b) = (<$fam as Fam>::bufs(&v), <$fam as Fam>::bufs(&w));
                if a != b {
                    panic!("C18-ORACLE: collect() builds another collection from an iterator whose size_hint lower bound is 0: exact {:?}, filter {:?}", a, b);
                }
                v
            }
            fn drain(v: &mut Self::V, r: Rng, sc: Script, tr: &mut Trace) {
                $crate::with_range!(r, rr => run_script(v.drain(rr), sc, tr, |c, _| key::<$fam>(c)))
            }
            fn get_i(v: &Self::V, i: usize, tr: &mut Trace) {
                tr.push(Tok::Ret(v.get(i).map(|c| key::<$fam>(c.copied()))));
                let mut bufs = <$fam as Fam>::bufs(v);
                {
                    let mut it = bufs.iter();
                    let s: <$fam as Fam>::Of<&[f32]> = <$fam as Fam>::build(&mut || &it.next().unwrap()[..]);
                    tr.push(Tok::Ret(s.get(i).map(|c| key::<$fam>(c.copied()))));
                }
                {
                    let mut it = bufs.iter_mut();
                    let s: <$fam as Fam>::Of<&mut [f32]> = <$fam as Fam>::build(&mut || &mut it.next().unwrap()[..]);
                    tr.push(Tok::Ret(s.get(i).map(|c| key::<$fam>(c.copied()))));
                }
                macro_rules! go {
                    ($n:literal) => {{
                        let mut it = bufs.iter();
                        let s: <$fam as Fam>::Of<[f32; $n]> = <$fam as Fam>::build(&mut || $crate::ops::arr::<$n>(it.next().unwrap()));
                        tr.push(Tok::Ret(s.get(i).map(|c| key::<$fam>(c.copied()))));
                    }};
                }
                $crate::by_len!(bufs[0].len(), go);
                {
                    let mut it = bufs.drain(..);
                    let s: <$fam as Fam>::Of<Box<[f32]>> = <$fam as Fam>::build(&mut || it.next().unwrap().into_boxed_slice());
                    tr.push(Tok::Ret(s.get(i).map(|c| key::<$fam>(c.copied()))));
                }
            }
            fn get_r(v: &Self::V, r: Rng, tr: &mut Trace) {
                // the returned colour of slices is taken apart and its component slices read directly
                fn record(got: Option<<$fam as Fam>::Of<&[f32]>>, tr: &mut Trace) {
                    match got {
                        None => tr.push(Tok::Slice(None)),
                        Some(c) => {
                            let mut comps: Vec<&[f32]> = vec![];
                            <$fam as Fam>::split(c, &mut |s: &[f32]| comps.push(s));
                            tr.push(Tok::Slice(Some(comps.iter().map(|s| s.len()).collect())));
                            let n = comps.iter().map(|s| s.len()).min().unwrap_or(0);
                            for j in 0..n {
                                let mut k = [0u32; $crate::ops::MAXC];
                                for (i, s) in comps.iter().enumerate() {
                                    k[i] = s[j].to_bits();
                                }
                                tr.push(Tok::Item(Some(k)));
                            }
                        }
                    }
                }
                record($crate::with_range!(r, rr => v.get(rr)), tr);
                let mut bufs = <$fam as Fam>::bufs(v);
                {
                    let mut it = bufs.iter();
                    let s: <$fam as Fam>::Of<&[f32]> = <$fam as Fam>::build(&mut || &it.next().unwrap()[..]);
                    record($crate::with_range!(r, rr => s.get(rr)), tr);
                }
                {
                    let mut it = bufs.iter_mut();
                    let s: <$fam as Fam>::Of<&mut [f32]> = <$fam as Fam>::build(&mut || &mut it.next().unwrap()[..]);
                    record($crate::with_range!(r, rr => s.get(rr)), tr);
                }
                macro_rules! go {
                    ($n:literal) => {{
                        let mut it = bufs.iter();
                        let s: <$fam as Fam>::Of<[f32; $n]> = <$fam as Fam>::build(&mut || $crate::ops::arr::<$n>(it.next().unwrap()));
                        record($crate::with_range!(r, rr => s.get(rr)), tr);
                    }};
                }
                $crate::by_len!(bufs[0].len(), go);
                {
                    let mut it = bufs.drain(..);
                    let s: <$fam as Fam>::Of<Box<[f32]>> = <$fam as Fam>::build(&mut || it.next().unwrap().into_boxed_slice());
                    record($crate::with_range!(r, rr => s.get(rr)), tr);
                }
            }
            fn get_mut_i(v: &mut Self::V, i: usize, c: &Key) -> Option<Key> {
                v.get_mut(i).map(|mut r| {
                    let old = key::<$fam>(r.copied());
                    r.set(mk::<$fam>(c));
                    old
                })
            }
            fn get_mut_r(v: &mut Self::V, r: Rng, cols: &[Key], shift: usize, tr: &mut Trace) {
                let got: Option<<$fam as Fam>::Of<&mut [f32]>> = $crate::with_range!(r, rr => v.get_mut(rr));
                match got {
                    None => tr.push(Tok::Slice(None)),
                    Some(c) => {
                        let mut comps: Vec<&mut [f32]> = vec![];
                        <$fam as Fam>::split(c, &mut |s: &mut [f32]| comps.push(s));
                        tr.push(Tok::Slice(Some(comps.iter().map(|s| s.len()).collect())));
                        let n = comps.iter().map(|s| s.len()).min().unwrap_or(0);
                        for j in 0..n {
                            let mut k = [0u32; $crate::ops::MAXC];
                            let new = &cols[(j + shift) % cols.len()];
                            for (i, s) in comps.iter_mut().enumerate() {
                                k[i] = s[j].to_bits();
                                s[j] = f32::from_bits(new[i]);
                            }
                            tr.push(Tok::Item(Some(k)));
                        }
                    }
                }
            }
            fn iterate(v: &mut Self::V, mode: Mode, b: Backing, sc: Script, cols: &[Key], shift: usize, tr: &mut Trace) {
                // item adaptors: shared refs are copied, mutable refs are copied then set, owned
                // items are taken as they are
                macro_rules! rd {
                    () => {
                        |c, _j: usize| key::<$fam>(c.copied())
                    };
                }
                macro_rules! wr {
                    () => {
                        |mut c, j: usize| {
                            let old = key::<$fam>(c.copied());
                            c.set(mk::<$fam>(&cols[(j + shift) % cols.len()]));
                            old
                        }
                    };
                }
                macro_rules! own {
                    () => {
                        |c, _j: usize| key::<$fam>(c)
                    };
                }
                if b == Backing::Vec && mode != Mode::Owned {
                    match mode {
                        Mode::Ref => run_script(v.iter(), sc, tr, rd!()),
                        _ => run_script(v.iter_mut(), sc, tr, wr!()),
                    }
                    return;
                }
                // the other backings are built from copies of the component vectors
                let mut bufs = <$fam as Fam>::bufs(v);
                let len = bufs[0].len();
                match b {
                    Backing::Vec => match mode {
                        Mode::Ref | Mode::Mut => unreachable!(),
                        Mode::Owned => {
                            let w: Self::V = Self::from_bufs(bufs);
                            run_script(w.into_iter(), sc, tr, own!())
                        }
                    },
                    Backing::Slice => {
                        let mut it = bufs.iter();
                        let s: <$fam as Fam>::Of<&[f32]> = <$fam as Fam>::build(&mut || &it.next().unwrap()[..]);
                        match mode {
                            Mode::Ref => run_script(s.iter(), sc, tr, rd!()),
                            Mode::Owned => run_script(s.into_iter(), sc, tr, rd!()),
                            Mode::Mut => unreachable!("no &mut iteration over &[T] components"),
                        }
                    }
                    Backing::MutSlice => {
                        {
                            let mut it = bufs.iter_mut();
                            let mut s: <$fam as Fam>::Of<&mut [f32]> = <$fam as Fam>::build(&mut || &mut it.next().unwrap()[..]);
                            match mode {
                                Mode::Ref => run_script(s.iter(), sc, tr, rd!()),
                                Mode::Mut => run_script(s.iter_mut(), sc, tr, wr!()),
                                Mode::Owned => run_script(s.into_iter(), sc, tr, wr!()),
                            }
                        }
                        *v = Self::from_bufs(bufs);
                    }
                    Backing::Boxed => {
                        let mut it = bufs.drain(..);
                        let mut s: <$fam as Fam>::Of<Box<[f32]>> = <$fam as Fam>::build(&mut || it.next().unwrap().into_boxed_slice());
                        match mode {
                            Mode::Ref => run_script(s.iter(), sc, tr, rd!()),
                            Mode::Mut => run_script(s.iter_mut(), sc, tr, wr!()),
                            Mode::Owned => unreachable!("no by-value iteration over Box<[T]> components"),
                        }
                        let mut back: Vec<Vec<f32>> = vec![];
                        <$fam as Fam>::split(s, &mut |x: Box<[f32]>| back.push(x.into_vec()));
                        *v = Self::from_bufs(back);
                    }
                    Backing::Arr => {
                        macro_rules! go {
                            ($n:literal) => {{
                                let mut it = bufs.iter();
                                let mut s: <$fam as Fam>::Of<[f32; $n]> = <$fam as Fam>::build(&mut || $crate::ops::arr::<$n>(it.next().unwrap()));
                                match mode {
                                    Mode::Ref => run_script(s.iter(), sc, tr, rd!()),
                                    Mode::Mut => {
                                        run_script(s.iter_mut(), sc, tr, wr!());
                                        let mut back: Vec<Vec<f32>> = vec![];
                                        <$fam as Fam>::split(s, &mut |x: [f32; $n]| back.push(x.to_vec()));
                                        *v = Self::from_bufs(back);
                                    }
                                    Mode::Owned => run_script(s.into_iter(), sc, tr, own!()),
                                }
                            }};
                        }
                        $crate::by_len!(len, go);
                    }
                }
            }
            fn bufs(v: &Self::V) -> Vec<Vec<f32>> {
                <$fam as Fam>::bufs(v)
            }
            fn from_bufs(b: Vec<Vec<f32>>) -> Self::V {
                let mut it = b.into_iter();
                <$fam as Fam>::build(&mut || it.next().unwrap())
            }
        }
    };
}
