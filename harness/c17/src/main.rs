//! C17 — results do not depend on the component representation (see DESIGN.md §4 C17).
mod alphaconv;
mod conv;
mod dark;
mod graphs;
mod hue;
mod lat;
mod mask;
mod ops;
mod pack;
mod scan;
mod slices;
mod transfer;
mod vect;

use pg::Graph;
use pv::{json, Collector, Ctx, Mode, Value};
use vect::Vect;
use wide::{f32x4, f32x8, f64x2, f64x4};

fn main() {
    pv::main_guard(real_main)
}

fn assert_same_nodes<A, B>(x: &Graph<A>, y: &Graph<B>) {
    let nx: Vec<&str> = x.nodes.iter().map(|n| n.name).collect();
    let ny: Vec<&str> = y.nodes.iter().map(|n| n.name).collect();
    if nx != ny {
        eprintln!("MACHINERY-FAILURE: node lists of the SIMD and scalar graphs differ: {nx:?} vs {ny:?}");
        std::process::exit(3);
    }
}

fn record_adjacency<V: Vect>(g: &Graph<V>, gs: &Graph<V::S>, c: &mut Collector) {
    let n = g.n();
    let missing: Vec<String> = (0..n).flat_map(|a| (0..n).map(move |b| (a, b))).filter(|&(a, b)| g.unc[a][b].is_some() && gs.unc[a][b].is_none()).map(|(a, b)| format!("{}->{}", g.nodes[a].name, g.nodes[b].name)).collect();
    if !missing.is_empty() {
        eprintln!("MACHINERY-FAILURE: SIMD edges without a scalar edge: {missing:?}");
        std::process::exit(3);
    }
    let live = (0..n).filter(|&a| g.unc[a].iter().any(|e| e.is_some())).count();
    c.note(
        &format!("adjacency/{}", V::NAME),
        json!({"nodes": n, "nodes_with_edges": live, "edges_incl_identity": g.edge_count(), "scalar_edges_incl_identity": gs.edge_count(),
               "columns": g.nodes.iter().map(|n| n.name).collect::<Vec<_>>(),
               "rows": g.adjacency_text().lines().map(|l| l.to_string()).collect::<Vec<_>>()}),
    );
}

struct Graphs {
    s32: Graph<f32>,
    s64: Graph<f64>,
    v32x4: Graph<f32x4>,
    v32x8: Graph<f32x8>,
    v64x2: Graph<f64x2>,
    v64x4: Graph<f64x4>,
}
fn graphs() -> Graphs {
    let g = Graphs { s32: pga::d65_f32(), s64: pgb::d65_f64(), v32x4: graphs::g_f32x4::graph(), v32x8: graphs::g_f32x8::graph(), v64x2: graphs::g_f64x2::graph(), v64x4: graphs::g_f64x4::graph() };
    assert_same_nodes(&g.s32, &g.s64);
    assert_same_nodes(&g.s32, &g.v32x4);
    assert_same_nodes(&g.s32, &g.v32x8);
    assert_same_nodes(&g.s32, &g.v64x2);
    assert_same_nodes(&g.s32, &g.v64x4);
    g
}

fn replay(c: &mut Collector, rep: &Value) {
    let case = &rep["case"];
    let g = graphs();
    let sub = case["sub"].as_str().unwrap_or("");
    let vec = case["vec"].as_str().unwrap_or("");
    let path: Vec<String> = case["path"].as_array().map(|a| a.iter().map(|x| x.as_str().unwrap_or("").to_string()).collect()).unwrap_or_default();
    fn mix<V: Vect>(gv: &Graph<V>, path: &[String], case: &Value, c: &mut Collector) {
        let (a, b) = (gv.index(&path[0]).expect("node"), gv.index(&path[1]).expect("node"));
        let x = conv::parse_hex3::<V::S>(&case["x"]);
        let y = conv::parse_hex3::<V::S>(&case["y"]);
        let lane = case["lane"].as_u64().unwrap_or(0) as usize;
        let f = gv.unc[a][b].expect("edge");
        let (rx, ry) = (conv::splat_ref::<V>(f, x).expect("splat x"), conv::splat_ref::<V>(f, y).expect("splat y"));
        println!("{} -> {} ({}): x = {:?} in lane {}, y = {:?} elsewhere", path[0], path[1], V::NAME, lat::to64(x), lane, lat::to64(y));
        println!("  f(splat(x)) lane {} = {:?}; f(splat(y)) lane 0 = {:?}", lane, lat::to64(rx[lane]), lat::to64(ry[0]));
        for j in 1..V::N {
            if !conv::same3(rx[j], rx[0]) {
                c.violation(&format!("C17/lane-independence/{}/{}->{}/splat-not-uniform/replay", V::NAME, path[0], path[1]), 1.0, || json!({"lane": j, "observed": conv::hex3(rx[j]), "expected": conv::hex3(rx[0])}));
            }
        }
        conv::check_mix_case(gv, a, b, x, y, lane, &rx, &ry, c);
    }
    fn vs<V: Vect>(gv: &Graph<V>, gs: &Graph<V::S>, path: &[String], case: &Value, c: &mut Collector) {
        let (a, b) = (gv.index(&path[0]).expect("node"), gv.index(&path[1]).expect("node"));
        let x = conv::parse_hex3::<V::S>(&case["x"]);
        let mut cnt = [0u64; 3];
        conv::check_vs_scalar_case(gv, gs, a, b, x, c, &mut cnt, true);
    }
    match sub {
        "lane-mix" => match vec {
            "f32x4" => mix(&g.v32x4, &path, case, c),
            "f32x8" => mix(&g.v32x8, &path, case, c),
            "f64x2" => mix(&g.v64x2, &path, case, c),
            "f64x4" => mix(&g.v64x4, &path, case, c),
            o => panic!("unknown vector type {o}"),
        },
        "simd-vs-scalar" => match vec {
            "f32x4" => vs(&g.v32x4, &g.s32, &path, case, c),
            "f32x8" => vs(&g.v32x8, &g.s32, &path, case, c),
            "f64x2" => vs(&g.v64x2, &g.s64, &path, case, c),
            "f64x4" => vs(&g.v64x4, &g.s64, &path, case, c),
            o => panic!("unknown vector type {o}"),
        },
        "pack-unpack" => match vec {
            "f32x4" => pack::replay_pack(&pack::table_f32x4(), case, c),
            "f32x8" => pack::replay_pack(&pack::table_f32x8(), case, c),
            "f64x2" => pack::replay_pack(&pack::table_f64x2(), case, c),
            "f64x4" => pack::replay_pack(&pack::table_f64x4(), case, c),
            o => panic!("unknown vector type {o}"),
        },
        "mask-ops" => match vec {
            "f32x4" => mask::replay_mask::<f32x4>(case, c),
            "f32x8" => mask::replay_mask::<f32x8>(case, c),
            "f64x2" => mask::replay_mask::<f64x2>(case, c),
            "f64x4" => mask::replay_mask::<f64x4>(case, c),
            o => panic!("unknown vector type {o}"),
        },
        "operators" => match vec {
            "f32x4" => ops::replay_ops(&ops::types_f32x4(), case, c),
            "f32x8" => ops::replay_ops(&ops::types_f32x8(), case, c),
            "f64x2" => ops::replay_ops(&ops::types_f64x2(), case, c),
            "f64x4" => ops::replay_ops(&ops::types_f64x4(), case, c),
            o => panic!("unknown vector type {o}"),
        },
        "alpha-conversions" => {
            let ctx = Ctx { only: Some(format!("alpha-conversions/{vec}")), ..Ctx::from_args("C17").0 };
            let mut all = Collector::new();
            alphaconv::run(&ctx, &mut all);
            let want = rep["signature"].as_str().unwrap_or("").to_string();
            all.viol.retain(|k, _| *k == want);
            c.merge(all);
        }
        "dark-relative" => {
            let ctx = Ctx { only: Some(format!("dark-relative/{vec}")), ..Ctx::from_args("C17").0 };
            let mut all = Collector::new();
            dark::run(&ctx, &mut all);
            let want = rep["signature"].as_str().unwrap_or("").to_string();
            all.viol.retain(|k, _| *k == want);
            c.merge(all);
        }
        "transfer" => {
            let ctx = Ctx { only: Some(format!("transfer/{vec}")), ..Ctx::from_args("C17").0 };
            let mut all = Collector::new();
            transfer::run(&ctx, &mut all);
            let want = rep["signature"].as_str().unwrap_or("").to_string();
            all.viol.retain(|k, _| *k == want);
            c.merge(all);
        }
        "slices" => {
            // small space: the sub-check is re-run and only the replayed signature kept
            let ctx = Ctx { only: Some(format!("slices/{vec}")), ..Ctx::from_args("C17").0 };
            let mut all = Collector::new();
            slices::run(&ctx, &mut all);
            let want = rep["signature"].as_str().unwrap_or("").to_string();
            all.viol.retain(|k, _| *k == want);
            c.merge(all);
        }
        "hues" => match vec {
            "f32x4" => hue::replay_hues(&hue::types_f32x4(), case, c),
            "f32x8" => hue::replay_hues(&hue::types_f32x8(), case, c),
            "f64x2" => hue::replay_hues(&hue::types_f64x2(), case, c),
            "f64x4" => hue::replay_hues(&hue::types_f64x4(), case, c),
            o => panic!("unknown vector type {o}"),
        },
        "f32-vs-f64" => {
            let (a, b) = (g.s32.index(&path[0]).expect("node"), g.s32.index(&path[1]).expect("node"));
            let x = conv::parse_hex3::<f32>(&case["x"]);
            let mut cnt = [0u64; 3];
            conv::check_f32_f64_case(&g.s32, &g.s64, a, b, x, c, &mut cnt, true);
        }
        o => panic!("unknown sub-check {o} in replay file"),
    }
}

fn real_main() -> i32 {
    let (ctx, mode) = Ctx::from_args("C17");
    if let Mode::Replay(rep) = mode {
        let mut c = Collector::new();
        replay(&mut c, &rep);
        return ctx.finish_replay(c);
    }
    let g = graphs();
    if ctx.only.as_deref() == Some("calib") {
        conv::calib(&g.v32x4, &g.s32);
        conv::calib(&g.v32x8, &g.s32);
        conv::calib(&g.v64x2, &g.s64);
        conv::calib(&g.v64x4, &g.s64);
        return 0;
    }
    let mut total = Collector::new();
    scan::scan(&mut total);
    record_adjacency(&g.v32x4, &g.s32, &mut total);
    record_adjacency(&g.v32x8, &g.s32, &mut total);
    record_adjacency(&g.v64x2, &g.s64, &mut total);
    record_adjacency(&g.v64x4, &g.s64, &mut total);
    conv::run_lanemix(&ctx, &g.v32x4, &mut total);
    conv::run_lanemix(&ctx, &g.v32x8, &mut total);
    conv::run_lanemix(&ctx, &g.v64x2, &mut total);
    conv::run_lanemix(&ctx, &g.v64x4, &mut total);
    conv::run_vs_scalar(&ctx, &g.v32x4, &g.s32, &mut total);
    conv::run_vs_scalar(&ctx, &g.v32x8, &g.s32, &mut total);
    conv::run_vs_scalar(&ctx, &g.v64x2, &g.s64, &mut total);
    conv::run_vs_scalar(&ctx, &g.v64x4, &g.s64, &mut total);
    conv::run_f32_f64(&ctx, &g.s32, &g.s64, &mut total);
    pack::run_pack(&ctx, &pack::table_f32x4(), &mut total);
    pack::run_pack(&ctx, &pack::table_f32x8(), &mut total);
    pack::run_pack(&ctx, &pack::table_f64x2(), &mut total);
    pack::run_pack(&ctx, &pack::table_f64x4(), &mut total);
    mask::run_mask::<f32x4>(&ctx, &mut total);
    mask::run_mask::<f32x8>(&ctx, &mut total);
    mask::run_mask::<f64x2>(&ctx, &mut total);
    mask::run_mask::<f64x4>(&ctx, &mut total);
    ops::run_ops(&ctx, &ops::types_f32x4(), &mut total);
    ops::run_ops(&ctx, &ops::types_f32x8(), &mut total);
    ops::run_ops(&ctx, &ops::types_f64x2(), &mut total);
    ops::run_ops(&ctx, &ops::types_f64x4(), &mut total);
    slices::run(&ctx, &mut total);
    transfer::run(&ctx, &mut total);
    dark::run(&ctx, &mut total);
    alphaconv::run(&ctx, &mut total);
    hue::run_hues(&ctx, &hue::types_f32x4(), &mut total);
    hue::run_hues(&ctx, &hue::types_f32x8(), &mut total);
    hue::run_hues(&ctx, &hue::types_f64x2(), &mut total);
    hue::run_hues(&ctx, &hue::types_f64x4(), &mut total);
    ctx.finish(
        total,
        "model_checking",
        "lane-mix: state = one packed SIMD input (x in one lane, y in all others) of one discovered edge / operator, transition = one vector conversion, trace = one lane compared bitwise with the same lane of f(splat); non-trivial = packed inputs whose two colours have different splat results (a leak between lanes would be visible). simd-vs-scalar, f32-vs-f64: state = (source node, lattice value), transitions = the two conversions, trace = one comparison in XYZ. pack-unpack: state = one array of N colours with distinct sentinels. mask-ops: state = a pair of lane patterns resp. (operand pairs, lane pattern); every lane compared with the scalar bool/float operation",
        &[
            "SIMD edges and operators are those rustc finds (autoref-specialisation probes); node list = pg's D65-core list, same order as the scalar graphs (asserted)",
            "lane independence and pack/unpack/mask operations are compared bitwise (two NaNs count as equal for conversions and operators; strictly bitwise for pack/unpack and masks)",
            "SIMD vs scalar and f32 vs f64 are compared as colours: both results through the same f64 reference map into linear-light XYZ (white = 1), only for colours that source and target can represent (c02's filter)",
            "tolerances: SIMD f32 1e-4, SIMD f64 1e-7, f32 vs f64 1e-4 (1e-3 with an Ok-cylindrical end), operators 1e-5 / 1e-12 relative; the observed maxima are in max_err_over_tol (known-defect input classes are excluded from that ratio)",
            "is_valid_divisor is only compared for zero and normal operands (scalar floats use is_normal(), vectors != 0); CIEDE2000 is not compared against the scalar within 0.5 degrees of opposite hues (documented discontinuity), lane independence is still checked there",
            "the hardware target is the build's default x86-64 (SSE2): wide's f32 recip is the rcpps estimate there",
        ],
    )
}
