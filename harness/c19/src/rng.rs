//! The environment of a sampler is the RNG, and the harness owns it: `ScriptRng` answers every
//! request with the next word of a fixed script and records what was asked. No real RNG exists
//! anywhere in this check.
use rand::RngCore;

pub const MAX_SCRIPT: usize = 8;

#[derive(Clone, Debug)]
pub struct ScriptRng {
    pub words: [u64; MAX_SCRIPT],
    pub len: usize,
    pub pos: usize,
    /// number of next_u32 / next_u64 / fill_bytes requests
    pub calls32: u32,
    pub calls64: u32,
    pub calls_bytes: u32,
    /// the sampler asked for more words than the script holds (a machinery failure of the check:
    /// the draw count is measured first and scripts are made exactly that long)
    pub overdrawn: bool,
}

impl ScriptRng {
    pub fn new(script: &[u64]) -> Self {
        assert!(script.len() <= MAX_SCRIPT, "script longer than MAX_SCRIPT");
        let mut words = [0u64; MAX_SCRIPT];
        words[..script.len()].copy_from_slice(script);
        ScriptRng { words, len: script.len(), pos: 0, calls32: 0, calls64: 0, calls_bytes: 0, overdrawn: false }
    }
    #[inline]
    fn take(&mut self) -> u64 {
        if self.pos < self.len {
            let w = self.words[self.pos];
            self.pos += 1;
            w
        } else {
            self.overdrawn = true;
            self.pos += 1;
            0
        }
    }
    pub fn drawn(&self) -> usize {
        self.pos
    }
}

impl RngCore for ScriptRng {
    #[inline]
    fn next_u32(&mut self) -> u32 {
        self.calls32 += 1;
        self.take() as u32
    }
    #[inline]
    fn next_u64(&mut self) -> u64 {
        self.calls64 += 1;
        self.take()
    }
    fn fill_bytes(&mut self, dest: &mut [u8]) {
        self.calls_bytes += 1;
        for ch in dest.chunks_mut(8) {
            let w = self.take().to_le_bytes();
            ch.copy_from_slice(&w[..ch.len()]);
        }
    }
    fn try_fill_bytes(&mut self, dest: &mut [u8]) -> Result<(), rand::Error> {
        self.fill_bytes(dest);
        Ok(())
    }
}

/// Word lattice over `bits`-bit words (32 for f32 samplers, 64 for f64 samplers), simplest first:
/// {0, 1, 2^k−1, 2^k (several k), MAX−1, MAX} ∪ equally spaced words. The all-zero word reaches the
/// low end of every range, the all-ones word the excluded/upper end, 2^k±… the places where the
/// float conversion (which keeps the top 23/24 resp. 52/53 bits) changes its low bits.
pub fn word_lattice(bits: u32, ks: &[u32], spaced: u32) -> Vec<u64> {
    let max: u64 = if bits == 64 { u64::MAX } else { (1u64 << bits) - 1 };
    let mut v: Vec<u64> = vec![0, max, 1, max - 1];
    for &k in ks {
        // k counted from the top: the bit 2^(bits-k)
        if k == 0 || k >= bits {
            continue;
        }
        let b = 1u64 << (bits - k);
        v.push(b);
        v.push(b - 1);
    }
    for i in 1..spaced {
        // i/spaced of the full range, exact in u128
        let w = ((max as u128 + 1) * i as u128 / spaced as u128) as u64;
        v.push(w);
    }
    let mut seen = std::collections::BTreeSet::new();
    v.retain(|w| seen.insert(*w));
    v
}
