//! DESIGN §3.2: the threshold list of the lattices is checked against the source at run time —
//! every numeric literal that appears as the argument of a mask comparison in the files this
//! check exercises must be in the list below, otherwise a coverage warning is recorded (a new
//! branch would otherwise silently fall between lattice points). Not a verdict.
use pv::{json, Collector};

/// (file, literal inside from_f64(...), where the lattices cover it)
const COVERED: &[(&str, &str, &str)] = &[
    ("encoding/srgb.rs", "0.04045", "lat::KNEES"),
    ("encoding/srgb.rs", "0.0031308", "lat::KNEES"),
    ("encoding/rec_standards.rs", "4.5*BETA", "lat::KNEES"),
    ("encoding/rec_standards.rs", "BETA", "lat::KNEES"),
    ("hsl.rs", "2.0", "rgb_points: next to white (max + min == 2)"),
    ("hsv.rs", "0.5", "hexcone_points: lightness 0.5 ± ulp"),
    ("rgb/rgb.rs", "2.0", "hue_points: sector edges k*60 ± ulp"),
    ("rgb/rgb.rs", "3.0", "hue_points"),
    ("rgb/rgb.rs", "4.0", "hue_points"),
    ("rgb/rgb.rs", "5.0", "hue_points"),
    ("color_difference.rs", "180.0", "ops::colours: hue pairs less / more than 180° apart and (full lattice) exactly opposite"),
    ("color_difference.rs", "360.0", "ops::colours: hue pairs more than 180° apart whose sum is below (10° + 333°) and above (36.87° + 333°) 360°"),
];
/// literals in scanned files that belong to functions this check does not call
const NOT_EXERCISED: &[(&str, &str, &str)] = &[
    ("color_difference.rs", "3.0", "WCAG has_min_contrast_* predicates"),
    ("color_difference.rs", "4.5", "WCAG has_min_contrast_* predicates"),
    ("color_difference.rs", "7.0", "WCAG has_enhanced_contrast_* predicates"),
];
const FILES: &[&str] = &[
    "encoding/srgb.rs", "encoding/rec_standards.rs", "encoding/adobe.rs", "encoding/linear.rs", "lab.rs", "xyz.rs", "yxy.rs", "lch.rs", "luv.rs", "lchuv.rs", "hsv.rs", "hsl.rs", "hwb.rs", "rgb/rgb.rs",
    "luma/luma.rs", "oklab.rs", "oklch.rs", "lms/lms.rs", "macros/lighten_saturate.rs", "macros/clamp.rs", "macros/blend.rs", "macros/mix.rs", "blend/blend.rs", "color_difference.rs",
];

pub fn scan(c: &mut Collector) {
    let repo = std::env::var("VERIF_REPO").unwrap_or_else(|_| "/repo".to_string());
    let mut found = vec![];
    let mut scanned = 0;
    for f in FILES {
        let Ok(txt) = std::fs::read_to_string(format!("{repo}/palette/src/{f}")) else { continue };
        scanned += 1;
        for (ln, line) in txt.lines().enumerate() {
            let code = line.split("//").next().unwrap_or("");
            for m in [".lt(", ".lt_eq(", ".gt(", ".gt_eq(", ".eq(", ".neq("] {
                let mut rest = code;
                while let Some(p) = rest.find(m) {
                    rest = &rest[p + m.len()..];
                    if let Some(q) = rest.find("from_f64(") {
                        // only when from_f64 is the direct argument (possibly after & and a path)
                        if rest[..q].chars().all(|ch| ch == '&' || ch == ':' || ch.is_alphanumeric() || ch == '_') {
                            let arg = &rest[q + 9..];
                            let lit = arg.split(')').next().unwrap_or("").trim().to_string();
                            found.push((f.to_string(), ln + 1, lit));
                        }
                    }
                }
            }
        }
    }
    let mut unknown = vec![];
    for (f, ln, lit) in &found {
        let known = COVERED.iter().chain(NOT_EXERCISED.iter()).any(|(kf, kl, _)| kf == f && kl == lit);
        if !known {
            unknown.push(format!("{f}:{ln} from_f64({lit})"));
        }
    }
    for u in &unknown {
        c.warn(format!("threshold literal in comparison position not in C17's lattice list: {u}"));
    }
    c.note(
        "threshold-scan",
        json!({"files_scanned": scanned, "literal_comparisons_found": found.len(), "not_in_list": unknown,
               "covered": COVERED.iter().map(|(f, l, w)| format!("{f}: {l} -> {w}")).collect::<Vec<_>>(),
               "in_scanned_files_but_not_exercised": NOT_EXERCISED.iter().map(|(f, l, w)| format!("{f}: {l} ({w})")).collect::<Vec<_>>(),
               "non_literal_thresholds": ["lab.rs: c > epsilon = (6/29)^3 (lat::KNEES, Xyz own points at eps*white ± 2 ulp)", "xyz.rs: c > epsilon = 6/29 (Lab own points: L* = 8 ± ulp, a/b at the fx/fz toe)", "T::zero()/T::one()/six comparisons: black, white, range ends, hue wrap in every lattice"]}),
    );
}
