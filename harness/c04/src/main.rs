//! C04 — zero-copy casts are lossless, length-exact and layout-sound.
//!
//! Exhaustive enumeration, on the real `palette::cast` code, of
//!   every ArrayCast / UintCast implementor × component type  (the registry below, cross-checked
//!   against a textual scan of palette/src at run time)
//! × every cast form (free functions, std conversions from `impl_array_casts!`, cast traits × owners)
//! × every buffer length 0..=4N+1 × (vectors) every capacity len..=len+N+1 × sentinel pattern.
//! Each case is executed once; an erased observation (pointers, lengths, capacities, component
//! bit patterns, allocator log) is judged by a non-generic oracle.
#[path = "forms.rs"]
mod f0;
#[path = "forms.rs"]
mod f1;
#[path = "forms.rs"]
mod f2;
#[path = "forms.rs"]
mod f3;
#[path = "forms.rs"]
mod f4;
#[path = "forms.rs"]
mod f5;
#[path = "forms.rs"]
mod f6;
#[path = "forms.rs"]
mod f7;
#[path = "forms.rs"]
mod f8;
#[path = "forms.rs"]
mod f9;
#[path = "forms.rs"]
mod f10;
#[path = "forms.rs"]
mod f11;
mod kinds;
mod meta;
mod miri;
mod scan;
mod subjects;
mod track;
mod uforms;

use meta::{Fal, FormMeta, Kd, Lens};
use kinds::{Obs, Outcome, Owner, P};
use palette::blend::PreAlpha;
use palette::Alpha;
use pv::{json, Collector, Ctx, Mode, Tier, Value};
use std::collections::{BTreeMap, BTreeSet};
use subjects::{alias, Prim, Subject, USubject};

#[global_allocator]
static GLOBAL: track::Tracking = track::Tracking;

// -----------------------------------------------------------------------------------------
// registry

type RunFn = fn(&str, &P) -> Option<Obs>;

pub struct TypeInfo {
    pub name: String,
    pub family: &'static str,
    pub class: &'static str,
    pub item: &'static str,
    pub n: usize,
    pub uint: bool,
    pub sent_bits: fn(usize, u8, u8) -> u128,
    pub run: RunFn,
    pub run_traits: Option<RunFn>,
    pub run_pairs: Option<RunFn>,
    pub run_pairs_traits: Option<RunFn>,
    /// size/align of (colour, array-or-uint, component)
    pub layout: [usize; 6],
    pub own_into_components: bool,
    /// comps(build(a)) == a for both sentinel palettes (declared order == into_components order)
    pub selfcheck: fn() -> Result<(), String>,
}

fn selfcheck<C: Subject<T, N>, T: Prim, const N: usize>() -> Result<(), String> {
    for pat in [0u8, 2] {
        let a: [T; N] = core::array::from_fn(|k| T::sent(k, pat, 0));
        let back = C::build(a).comps();
        let x: Vec<u128> = a.iter().map(|v| v.bits()).collect();
        let y: Vec<u128> = back.iter().map(|v| v.bits()).collect();
        if x != y {
            return Err(format!("built from {:x?} in declared field order, into_components() gave {:x?}", x, y));
        }
    }
    Ok(())
}
fn selfcheck_u<C: USubject<U>, U: Prim>() -> Result<(), String> {
    for pat in [0u8, 2] {
        let u = U::sent(0, pat, 0);
        if C::build(u).get().bits() != u.bits() {
            return Err("field read differs from field written".into());
        }
    }
    Ok(())
}

macro_rules! reg {
    ($v:ident, $md:ident, $ty:ty, $t:ty, $n:tt, $mode:ident) => {{
        type Cx = $ty;
        push_unique(
            &mut $v,
            TypeInfo {
                name: <Cx as Subject<$t, $n>>::label(),
                family: <Cx as Subject<$t, $n>>::FAMILY,
                class: <Cx as Subject<$t, $n>>::CLASS,
                item: <$t as Prim>::NAME,
                n: $n,
                uint: false,
                sent_bits: |i, p, g| <$t as Prim>::sent(i, p, g).bits(),
                run: |f, p| $md::run_core::<Cx, $t, $n>(f, p),
                run_traits: reg!(@traits $mode, $md, Cx, $t, $n),
                run_pairs: Some(with_pairs!($n, pairs_runner, $md, pair_fn, Cx, $t, $n)),
                run_pairs_traits: reg!(@ptraits $mode, $md, Cx, $t, $n),
                layout: [
                    core::mem::size_of::<Cx>(),
                    core::mem::align_of::<Cx>(),
                    core::mem::size_of::<[$t; $n]>(),
                    core::mem::align_of::<[$t; $n]>(),
                    core::mem::size_of::<$t>(),
                    core::mem::align_of::<$t>(),
                ],
                own_into_components: <Cx as Subject<$t, $n>>::OWN_INTO_COMPONENTS,
                selfcheck: || selfcheck::<Cx, $t, $n>(),
            },
        );
    }};
    (@traits core, $md:ident, $C:ty, $t:ty, $n:tt) => { None };
    (@traits traits, $md:ident, $C:ty, $t:ty, $n:tt) => { Some(|f, p| $md::run_traits::<$C, $t, $n>(f, p)) };
    (@ptraits core, $md:ident, $C:ty, $t:ty, $n:tt) => { None };
    (@ptraits traits, $md:ident, $C:ty, $t:ty, $n:tt) => { Some(with_pairs!($n, pairs_runner, $md, pair_trait, $C, $t, $n)) };
}
macro_rules! reg_uint {
    ($v:ident, $ty:ty, $u:ty) => {{
        type Cx = $ty;
        push_unique(
            &mut $v,
            TypeInfo {
                name: <Cx as USubject<$u>>::label(),
                family: <Cx as USubject<$u>>::FAMILY,
                class: "uint",
                item: <$u as Prim>::NAME,
                n: 1,
                uint: true,
                sent_bits: |i, p, g| <$u as Prim>::sent(i, p, g).bits(),
                run: |f, p| uforms::run_uint::<Cx, $u>(f, p),
                run_traits: None,
                run_pairs: None,
                run_pairs_traits: None,
                layout: [
                    core::mem::size_of::<Cx>(),
                    core::mem::align_of::<Cx>(),
                    core::mem::size_of::<$u>(),
                    core::mem::align_of::<$u>(),
                    core::mem::size_of::<$u>(),
                    core::mem::align_of::<$u>(),
                ],
                own_into_components: false,
                selfcheck: || selfcheck_u::<Cx, $u>(),
            },
        );
    }};
}
macro_rules! inst {
    ($v:ident, $md:ident, $n:tt, $n1:tt, $al:ident; plain [$($t:ty),*]; alpha [$($ta:ty),*]; pre [$($tp:ty),*]) => {
        $( reg!($v, $md, alias::$al<$t>, $t, $n, core); )*
        $( reg!($v, $md, Alpha<alias::$al<$ta>, $ta>, $ta, $n1, core); )*
        $( reg!($v, $md, PreAlpha<alias::$al<$tp>>, $tp, $n1, core); )*
    };
}

fn push_unique(v: &mut Vec<TypeInfo>, t: TypeInfo) {
    if !v.iter().any(|x| x.name == t.name) {
        v.push(t);
    }
}

type F32x4 = wide::f32x4;

pub fn registry() -> Vec<TypeInfo> {
    let mut v: Vec<TypeInfo> = vec![];
    // representative subset that also runs every cast trait × owner (registered first)
    reg!(v, f0, alias::FSrgb<u8>, u8, 3, traits);
    reg!(v, f1, alias::FSrgb<f32>, f32, 3, traits);
    reg!(v, f2, Alpha<alias::FSrgb<u8>, u8>, u8, 4, traits);
    reg!(v, f3, alias::FHsv<f32>, f32, 3, traits);
    reg!(v, f4, Alpha<alias::FLab<f64>, f64>, f64, 4, traits);
    reg!(v, f5, alias::FLuma<u16>, u16, 1, traits);
    reg!(v, f6, Alpha<alias::FLuma<u8>, u8>, u8, 2, traits);
    reg!(v, f7, PreAlpha<alias::FLinSrgb<f32>>, f32, 4, traits);
    reg!(v, f8, alias::PackedRgba<u8, 4>, u8, 4, traits);
    reg!(v, f9, alias::FCam16Jch<f32>, f32, 3, traits);
    reg!(v, f10, alias::FOklch<f64>, f64, 3, traits);
    reg!(v, f11, Alpha<Alpha<alias::FSrgb<u8>, u8>, u8>, u8, 5, traits);
    // every implementor × component types
    inst!(v, f0, 3, 4, FSrgb; plain [u8, u16, u32, f32, f64]; alpha [u8, u16, u32, f32, f64]; pre [f32, f64]);
    inst!(v, f1, 3, 4, FLinSrgb; plain [u8, u16, u32, f32, f64]; alpha [u8, u16, u32, f32, f64]; pre [f32, f64]);
    inst!(v, f2, 1, 2, FLuma; plain [u8, u16, u32, f32, f64]; alpha [u8, u16, u32, f32, f64]; pre [f32, f64]);
    inst!(v, f3, 3, 4, FXyz; plain [f32, f64]; alpha [f32, f64]; pre [f32, f64]);
    inst!(v, f3, 3, 4, FYxy; plain [f32, f64]; alpha [f32]; pre [f32, f64]);
    inst!(v, f4, 3, 4, FLab; plain [f32, f64]; alpha [f32, f64]; pre [f32, f64]);
    inst!(v, f4, 3, 4, FLch; plain [f32, f64]; alpha [f32]; pre []);
    inst!(v, f5, 3, 4, FLuv; plain [f32, f64]; alpha [f32]; pre [f32, f64]);
    inst!(v, f4, 3, 4, FLchuv; plain [f32, f64]; alpha [f32]; pre []);
    inst!(v, f5, 3, 4, FHsl; plain [u8, f32, f64]; alpha [f32]; pre []);
    inst!(v, f6, 3, 4, FHsv; plain [u8, f32, f64]; alpha [u8, f32, f64]; pre []);
    inst!(v, f5, 3, 4, FHwb; plain [u8, f32, f64]; alpha [f32]; pre []);
    inst!(v, f6, 3, 4, FHsluv; plain [f32, f64]; alpha [f32]; pre []);
    inst!(v, f7, 3, 4, FOklab; plain [f32, f64]; alpha [f32]; pre [f32, f64]);
    inst!(v, f6, 3, 4, FOklch; plain [f32, f64]; alpha [f32]; pre []);
    inst!(v, f7, 3, 4, FOkhsl; plain [f32, f64]; alpha [f32]; pre []);
    inst!(v, f7, 3, 4, FOkhsv; plain [f32, f64]; alpha [f32]; pre []);
    inst!(v, f7, 3, 4, FOkhwb; plain [f32, f64]; alpha [f32]; pre []);
    inst!(v, f8, 3, 4, FLms; plain [f32, f64]; alpha [f32]; pre [f32, f64]);
    inst!(v, f8, 3, 4, FCam16Jch; plain [f32, f64]; alpha [f32]; pre []);
    inst!(v, f8, 3, 4, FCam16Jmh; plain [f32, f64]; alpha [f32]; pre []);
    inst!(v, f8, 3, 4, FCam16Jsh; plain [f32, f64]; alpha [f32]; pre []);
    inst!(v, f9, 3, 4, FCam16Qch; plain [f32, f64]; alpha [f32]; pre []);
    inst!(v, f9, 3, 4, FCam16Qmh; plain [f32, f64]; alpha [f32]; pre []);
    inst!(v, f9, 3, 4, FCam16Qsh; plain [f32, f64]; alpha [f32]; pre []);
    inst!(v, f9, 3, 4, FCam16UcsJmh; plain [f32, f64]; alpha [f32]; pre []);
    inst!(v, f10, 3, 4, FCam16UcsJab; plain [f32, f64]; alpha [f32]; pre [f32, f64]);
    // nested wrappers, Packed arrays, a SIMD component type (16-byte alignment)
    reg!(v, f10, Alpha<PreAlpha<alias::FLinSrgb<f32>>, f32>, f32, 5, core);
    reg!(v, f11, alias::PackedAbgr<u8, 4>, u8, 4, core);
    reg!(v, f10, alias::PackedRgba<u8, 3>, u8, 3, core);
    reg!(v, f11, alias::PackedRgba<u8, 1>, u8, 1, core);
    reg!(v, f10, alias::PackedRgba<u16, 4>, u16, 4, core);
    reg!(v, f11, alias::PackedRgba<u32, 2>, u32, 2, core);
    reg!(v, f10, alias::PackedRgba<f32, 3>, f32, 3, core);
    reg!(v, f11, alias::PackedRgba<f64, 5>, f64, 5, core);
    reg!(v, f10, alias::FSrgb<F32x4>, F32x4, 3, core);
    reg!(v, f11, Alpha<alias::FSrgb<F32x4>, F32x4>, F32x4, 4, core);
    reg!(v, f10, PreAlpha<alias::FLinSrgb<F32x4>>, F32x4, 4, core);
    // UintCast
    reg_uint!(v, alias::LumaU<u8>, u8);
    reg_uint!(v, alias::LumaU<u16>, u16);
    reg_uint!(v, alias::LumaU<u32>, u32);
    reg_uint!(v, alias::LumaU<u64>, u64);
    reg_uint!(v, alias::LumaU<u128>, u128);
    reg_uint!(v, alias::PackedU<u8>, u8);
    reg_uint!(v, alias::PackedU<u16>, u16);
    reg_uint!(v, alias::PackedU<u32>, u32);
    reg_uint!(v, alias::PackedU<u64>, u64);
    reg_uint!(v, alias::PackedU<u128>, u128);
    v
}

// -----------------------------------------------------------------------------------------
// enumeration of the shapes of one (type, form)

pub struct Bounds {
    /// buffer lengths 0..=len_mul·N+len_add
    pub len_mul: usize,
    pub len_add: usize,
    /// capacities len..=len+cap_mul·N+cap_add
    pub cap_mul: usize,
    pub cap_add: usize,
    pub pats_vec: &'static [u8],
    pub pats: &'static [u8],
}
pub const QUICK: Bounds = Bounds { len_mul: 4, len_add: 1, cap_mul: 1, cap_add: 1, pats_vec: &[0, 1, 2, 3], pats: &[0, 2] };
pub const THOROUGH: Bounds = Bounds { len_mul: 6, len_add: 2, cap_mul: 2, cap_add: 2, pats_vec: &[0, 1, 2, 3], pats: &[0, 2] };
pub const MIRI: Bounds = Bounds { len_mul: 1, len_add: 2, cap_mul: 1, cap_add: 0, pats_vec: &[1], pats: &[0] };

pub fn shapes(t: &TypeInfo, fm: &FormMeta, owner: Owner, b: &Bounds, mut f: impl FnMut(P)) {
    let n = t.n;
    let vec_owner = owner == Owner::Vec;
    let pats = if vec_owner { b.pats_vec } else { b.pats };
    let lens: Vec<usize> = match (fm.lens, owner) {
        (Lens::One, _) => vec![1],
        (Lens::K3, _) => (0..=3).collect(),
        (Lens::Pairs, _) => vec![],
        (Lens::Exact1, _) => (0..=2 * n + 1).collect(),
        (Lens::Buf, Owner::Value) => (0..=3).collect(),
        (Lens::Buf, Owner::Array) => (0..=if fm.ik == Kd::T && !t.uint { 9 } else { 3 }).collect(),
        // at most 128 components per buffer, so that all sentinels stay distinct even for u8
        (Lens::Buf, _) => (0..=(b.len_mul * n + b.len_add).min(if fm.ik == Kd::T { 128 } else { 128 / n })).collect(),
    };
    if fm.lens == Lens::Pairs {
        for &(k, m) in meta::pairs_for(n) {
            for &pat in b.pats {
                f(P { len: k, cap: m, pat, owner });
            }
        }
        return;
    }
    for len in lens {
        let caps: Vec<usize> = if vec_owner { (len..=len + b.cap_mul * n + b.cap_add).collect() } else { vec![len] };
        for cap in caps {
            for &pat in pats {
                f(P { len, cap, pat, owner });
            }
        }
    }
}

fn run_form(t: &TypeInfo, table: u8, fm: &FormMeta, p: &P) -> Option<Obs> {
    match (table, fm.lens) {
        (0, Lens::Pairs) => t.run_pairs.and_then(|r| r(fm.name, p)),
        (0, _) => (t.run)(fm.name, p),
        (1, _) => t.run_traits.and_then(|r| r(fm.name, p)),
        (2, _) => t.run_pairs_traits.and_then(|r| r(fm.name, p)),
        _ => None,
    }
}

/// the form tables that apply to a type: (table id, forms)
pub fn tables(t: &TypeInfo) -> Vec<(u8, &'static [FormMeta])> {
    if t.uint {
        vec![(0, uforms::UINT_FORMS)]
    } else {
        let mut v: Vec<(u8, &'static [FormMeta])> = vec![(0, meta::CORE_FORMS)];
        if t.run_traits.is_some() {
            v.push((1, meta::TRAIT_FORMS));
            v.push((2, meta::TRAIT_PAIR_FORMS));
        }
        v
    }
}

fn sub_of(t: &TypeInfo, fm: &FormMeta) -> String {
    let g = fm.name.split('/').next().unwrap_or("fn");
    if t.uint {
        format!("uint-{g}")
    } else {
        g.to_string()
    }
}

// -----------------------------------------------------------------------------------------
// the oracle

pub struct Fail {
    pub kind: &'static str,
    pub detail: String,
}

pub struct Verdict {
    pub class: &'static str,
    pub accept: bool,
    pub exp_len: usize,
    pub exp_cap: usize,
    pub fails: Vec<Fail>,
}

fn stream(t: &TypeInfo, count: usize, pat: u8, gen: u8) -> Vec<u128> {
    (0..count).map(|i| (t.sent_bits)(i, pat, gen)).collect()
}

fn hexs(v: &[u128]) -> Vec<String> {
    v.iter().map(|x| format!("{x:#x}")).collect()
}

pub fn judge(t: &TypeInfo, fm: &FormMeta, p: &P, o: &Obs) -> Verdict {
    use track::Ev;
    let mut fails: Vec<Fail> = vec![];
    let mut fail = |kind: &'static str, detail: String| fails.push(Fail { kind, detail });
    let total = o.in_len * o.in_per;
    let cap_total = o.in_cap * o.in_per;
    // components per accepted output unit: the colour's N whenever a colour is involved
    let div = if fm.ik == Kd::T && fm.ok == Kd::T { t.n } else { o.out_per };
    let len_bad = total % div != 0;
    let cap_bad = o.has_cap && cap_total % div != 0;
    let accept = match fm.lens {
        Lens::Pairs => p.len * t.n == p.cap,
        Lens::Exact1 => total == o.out_per,
        _ => !len_bad && !cap_bad,
    };
    let exp_len = total / o.out_per;
    let exp_cap = cap_total / o.out_per;
    let class: &'static str = match fm.lens {
        Lens::One => "single",
        Lens::Pairs => {
            if accept {
                "array-length-matches"
            } else {
                "array-length-mismatch"
            }
        }
        Lens::K3 => "by-value-array",
        Lens::Exact1 => {
            if accept {
                "len==N"
            } else {
                "len!=N"
            }
        }
        Lens::Buf => {
            if p.owner == Owner::Value {
                "by-value-array"
            } else if total == 0 && (!o.has_cap || cap_total == 0) {
                "empty"
            } else if len_bad {
                "len-not-multiple"
            } else if cap_bad {
                "cap-not-multiple"
            } else {
                "multiple"
            }
        }
    };
    if fm.fal == Fal::Inf && !accept {
        fail("machinery", format!("form table marks {} infallible but the oracle rejects len={} cap={}", fm.name, o.in_len, o.in_cap));
    }
    let g0 = stream(t, total, p.pat, 0);
    match &o.outcome {
        Outcome::Panic(m) => {
            if accept {
                fail("unexpected-panic", format!("panicked on an acceptable buffer: {m}"));
            } else if fm.fal == Fal::Try {
                fail("panic-instead-of-Err", format!("try_ variant panicked instead of returning Err: {m}"));
            }
        }
        Outcome::Ok { ptr, len, cap, bits } => {
            if !accept {
                fail(
                    if len_bad || fm.lens != Lens::Buf { "accepted-bad-length" } else { "accepted-bad-capacity" },
                    format!("accepted a buffer of {} components / capacity {} for a {}-component type (got len {len} cap {cap})", total, cap_total, t.n),
                );
            } else {
                if o.has_ptr && *ptr != o.in_ptr {
                    fail("ptr-moved", format!("input at {:#x}, result at {:#x}", o.in_ptr, ptr));
                }
                if *len != exp_len {
                    fail("len-wrong", format!("result length {len}, expected {exp_len}"));
                }
                if o.has_cap && *cap != exp_cap {
                    fail("cap-wrong", format!("result capacity {cap}, expected {exp_cap} (input capacity {})", o.in_cap));
                }
                if *bits != g0 {
                    fail("content-wrong", format!("components read through the result {:?}, expected (declared field order, alpha last) {:?}", hexs(bits), hexs(&g0)));
                }
            }
        }
        Outcome::Rej { kind, ptr, len, cap, bits } => {
            if accept {
                fail("rejected-good-buffer", format!("returned Err({kind}) for len {} cap {}", o.in_len, o.in_cap));
            } else {
                let ok_kind = match *kind {
                    "length" => len_bad,
                    "capacity" => cap_bad, // when both mismatch either kind describes the buffer
                    _ => true,
                };
                if !ok_kind {
                    fail("wrong-error-kind", format!("error kind {kind} for len {} cap {} (N={})", o.in_len, o.in_cap, t.n));
                }
                if *ptr != o.in_ptr || *len != o.in_len || (o.has_cap && *cap != o.in_cap) || *bits != g0 {
                    fail(
                        "rejected-buffer-changed",
                        format!("handed back ptr {:#x} len {len} cap {cap} {:?}; gave ptr {:#x} len {} cap {} {:?}", ptr, hexs(bits), o.in_ptr, o.in_len, o.in_cap, hexs(&g0)),
                    );
                }
            }
        }
    }
    if let Some(a) = &o.orig_after {
        if *a != g0 {
            fail("original-changed", format!("original buffer after a shared-reference cast {:?}, before {:?}", hexs(a), hexs(&g0)));
        }
    }
    if let Some(a) = &o.wt_after {
        let g1 = stream(t, total, p.pat, 1);
        if *a != g1 {
            fail("write-not-visible", format!("wrote {:?} through the cast view, original now reads {:?}", hexs(&g1), hexs(a)));
        }
    } else if fm.mutable && matches!(o.outcome, Outcome::Ok { .. }) {
        fail("machinery", "mutable form without write-through observation".into());
    }
    // allocator log
    if o.ev_overflow || o.ev.len() != 3 {
        fail("machinery", format!("allocator log unusable (overflow={}, phases={})", o.ev_overflow, o.ev.len()));
    } else {
        let panicked = matches!(o.outcome, Outcome::Panic(_));
        // the live input allocation after the build phase
        let mut live: Vec<(usize, usize, usize)> = vec![];
        for e in &o.ev[0] {
            match *e {
                Ev::Alloc { ptr, size, align } => live.push((ptr, size, align)),
                Ev::Dealloc { ptr, .. } => live.retain(|l| l.0 != ptr),
                Ev::Realloc { ptr, align, new_ptr, new_size, .. } => {
                    live.retain(|l| l.0 != ptr);
                    live.push((new_ptr, new_size, align));
                }
                _ => {}
            }
        }
        let input_alloc = if o.has_ptr { live.iter().copied().find(|l| l.0 == o.in_ptr) } else { None };
        if !panicked && !o.ev[1].is_empty() {
            fail("alloc-during-cast", format!("the cast touched the allocator: {:?}", o.ev[1]));
        }
        if !panicked || input_alloc.is_some() {
            let mut freed = 0;
            let mut fresh: Vec<(usize, usize, usize)> = vec![];
            for e in o.ev[1].iter().chain(o.ev[2].iter()) {
                match *e {
                    Ev::Dealloc { ptr, size, align } => {
                        if let Some((ip, is, ia)) = input_alloc {
                            if ptr == ip {
                                freed += 1;
                                if size != is || align != ia {
                                    fail("dealloc-layout-mismatch", format!("buffer allocated with size {is} align {ia} was freed with size {size} align {align}"));
                                }
                                continue;
                            }
                        }
                        fresh.retain(|l| l.0 != ptr);
                    }
                    Ev::Alloc { ptr, size, align } => fresh.push((ptr, size, align)),
                    Ev::Realloc { ptr, new_ptr, new_size, align, .. } => {
                        if input_alloc.map(|l| l.0) == Some(ptr) && !panicked {
                            fail("realloc-of-buffer", format!("the buffer was reallocated to {new_ptr:#x} size {new_size}"));
                        }
                        fresh.retain(|l| l.0 != ptr);
                        fresh.push((new_ptr, new_size, align));
                    }
                    _ => {}
                }
            }
            if input_alloc.is_some() && freed != 1 {
                fail(if freed == 0 { "leak" } else { "double-free" }, format!("the input allocation was freed {freed} times after the cast"));
            }
            if !panicked && !fresh.is_empty() {
                fail("leak", format!("allocations made during/after the cast and never freed: {:?}", fresh));
            }
        }
    }
    Verdict { class, accept, exp_len, exp_cap, fails }
}

fn obs_json(o: &Obs) -> Value {
    let out = match &o.outcome {
        Outcome::Ok { ptr, len, cap, bits } => json!({"result": "Ok", "ptr": format!("{ptr:#x}"), "len": len, "cap": cap, "components": hexs(bits)}),
        Outcome::Rej { kind, ptr, len, cap, bits } => json!({"result": "Err", "kind": kind, "ptr": format!("{ptr:#x}"), "len": len, "cap": cap, "components": hexs(bits)}),
        Outcome::Panic(m) => json!({"result": "panic", "message": m}),
    };
    json!({"input": {"ptr": format!("{:#x}", o.in_ptr), "len": o.in_len, "cap": o.in_cap, "components_per_element": o.in_per}, "outcome": out,
           "written_through_view_then_original_reads": o.wt_after.as_ref().map(|v| hexs(v))})
}

fn outcome_hash(fm: &FormMeta, p: &P, o: &Obs) -> u64 {
    let mut h = pv::fnv(fm.name.as_bytes()) ^ pv::splitmix(p.owner as u64);
    let (tag, len, cap, bits): (u64, usize, usize, &[u128]) = match &o.outcome {
        Outcome::Ok { len, cap, bits, .. } => (1, *len, *cap, bits),
        Outcome::Rej { len, cap, bits, kind, .. } => (2 + kind.len() as u64, *len, *cap, bits),
        Outcome::Panic(_) => (9, 0, 0, &[]),
    };
    h = pv::splitmix(h ^ tag ^ ((len as u64) << 8) ^ ((cap as u64) << 24));
    for b in bits {
        h = pv::splitmix(h ^ (*b as u64) ^ ((*b >> 64) as u64));
    }
    h
}

// -----------------------------------------------------------------------------------------
// raw violations and their aggregation into signatures

pub struct Raw {
    pub ty: usize,
    pub form: String, // form name incl. owner
    pub kind: &'static str,
    pub class: &'static str,
    pub case: Value,
}

fn case_json(t: &TypeInfo, table: u8, fm: &FormMeta, p: &P, o: &Obs, v: &Verdict, f: &Fail) -> Value {
    json!({
        "sub": sub_of(t, fm), "type": t.name, "table": table, "form": fm.name, "owner": p.owner.name(), "len": p.len, "cap": p.cap, "pat": p.pat,
        "kind": f.kind, "input": format!("{} {}@{} len={} cap={} pat={}", t.name, fm.name, p.owner.name(), p.len, p.cap, p.pat),
        "observed": {"what": f.detail, "obs": obs_json(o)},
        "expected": {"accept": v.accept, "len": v.exp_len, "cap": v.exp_cap, "same_pointer": o.has_ptr, "class": v.class},
    })
}

fn form_key(fm: &FormMeta, owner: Owner) -> String {
    if fm.owners.len() > 1 || fm.name.starts_with("trait/") {
        format!("{}@{}", fm.name, owner.name())
    } else {
        fm.name.to_string()
    }
}

/// One defect = one (or a handful of) signatures: if every type that ran a form fails the same
/// way the type label is `*`; if every type of a wrapper class does, `<class>:*`; else the type.
fn aggregate(c: &mut Collector, types: &[TypeInfo], raws: Vec<Raw>, universe: &BTreeMap<String, BTreeSet<usize>>) {
    let mut groups: BTreeMap<(String, &'static str, &'static str), Vec<Raw>> = BTreeMap::new();
    for r in raws {
        groups.entry((r.form.clone(), r.kind, r.class)).or_default().push(r);
    }
    for ((form, kind, class), rs) in groups {
        let failing: BTreeSet<usize> = rs.iter().map(|r| r.ty).collect();
        let uni = universe.get(&form).cloned().unwrap_or_default();
        let label_of = |ty: usize| -> String {
            if uni.len() >= 2 && failing == uni {
                return "*".into();
            }
            let cls = types[ty].class;
            let uc: BTreeSet<usize> = uni.iter().copied().filter(|i| types[*i].class == cls).collect();
            let fc: BTreeSet<usize> = failing.iter().copied().filter(|i| types[*i].class == cls).collect();
            if uc.len() >= 2 && uc == fc {
                format!("{cls}:*")
            } else {
                types[ty].name.clone()
            }
        };
        for r in rs {
            let sig = format!("C04/{}/{}/{}/{}", form, kind, label_of(r.ty), class);
            let case = r.case;
            c.violation(&sig, 1.0, || case);
        }
    }
}

// -----------------------------------------------------------------------------------------
// running

struct ChunkOut {
    c: Collector,
    raws: Vec<Raw>,
    ran: Vec<String>,
}

fn explore_type(ctx: &Ctx, ti: usize, t: &TypeInfo, b: &Bounds) -> ChunkOut {
    let mut c = Collector::new();
    let mut raws: Vec<Raw> = vec![];
    let mut ran: Vec<String> = vec![];
    // layout + oracle self-check, once per instantiation
    if ctx.wants("layout") {
        // sentinels: 128 distinct values per palette and generation, generations disjoint
        for pat in [0u8, 2] {
            let mut seen = BTreeSet::new();
            for gen in [0u8, 1] {
                for i in 0..128 {
                    if !seen.insert((t.sent_bits)(i, pat, gen)) {
                        eprintln!("MACHINERY-FAILURE: sentinel collision for {} idx {i} pat {pat} gen {gen}", t.item);
                        std::process::exit(3);
                    }
                }
            }
        }
        let l = t.layout;
        let ok = l[0] == l[2] && l[1] == l[3] && l[0] == t.n * l[4] && l[1] == l[5];
        c.add("layout", 1, 1, 1, 1);
        c.outcome(pv::fnv(format!("layout{:?}", l).as_bytes()));
        ran.push("layout".into());
        if !ok {
            raws.push(Raw { ty: ti, form: "layout".into(), kind: "size-or-align", class: "single", case: json!({"sub": "layout", "type": t.name, "form": "layout", "kind": "size-or-align",
                "input": t.name, "observed": {"size_of_color": l[0], "align_of_color": l[1], "size_of_array": l[2], "align_of_array": l[3], "size_of_component": l[4], "align_of_component": l[5]},
                "expected": "size_of(C) == size_of(Array) == N*size_of(T) and align_of(C) == align_of(Array) == align_of(T)"}) });
        }
        if let Err(m) = (t.selfcheck)() {
            raws.push(Raw { ty: ti, form: "layout".into(), kind: "declared-order-vs-into_components", class: "single",
                case: json!({"sub": "layout", "type": t.name, "form": "layout", "kind": "declared-order-vs-into_components", "input": t.name, "observed": m, "expected": "into_components() lists the fields in declared order, alpha last"}) });
        }
    }
    for (table, forms) in tables(t) {
        for fm in forms.iter() {
            let sub = sub_of(t, fm);
            if !ctx.wants(&sub) {
                continue;
            }
            for &owner in fm.owners {
                let key = form_key(fm, owner);
                let (mut states, mut ops, mut nontrivial) = (0u64, 0u64, 0u64);
                shapes(t, fm, owner, b, |p| {
                    let o = match run_form(t, table, fm, &p) {
                        Some(o) => o,
                        None => {
                            eprintln!("MACHINERY-FAILURE: form {} not executable for {} at {:?}", fm.name, t.name, p);
                            std::process::exit(3);
                        }
                    };
                    let v = judge(t, fm, &p, &o);
                    states += 1;
                    ops += o.ops;
                    if o.in_len > 0 {
                        nontrivial += 1;
                    }
                    c.outcome(outcome_hash(fm, &p, &o));
                    let skey = pv::splitmix(ctx.seed ^ pv::fnv(t.name.as_bytes()) ^ pv::fnv(key.as_bytes()) ^ ((p.len as u64) << 32) ^ ((p.cap as u64) << 16) ^ p.pat as u64);
                    c.sample(skey, || json!({"sub": sub, "type": t.name, "form": key, "len": p.len, "cap_requested": p.cap, "pat": p.pat, "class": v.class, "accept_expected": v.accept, "obs": obs_json(&o)}));
                    for f in &v.fails {
                        if f.kind == "machinery" {
                            eprintln!("MACHINERY-FAILURE: {} {} {:?}: {}", t.name, fm.name, p, f.detail);
                            std::process::exit(3);
                        }
                        raws.push(Raw { ty: ti, form: key.clone(), kind: f.kind, class: v.class, case: case_json(t, table, fm, &p, &o, &v, f) });
                    }
                });
                if states > 0 {
                    ran.push(key);
                }
                c.add(&sub, states, ops, states, nontrivial);
            }
        }
    }
    ChunkOut { c, raws, ran }
}

fn find_form(t: &TypeInfo, table: u8, name: &str) -> Option<&'static FormMeta> {
    tables(t).into_iter().find(|(id, _)| *id == table).and_then(|(_, fs)| fs.iter().find(|f| f.name == name))
}

fn replay(c: &mut Collector, rep: &Value) {
    let case = &rep["case"];
    let types = registry();
    if case["sub"] == "miri" {
        miri::replay(c, rep);
        return;
    }
    let tname = case["type"].as_str().unwrap_or("");
    let Some((ti, t)) = types.iter().enumerate().find(|(_, t)| t.name == tname) else {
        eprintln!("replay: unknown type {tname}");
        std::process::exit(3);
    };
    let sig = rep["signature"].as_str().unwrap_or("").to_string();
    if case["form"] == "layout" {
        let ctx = Ctx::from_args("C04").0;
        let out = explore_type_layout_only(&ctx, ti, t);
        for r in out {
            println!("observed: {}", pv::report::compact(&r.case["observed"]));
            let s = if sig.contains(r.kind) { sig.clone() } else { format!("C04/layout/{}/{}/single", r.kind, t.name) };
            let cs = r.case;
            c.violation(&s, 1.0, || cs);
        }
        return;
    }
    let table = case["table"].as_u64().unwrap_or(0) as u8;
    let fname = case["form"].as_str().unwrap_or("");
    let Some(fm) = find_form(t, table, fname) else {
        eprintln!("replay: unknown form {fname}");
        std::process::exit(3);
    };
    let p = P {
        len: case["len"].as_u64().unwrap_or(0) as usize,
        cap: case["cap"].as_u64().unwrap_or(0) as usize,
        pat: case["pat"].as_u64().unwrap_or(0) as u8,
        owner: Owner::parse(case["owner"].as_str().unwrap_or("slice")).unwrap_or(Owner::Slice),
    };
    let Some(o) = run_form(t, table, fm, &p) else {
        eprintln!("replay: shape not executable");
        std::process::exit(3);
    };
    let v = judge(t, fm, &p, &o);
    println!("case: {} {}@{} len={} cap={} pat={}", t.name, fm.name, p.owner.name(), p.len, p.cap, p.pat);
    println!("observed: {}", pv::report::compact(&obs_json(&o)));
    println!("expected: accept={} len={} cap={} same_pointer={} class={}", v.accept, v.exp_len, v.exp_cap, o.has_ptr, v.class);
    for f in &v.fails {
        println!("  {}: {}", f.kind, f.detail);
        let key = form_key(fm, p.owner);
        let s = if sig.contains(&format!("/{}/", f.kind)) { sig.clone() } else { format!("C04/{}/{}/{}/{}", key, f.kind, t.name, v.class) };
        let cs = case_json(t, table, fm, &p, &o, &v, f);
        c.violation(&s, 1.0, || cs);
    }
}

fn explore_type_layout_only(ctx: &Ctx, ti: usize, t: &TypeInfo) -> Vec<Raw> {
    let only = Ctx { id: ctx.id, tier: ctx.tier, seed: ctx.seed, start: ctx.start, root: ctx.root.clone(), only: Some("layout".into()) };
    explore_type(&only, ti, t, &QUICK).raws
}

fn main() {
    // the Miri child must not touch the file system or the argument parser of pv
    let args: Vec<String> = std::env::args().collect();
    if args.get(1).map(|s| s.as_str()) == Some("--miri-child") {
        pv::quiet_panics();
        std::process::exit(miri::child(&args[2..]));
    }
    pv::main_guard(real_main)
}

fn real_main() -> i32 {
    let (ctx, mode) = Ctx::from_args("C04");
    if let Mode::Replay(rep) = mode {
        let mut c = Collector::new();
        replay(&mut c, &rep);
        return ctx.finish_replay(c);
    }
    let types = registry();
    let b = ctx.tier.pick(&QUICK, &THOROUGH);
    let outs = pv::par::map_chunks(types.len(), |i| explore_type(&ctx, i, &types[i], b));
    let mut total = Collector::new();
    let mut raws: Vec<Raw> = vec![];
    let mut universe: BTreeMap<String, BTreeSet<usize>> = BTreeMap::new();
    for (i, o) in outs.into_iter().enumerate() {
        total.merge(o.c);
        raws.extend(o.raws);
        for k in o.ran {
            universe.entry(k).or_default().insert(i);
        }
    }
    aggregate(&mut total, &types, raws, &universe);
    let lens = format!("every buffer length 0..={}N+{}", b.len_mul, b.len_add);
    let caps = format!("for vectors every capacity len..=len+{}N+{} (with_capacity and with_capacity(len)+reserve_exact; capacity() read back)", b.cap_mul, b.cap_add);
    let n_arr = types.iter().filter(|t| !t.uint).count();
    let n_tr = types.iter().filter(|t| t.run_traits.is_some()).count();
    let n_u = types.iter().filter(|t| t.uint).count();
    for (sub, what) in [
        ("fn", format!("{n_arr} ArrayCast instantiations × all {} free functions of palette::cast (by value, &, &mut, [C;K] K=0..=3, component arrays for literal (K,M) pairs incl. mismatches, slices, boxed slices, vectors, map_*_in_place) × {lens} × {caps} × 2 sentinel palettes", meta::CORE_FORMS.iter().filter(|f| f.name.starts_with("fn/")).count())),
        ("rt", format!("{n_arr} instantiations × round trips (value, &mut slice, Box<[C]>, Vec<C> through arrays and components; Vec<T> through try_from_component_vec and back) × {lens} × {caps}")),
        ("std", format!("{n_arr} instantiations × the {} AsRef/AsMut/From/TryFrom/Box conversions generated by impl_array_casts! (single-colour TryFrom<&[T]>: every length 0..=2N+1)", meta::CORE_FORMS.iter().filter(|f| f.name.starts_with("std/")).count())),
        ("trait", format!("{n_tr} representative instantiations × every cast trait method of the 5 ArrayCast trait files × owners ([_], [_;K] K=0..=3 resp. 0..=9 components, Box<[_]>, Vec<_>, by value) × {lens} × {caps}")),
        ("uint-fn", format!("{n_u} UintCast instantiations (Luma<S,uN>, Packed<O,uN>, N=8..128) × all free functions × {lens} × {caps}")),
        ("uint-rt", "UintCast round trips through Box and Vec".to_string()),
        ("uint-std", "UintCast std conversions (impl_uint_casts_self!/other!, impl_luma_cast_other!)".to_string()),
        ("uint-trait", "every method of as_uints_traits.rs and from_into_uints_traits.rs × owners".to_string()),
        ("layout", "size_of/align_of equalities and declared-order == into_components-order, once per instantiation".to_string()),
    ] {
        if total.sub.contains_key(sub) {
            total.exhaustive(sub, true, &what);
        }
    }
    total.note("instantiations", json!(types.iter().map(|t| t.name.clone()).collect::<Vec<_>>()));
    if ctx.wants("scan") {
        scan::coverage(&ctx, &mut total, &types);
    }
    if ctx.tier == Tier::Thorough && ctx.wants("miri") {
        miri::parent(&ctx, &mut total);
    }
    ctx.finish(
        total,
        "model_checking",
        "a state is one (type instantiation, cast form, owner, buffer length, capacity, sentinel palette); all are enumerated in lexicographic order and each is executed once on the real cast code; the observation (pointer, len, capacity, component bit patterns before/after, writes through the view, allocator log) is compared with an arithmetic oracle (total components preserved; accept iff len — for moved vectors also capacity — is a multiple of N). Non-trivial = the buffer holds at least one element",
        &[
            "colours are built field by field in declared order with struct literals and read back with the type's own into_components() (hues via into_inner); both agree on every listed type (checked at start)",
            "the global allocator of the check binary logs alloc/dealloc/realloc with layouts on the current thread: a cast must not touch the allocator and the buffer must later be freed exactly once with the layout it was allocated with",
            "Vec::with_capacity / reserve_exact capacities are read back with capacity(), never assumed",
            "when both length and capacity of a vector are not multiples of N either VecCastErrorKind is accepted; LengthMismatch is required when only the length is bad, CapacityMismatch when only the capacity is",
            "the single-colour std conversion TryFrom<&[T]> for &C must accept exactly len == N",
        ],
    )
}
