//! The `Into*` mirror traits (`IntoColor`, `IntoColorUnclamped`, `TryIntoColor`) are blanket impls over
//! the `From*` traits: each must return, bit for bit, what the `From*` form returns — clamped, unclamped
//! and checked alike (Ok / Err and the value carried by either), for plain and Alpha-wrapped colours.
//! Space: 7 type pairs x a product lattice of the source type reaching far outside its range and the
//! target's gamut (so all three contracts differ on part of it).
use palette::convert::{FromColor, FromColorUnclamped, IntoColor, IntoColorUnclamped, TryFromColor, TryIntoColor};
use palette::{Alpha, Hsl, Hsv, Lab, Lch, LinSrgb, Oklab, Okhsl, Srgb, Xyz};
use pv::{json, Collector, Ctx};

fn bits<const N: usize>(v: [f64; N]) -> [u64; N] {
    v.map(|x| x.to_bits())
}

macro_rules! pair {
    ($c:expr, $n:expr, $name:literal, $A:ty, $B:ty, $T:ty, $mk:expr, $lat:expr) => {{
        let lat: [Vec<f64>; 3] = $lat;
        for &x in &lat[0] {
            for &y in &lat[1] {
                for &z in &lat[2] {
                    $n += 1;
                    let a: $A = $mk(x as $T, y as $T, z as $T);
                    let arr = |b: $B| -> [f64; 3] { let t: [$T; 3] = palette::cast::into_array(b); [t[0] as f64, t[1] as f64, t[2] as f64] };
                    let case = |what: &str, obs: String, exp: String| json!({"sub": "into-forms", "pair": $name, "what": what, "input": [x, y, z], "observed": obs, "expected": exp});
                    let r = pv::catch(|| {
                        let f_unc = arr(<$B>::from_color_unclamped(a));
                        let i_unc = arr(IntoColorUnclamped::<$B>::into_color_unclamped(a));
                        let f_cl = arr(<$B>::from_color(a));
                        let i_cl = arr(IntoColor::<$B>::into_color(a));
                        let f_try = <$B>::try_from_color(a).map(arr).map_err(|e| arr(e.color()));
                        let i_try = TryIntoColor::<$B>::try_into_color(a).map(arr).map_err(|e| arr(e.color()));
                        (f_unc, i_unc, f_cl, i_cl, f_try, i_try)
                    });
                    match r {
                        Err(msg) => $c.violation(&format!("C03/into-forms/{}/panic", $name), 1.0, || case("panic", msg.clone(), "no panic".into())),
                        Ok((f_unc, i_unc, f_cl, i_cl, f_try, i_try)) => {
                            if bits(f_unc) != bits(i_unc) {
                                $c.violation(&format!("C03/into-forms/{}/into_color_unclamped", $name), 1.0, || case("into_color_unclamped vs from_color_unclamped", format!("{:?}", i_unc), format!("{:?}", f_unc)));
                            }
                            if bits(f_cl) != bits(i_cl) {
                                $c.violation(&format!("C03/into-forms/{}/into_color", $name), 1.0, || case("into_color vs from_color", format!("{:?}", i_cl), format!("{:?}", f_cl)));
                            }
                            let same = match (&f_try, &i_try) {
                                (Ok(p), Ok(q)) | (Err(p), Err(q)) => bits(*p) == bits(*q),
                                _ => false,
                            };
                            if !same {
                                $c.violation(&format!("C03/into-forms/{}/try_into_color", $name), 1.0, || case("try_into_color vs try_from_color", format!("{:?}", i_try), format!("{:?}", f_try)));
                            }
                            $c.outcome(pv::splitmix(f_unc[0].to_bits() ^ f_cl[1].to_bits().rotate_left(17) ^ (f_try.is_ok() as u64)));
                        }
                    }
                    // Alpha-wrapped: colour as above, alpha carried over
                    let aa: Alpha<$A, $T> = Alpha { color: a, alpha: 0.25 as $T };
                    let r = pv::catch(|| {
                        let f: Alpha<$B, $T> = Alpha::<$B, $T>::from_color_unclamped(aa);
                        let i: Alpha<$B, $T> = aa.into_color_unclamped();
                        let fc: Alpha<$B, $T> = Alpha::<$B, $T>::from_color(aa);
                        let ic: Alpha<$B, $T> = aa.into_color();
                        (arr(f.color), f.alpha as f64, arr(i.color), i.alpha as f64, arr(fc.color), fc.alpha as f64, arr(ic.color), ic.alpha as f64)
                    });
                    if let Ok((f, fa, i, ia, fc, fca, ic, ica)) = r {
                        if bits(f) != bits(i) || fa != ia || bits(fc) != bits(ic) || fca != ica {
                            $c.violation(&format!("C03/into-forms/{}/alpha", $name), 1.0, || case("Alpha into_color(_unclamped) vs from_color(_unclamped)", format!("{:?} {} / {:?} {}", i, ia, ic, ica), format!("{:?} {} / {:?} {}", f, fa, fc, fca)));
                        }
                    }
                }
            }
        }
    }};
}

pub fn run(ctx: &Ctx, total: &mut Collector) {
    let sub = "into-forms";
    if !ctx.wants(sub) {
        return;
    }
    let mut c = Collector::new();
    let mut n = 0u64;
    let unit = || vec![-0.5, 0.0, 1e-9, 0.25, 0.5, 1.0, 1.5];
    let hue = || vec![-30.0, 0.0, 60.0, 200.0, 359.0, 480.0];
    pair!(c, n, "Hsl<f32>->Srgb<f32>", Hsl<palette::encoding::Srgb, f32>, Srgb<f32>, f32, |h, s, l| Hsl::new_srgb(h, s, l), [hue(), unit(), unit()]);
    pair!(c, n, "Hsv<f64>->Xyz<f64>", Hsv<palette::encoding::Srgb, f64>, Xyz<palette::white_point::D65, f64>, f64, |h, s, v| Hsv::new_srgb(h, s, v), [hue(), unit(), unit()]);
    pair!(c, n, "Lab<f64>->Srgb<f64>", Lab<palette::white_point::D65, f64>, Srgb<f64>, f64, |l, a, b| Lab::new(l, a, b), [vec![-10.0, 0.0, 50.0, 100.0, 120.0], vec![-150.0, -128.0, 0.0, 60.0, 127.0], vec![-150.0, 0.0, 127.0, 140.0]]);
    pair!(c, n, "Lch<f32>->Xyz<f32>", Lch<palette::white_point::D65, f32>, Xyz<palette::white_point::D65, f32>, f32, |l, ch, h| Lch::new(l, ch, h), [vec![-10.0, 0.0, 50.0, 100.0, 120.0], vec![-5.0, 0.0, 60.0, 128.0, 200.0], hue()]);
    pair!(c, n, "Srgb<f32>->Hsl<f32>", Srgb<f32>, Hsl<palette::encoding::Srgb, f32>, f32, |r, g, b| Srgb::new(r, g, b), [unit(), unit(), unit()]);
    pair!(c, n, "Xyz<f64>->Oklab<f64>", Xyz<palette::white_point::D65, f64>, Oklab<f64>, f64, |x, y, z| Xyz::new(x, y, z), [unit(), unit(), unit()]);
    pair!(c, n, "LinSrgb<f32>->Okhsl<f32>", LinSrgb<f32>, Okhsl<f32>, f32, |r, g, b| LinSrgb::new(r, g, b), [unit(), unit(), unit()]);
    c.add(sub, n, 8 * n, 8 * n, n);
    total.merge(c);
    total.exhaustive(sub, true, "7 type pairs x the product lattice of the source (components from below to above the range, un-normalised hues): IntoColorUnclamped / IntoColor / TryIntoColor (Ok / Err and the value carried) and the Alpha-wrapped into forms, bit for bit against the From* forms");
}
