//! Volume sub-check, decided without statistics: the complete regular grid of the words feeding the
//! radial and height draws is pushed through the sampler; the images must fill equal-volume cells
//! of the cone / bicone evenly (exact push-forward count) and, for a sampler observed to be
//! monotone in each word, coincide with the closed-form inverse CDF (geom.rs).
use crate::geom::{closed_form_bounds, Cdf};
use crate::range::*;
use crate::rng::ScriptRng;
use crate::spec::{Sampler, Shape, Spec, A4};
use pv::fl::Fl;
use pv::{json, Collector, Ctx, Tier, Value};
use rand::distributions::uniform::SampleUniform;

/// cells per axis
const K: usize = 16;

#[derive(Clone)]
pub struct Dist<T: Fl> {
    pub label: &'static str,
    /// None = Standard; Some((low, high, inclusive))
    pub ends: Option<(A4<T>, A4<T>, bool)>,
    /// cell counting needs the full shape; sub-ranges get the closed form only
    pub full: bool,
}

enum Smp<'a, T: Fl> {
    Std(&'a Spec<T>),
    Uni(Sampler<T>),
}
impl<'a, T: Fl> Smp<'a, T> {
    fn f(&self) -> &dyn Fn(&mut ScriptRng) -> A4<T> {
        match self {
            Smp::Std(sp) => &*sp.std,
            Smp::Uni(s) => &**s,
        }
    }
}
fn sampler<'a, T: Fl>(sp: &'a Spec<T>, d: &Dist<T>) -> Smp<'a, T> {
    match &d.ends {
        None => Smp::Std(sp),
        Some((lo, hi, inc)) => Smp::Uni(build(sp, lo, hi, *inc).unwrap_or_else(|m| machinery(format!("volume: constructor for {} {} panicked: {m}", sp.name, d.label)))),
    }
}

/// (hue, radial, height) of a sample in the coordinates of its cone / bicone
fn coords<T: Fl>(sp: &Spec<T>, x: &A4<T>) -> (f64, f64, f64) {
    let h = x[sp.hue_index().unwrap()].to64();
    match sp.shape {
        Shape::Cone { s, v } => (h, x[s].to64(), x[v].to64()),
        Shape::Bicone { s, l, .. } => (h, x[s].to64(), x[l].to64()),
        Shape::HwbCone { .. } => {
            let e = (sp.to_hsv.unwrap())(x);
            (h, e[1].to64(), e[2].to64())
        }
        _ => unreachable!(),
    }
}
fn cdfs<T: Fl>(sp: &Spec<T>) -> (Cdf, Cdf) {
    match sp.shape {
        Shape::Cone { .. } | Shape::HwbCone { .. } => (Cdf::Square { scale: 1.0 }, Cdf::Cube),
        Shape::Bicone { scale, .. } => (Cdf::Square { scale }, Cdf::Bicone { scale }),
        _ => unreachable!(),
    }
}

fn grid_word<T: Fl>(i: usize, n: u32) -> u64 {
    (i as u64) << (word_bits::<T>() - n)
}

/// What the probing found out about the draws of one (type, distribution).
#[derive(Clone, Copy, Debug)]
pub struct Plan {
    pub d: Draws,
    pub p_hue: usize,
    /// the two grid axes: draw positions and what they feed (2 = radial, 4 = height, 6 = both)
    pub p: [usize; 2],
    pub role: [u8; 2],
    /// both axes feed exactly one coordinate each and the map is non-decreasing along them
    pub closed_form_ok: bool,
}

pub fn plan<T: Fl>(sp: &Spec<T>, dist: &Dist<T>) -> Plan {
    let smp = sampler(sp, dist);
    let who = format!("volume/{}<{}>/{}", sp.name, T::NAME, dist.label);
    let d = probe_draws::<T>(smp.f(), &who);
    if d.n != 3 {
        machinery(format!("{who}: a cone colour was expected to draw 3 words, drew {}", d.n));
    }
    let bits = word_bits::<T>();
    let top = |x: u64| x << (bits - 4); // 4-bit patterns in the top bits
    let base = [top(0b1000); 3];
    let alts = [top(0b0100), top(0b1100), top(0b0010)];
    let x0 = coords(sp, &run_sample::<T>(smp.f(), &base, d, &who));
    let mut roles = [0u8; 3];
    for p in 0..3 {
        for a in alts {
            let mut s = base;
            s[p] = a;
            let x = coords(sp, &run_sample::<T>(smp.f(), &s, d, &who));
            // "changes" = by far more than rounding noise (the alternative words move a variate by ≥ 1/8;
            // the HWB→HSV round trip alone perturbs s by ~1e-6 in f32 when only v changes)
            let sc = cdfs(sp).0.scale();
            if x.0 != x0.0 {
                roles[p] |= 1;
            }
            if !((x.1 - x0.1).abs() <= 1e-4 * sc) {
                roles[p] |= 2;
            }
            if !((x.2 - x0.2).abs() <= 1e-4 * sc) {
                roles[p] |= 4;
            }
        }
    }
    let hue_draws: Vec<usize> = (0..3).filter(|&p| roles[p] == 1).collect();
    let others: Vec<usize> = (0..3).filter(|&p| roles[p] & 1 == 0).collect();
    if hue_draws.len() != 1 || others.len() != 2 {
        machinery(format!("{who}: draw structure not separable into one hue word and two shape words: roles {roles:?}"));
    }
    let p = [others[0], others[1]];
    let role = [roles[p[0]], roles[p[1]]];
    // monotone along each axis (a precondition of the inverse-CDF lemma), on a 256-point line
    let mut mono = (role == [2, 4]) || (role == [4, 2]);
    if mono {
        for ax in 0..2 {
            let mut prev = f64::NEG_INFINITY;
            for i in 0..256usize {
                let mut s = base;
                s[p[ax]] = grid_word::<T>(i, 8);
                let x = coords(sp, &run_sample::<T>(smp.f(), &s, d, &who));
                let v = if role[ax] == 2 { x.1 } else { x.2 };
                if !(v >= prev) {
                    mono = false;
                }
                prev = v;
            }
        }
    }
    Plan { d, p_hue: hue_draws[0], p, role, closed_form_ok: mono }
}

/// the uniform variate a grid index encodes for one axis: F(low) + t·(F(high) − F(low)), t = i/N
fn variate<T: Fl>(sp: &Spec<T>, dist: &Dist<T>, cdf: Cdf, radial: bool, t: f64) -> f64 {
    match &dist.ends {
        None => t,
        Some((lo, hi, _)) => {
            let (a, b) = (coords(sp, lo), coords(sp, hi));
            let (x0, x1) = if radial { (a.1.min(b.1), a.1.max(b.1)) } else { (a.2.min(b.2), a.2.max(b.2)) };
            let (f0, f1) = (cdf.f(x0), cdf.f(x1));
            f0 + t * (f1 - f0)
        }
    }
}

pub struct Block {
    pub count: Vec<u32>,
    pub nb: Vec<u32>,
    pub c: Collector,
    pub points: u64,
    pub ambiguous: u64,
    pub traces: u64,
}

/// Rows [r0, r1) of axis 0 × all of axis 1, for one hue word.
pub fn run_block<T: Fl>(sp: &Spec<T>, dist: &Dist<T>, pl: &Plan, n: u32, hue_word: u64, r0: usize, r1: usize, cols: Option<(usize, usize)>, seed: u64) -> Block {
    let smp = sampler(sp, dist);
    let f = smp.f();
    let who = format!("volume/{}<{}>/{}", sp.name, T::NAME, dist.label);
    let nn = 1usize << n;
    let (cr, ch) = cdfs(sp);
    let eps = T::EPS;
    let mp = min_pos::<T>();
    let hwb = matches!(sp.shape, Shape::HwbCone { .. });
    let delta_k = K as f64 / (4.0 * nn as f64); // a quarter grid step, in cell units
    let m = nn / K;
    let mut b = Block { count: vec![0; K * K], nb: vec![0; K * K], c: Collector::new(), points: 0, ambiguous: 0, traces: 0 };
    let sub = format!("volume/{}", T::NAME);
    let mut script = [0u64; 3];
    script[pl.p_hue] = hue_word;
    for i in r0..r1 {
        script[pl.p[0]] = grid_word::<T>(i, n);
        for j in cols.map(|c| c.0..c.1).unwrap_or(0..nn) {
            script[pl.p[1]] = grid_word::<T>(j, n);
            let x = run_sample::<T>(f, &script, pl.d, &who);
            let (_h, rad, hgt) = coords(sp, &x);
            b.points += 1;
            // grid index of each coordinate's own axis, if separable
            let (ir, ih) = match pl.role {
                [2, 4] => (Some(i), Some(j)),
                [4, 2] => (Some(j), Some(i)),
                _ => (None, None),
            };
            // ---- closed form
            if pl.closed_form_ok {
                let mk = |what: &str, obs: f64, l: f64, h: f64, u: f64| {
                    json!({"sub": "volume", "kind": "closed-form", "type": sp.name, "float": T::NAME, "dist": dist.label, "low_bits": dist.ends.as_ref().map(|e| hexs(&e.0, sp.n)), "high_bits": dist.ends.as_ref().map(|e| hexs(&e.1, sp.n)),
                        "script": words_hex(&script), "input": {"script": words_hex(&script), "grid_bits": n}, "grid_bits": n, "what": what, "sample": f64s(&x, sp.n), "observed": obs, "expected": {"inverse_cdf_at": u, "allowed": [l, h]}})
                };
                for (radial, idx, cdf, obs, name) in [(true, ir.unwrap(), cr, rad, "radial"), (false, ih.unwrap(), ch, hgt, "height")] {
                    if hwb && radial && hgt <= 0.0 {
                        continue; // black: saturation undefined
                    }
                    let u = variate(sp, dist, cdf, radial, idx as f64 / nn as f64);
                    // the variate itself: ≤ 3 eps·u from forming F(low), the scale and the affine map
                    // in the component type (see DESIGN/volume comment) — allowed 24 eps·u
                    let du = 24.0 * eps * u.abs() + 16.0 * mp;
                    let (mut l, mut h) = closed_form_bounds(cdf, u, du, eps);
                    if hwb {
                        let t = if radial { eps * (16.0 + 2.0 / hgt) } else { 16.0 * eps };
                        l -= t;
                        h += t;
                    }
                    b.traces += 1;
                    let mid = cdf.inv(u);
                    let tol = (h - mid).max(mid - l);
                    let err = (obs - mid).abs();
                    b.c.ratio(&sub, if err.is_nan() { f64::NAN } else { err / tol }, || mk(name, obs, l, h, u));
                    if !(obs >= l && obs <= h) {
                        b.c.violation(&format!("C19/volume/{}/{}/{}/closed-form/{}", sp.name, T::NAME, dist.label, name), err, || mk(name, obs, l, h, u));
                    }
                }
            }
            // ---- cell of the image in equal-volume coordinates
            if dist.full {
                if hwb && hgt <= 0.0 {
                    // the apex (black): one geometric point of zero volume whose saturation is undefined; an
                    // exact sampler puts M of these N points on the lower boundary of each cell (·, 0)
                    b.ambiguous += 1;
                    match ir {
                        Some(r) => b.nb[(r / m).min(K - 1) * K] += 1,
                        None => (0..K).for_each(|a| b.nb[a * K] += 1),
                    }
                    continue;
                }
                let (kx, ky) = (cr.f(rad) * K as f64, ch.f(hgt) * K as f64);
                let cell = |k: f64| -> (usize, bool, bool) {
                    let a = (k.floor().max(0.0) as usize).min(K - 1);
                    let fr = k - a as f64;
                    (a, fr <= delta_k && a > 0, fr >= 1.0 - delta_k && a + 1 < K)
                };
                let (a, alo, ahi) = cell(kx);
                let (bb, blo, bhi) = cell(ky);
                b.count[a * K + bb] += 1;
                if alo || ahi || blo || bhi {
                    b.ambiguous += 1;
                    let xs: Vec<usize> = [Some(a), alo.then(|| a - 1), ahi.then(|| a + 1)].into_iter().flatten().collect();
                    let ys: Vec<usize> = [Some(bb), blo.then(|| bb - 1), bhi.then(|| bb + 1)].into_iter().flatten().collect();
                    for &xa in &xs {
                        for &yb in &ys {
                            b.nb[xa * K + yb] += 1;
                        }
                    }
                }
            }
            let mut hsh = pv::fnv(sp.name.as_bytes());
            for v in &x[..sp.n] {
                hsh = pv::splitmix(hsh ^ v.bits64());
            }
            b.c.outcome(hsh);
            if i == r0 && j == nn / 3 {
                b.c.sample(pv::splitmix(seed ^ hsh), || json!({"sub": "volume", "type": sp.name, "float": T::NAME, "dist": dist.label, "script": words_hex(&script), "sample": f64s(&x, sp.n), "equal_volume_coordinates": [cr.f(rad), ch.f(hgt)]}));
            }
        }
    }
    b
}

/// judge the cell counts of one complete grid
pub fn judge_cells<T: Fl>(sp: &Spec<T>, dist: &Dist<T>, n: u32, hue_word: u64, count: &[u32], nb: &[u32], c: &mut Collector) -> u64 {
    let nn = 1u64 << n;
    let e = (nn / K as u64) * (nn / K as u64);
    let mut traces = 0;
    for a in 0..K {
        for b in 0..K {
            traces += 1;
            let (cnt, amb) = (count[a * K + b] as i64, nb[a * K + b] as i64);
            let dev = (cnt - e as i64).abs();
            if dev > amb {
                c.violation(&format!("C19/volume/{}/{}/{}/cell-count", sp.name, T::NAME, dist.label), dev as f64 / e as f64, || {
                    json!({"sub": "volume", "kind": "cells", "type": sp.name, "float": T::NAME, "dist": dist.label, "low_bits": dist.ends.as_ref().map(|e| hexs(&e.0, sp.n)), "high_bits": dist.ends.as_ref().map(|e| hexs(&e.1, sp.n)),
                        "grid_bits": n, "hue_word": format!("{:#x}", hue_word), "input": {"grid_bits": n, "hue_word": format!("{:#x}", hue_word)},
                        "observed": {"cell": {"radial_cdf_bin": a, "height_cdf_bin": b, "of": K}, "count": cnt, "points_within_quarter_step_of_its_boundary": amb},
                        "expected": {"count": e, "allowed_deviation": amb}})
                });
            }
        }
    }
    traces
}

/// Hue: the uniform-volume distribution is uniform in angle. The complete grid of 2^nh hue words
/// (other words fixed) must fill KH equal arcs of the circle evenly; allowed deviation = number of
/// images within a quarter grid step of the arc's ends (counted). Standard only: there the hue is
/// the whole circle by definition.
const KH: usize = 64;
pub fn hue_circle<T: Fl>(sp: &Spec<T>, dist: &Dist<T>, pl: &Plan, nh: u32, others: u64, c: &mut Collector) -> (u64, u64, u64) {
    let smp = sampler(sp, dist);
    let who = format!("volume/{}<{}>/{}", sp.name, T::NAME, dist.label);
    let nn = 1usize << nh;
    let delta_k = KH as f64 / (4.0 * nn as f64);
    let (mut count, mut nb) = (vec![0i64; KH], vec![0i64; KH]);
    let mut script = [others; 3];
    let mut amb = 0u64;
    for i in 0..nn {
        script[pl.p_hue] = grid_word::<T>(i, nh);
        let x = run_sample::<T>(smp.f(), &script, pl.d, &who);
        let h = x[sp.hue_index().unwrap()].to64();
        let k = h.rem_euclid(360.0) / 360.0 * KH as f64;
        if !k.is_finite() {
            continue; // not counted anywhere: shows up as a missing point
        }
        let a = (k.floor() as usize).min(KH - 1);
        let fr = k - a as f64;
        count[a] += 1;
        // the circle closes: bin 0 and bin KH−1 are neighbours
        if fr <= delta_k {
            nb[a] += 1;
            nb[(a + KH - 1) % KH] += 1;
            amb += 1;
        } else if fr >= 1.0 - delta_k {
            nb[a] += 1;
            nb[(a + 1) % KH] += 1;
            amb += 1;
        }
    }
    let e = (nn / KH) as i64;
    for a in 0..KH {
        let dev = (count[a] - e).abs();
        if dev > nb[a] {
            c.violation(&format!("C19/volume/{}/{}/{}/hue-circle", sp.name, T::NAME, dist.label), dev as f64 / e as f64, || {
                json!({"sub": "volume", "kind": "hue-circle", "type": sp.name, "float": T::NAME, "dist": dist.label, "grid_bits": nh, "other_words": format!("{:#x}", others), "input": {"grid_bits": nh, "other_words": format!("{:#x}", others)},
                    "observed": {"arc": a, "of": KH, "count": count[a], "images_within_quarter_step_of_its_ends": nb[a], "all_counts": count}, "expected": {"count": e, "allowed_deviation": nb[a]}})
            });
        }
    }
    (nn as u64, KH as u64, nn as u64 - amb)
}

pub fn dists<T: Fl>(sp: &Spec<T>) -> Vec<Dist<T>> {
    let t = |x: f64| T::from64(x);
    let z = t(0.0);
    let hi_ = sp.hue_index().unwrap();
    // ends given in the type's own components; index 1 = radial-ish, 2 = height-ish for all six types
    let mk_ends = |s0: f64, h0: f64, s1: f64, h1: f64, hue0: f64, hue1: f64| -> (A4<T>, A4<T>) {
        let (mut lo, mut hi) = ([z; 4], [z; 4]);
        lo[hi_] = t(hue0);
        hi[hi_] = t(hue1);
        match sp.shape {
            Shape::Cone { s, v } => {
                lo[s] = t(s0);
                lo[v] = t(h0);
                hi[s] = t(s1);
                hi[v] = t(h1);
            }
            Shape::Bicone { s, l, scale } => {
                lo[s] = t(s0 * scale);
                lo[l] = t(h0 * scale);
                hi[s] = t(s1 * scale);
                hi[l] = t(h1 * scale);
            }
            Shape::HwbCone { w, b } => {
                // w = (1 − s)·v, b = 1 − v formed in the component type, as a caller would
                let f = |s: f64, v: f64| (t((1.0 - s) * v), t(1.0 - v));
                let (w0, b0) = f(s0, h0);
                let (w1, b1) = f(s1, h1);
                lo[w] = w0;
                lo[b] = b0;
                hi[w] = w1;
                hi[b] = b1;
            }
            _ => unreachable!(),
        }
        (lo, hi)
    };
    let (flo, fhi) = mk_ends(0.0, 0.0, 1.0, 1.0, 0.0, 360.0);
    let (slo, shi) = mk_ends(0.25, 0.125, 0.75, 0.875, 10.0, 20.0);
    vec![
        Dist { label: "Standard", ends: None, full: true },
        Dist { label: "new_inclusive(full)", ends: Some((flo, fhi, true)), full: true },
        Dist { label: "new(full)", ends: Some((flo, fhi, false)), full: true },
        Dist { label: "new_inclusive(sub)", ends: Some((slo, shi, true)), full: false },
    ]
}

fn hue_words<T: Fl>() -> Vec<u64> {
    let max = u64::MAX >> (64 - word_bits::<T>());
    vec![0, max / 3, max]
}

pub fn run<T: Fl + SampleUniform>(ctx: &Ctx, specs: &[Spec<T>], total: &mut Collector) {
    let sub = format!("volume/{}", T::NAME);
    if !ctx.wants(&sub) {
        return;
    }
    let n: u32 = ctx.tier.pick(10, 11);
    let nh: u32 = ctx.tier.pick(12, 16);
    let nn = 1usize << n;
    let vs: Vec<&Spec<T>> = specs.iter().filter(|s| s.volume).collect();
    struct Job<T: Fl> {
        si: usize,
        dist: Dist<T>,
        pl: Plan,
        hw: u64,
    }
    let mut jobs: Vec<Job<T>> = vec![];
    let mut plans_note = vec![];
    for (si, sp) in vs.iter().enumerate() {
        for dist in dists(sp) {
            let pl = plan(sp, &dist);
            let rn = |r: u8| match r {
                2 => "radial",
                4 => "height",
                _ => "both",
            };
            plans_note.push(format!("{}/{}: {} draws, #{}=hue #{}={} #{}={}, closed form {}", sp.name, dist.label, pl.d.n, pl.p_hue, pl.p[0], rn(pl.role[0]), pl.p[1], rn(pl.role[1]), if pl.closed_form_ok { "applicable (separable, monotone)" } else { "skipped" }));
            if !pl.closed_form_ok {
                total.warn(format!("volume/{}<{}>/{}: sampler is not monotone and separable in its words; the closed-form comparison was skipped, cell counts only", sp.name, T::NAME, dist.label));
            }
            if dist.ends.is_none() {
                for others in hue_words::<T>() {
                    let mut c = Collector::new();
                    let (st, tr, nt) = hue_circle(sp, &dist, &pl, nh, others, &mut c);
                    c.add(&sub, st, st, tr, nt);
                    total.merge(c);
                }
            }
            let hws = if dist.full { hue_words::<T>() } else { vec![hue_words::<T>()[1]] };
            for hw in hws {
                jobs.push(Job { si, dist: dist.clone(), pl, hw });
            }
        }
    }
    total.note(&format!("volume_draw_structure/{}", T::NAME), json!(plans_note));
    let blocks = 16usize;
    let rows = nn / blocks;
    let (jobs_ref, vs_ref) = (&jobs, &vs);
    let out = pv::par::map_chunks(jobs.len() * blocks, |ci| {
        let (ji, bi) = (ci / blocks, ci % blocks);
        let j = &jobs_ref[ji];
        run_block(vs_ref[j.si], &j.dist, &j.pl, n, j.hw, bi * rows, (bi + 1) * rows, None, ctx.seed)
    });
    for (ji, j) in jobs.iter().enumerate() {
        let (mut count, mut nb) = (vec![0u32; K * K], vec![0u32; K * K]);
        let (mut points, mut amb, mut traces) = (0u64, 0u64, 0u64);
        for bi in 0..blocks {
            let b = &out[ji * blocks + bi];
            for k in 0..K * K {
                count[k] += b.count[k];
                nb[k] += b.nb[k];
            }
            points += b.points;
            amb += b.ambiguous;
            traces += b.traces;
        }
        let mut c = Collector::new();
        if j.dist.full {
            traces += judge_cells(vs[j.si], &j.dist, n, j.hw, &count, &nb, &mut c);
        }
        c.add(&sub, points, points, traces, points - amb);
        total.merge(c);
    }
    for b in out {
        total.merge(b.c);
    }
    total.exhaustive(&sub, true, &format!("{} cone/bicone types x {{Standard, Uniform::new_inclusive(full shape), Uniform::new(full shape)}} x 3 hue words x the complete regular grid of 2^{n} x 2^{n} words feeding the two non-hue draws: exact push-forward counted in {K}x{K} equal-volume cells (allowed deviation = number of images within a quarter grid step of the cell's boundary, counted) and compared with the closed-form inverse CDF; Uniform::new_inclusive(sub-range): closed form on the same grid; Standard hue: complete grid of 2^{nh} hue words x 3 settings of the other words counted in {KH} equal arcs", vs.len()));
}

pub fn replay<T: Fl + SampleUniform>(sp: &Spec<T>, case: &Value, c: &mut Collector) {
    let label = case["dist"].as_str().unwrap_or("");
    let dist = dists(sp).into_iter().find(|d| d.label == label).unwrap_or_else(|| machinery(format!("replay: unknown distribution {label}")));
    let pl = plan(sp, &dist);
    let n = case["grid_bits"].as_u64().unwrap_or(10) as u32;
    let nn = 1usize << n;
    match case["kind"].as_str().unwrap_or("") {
        "hue-circle" => {
            let others = u64::from_str_radix(case["other_words"].as_str().unwrap_or("0").trim_start_matches("0x"), 16).unwrap_or(0);
            hue_circle(sp, &dist, &pl, n, others, c);
        }
        "cells" => {
            let hw = u64::from_str_radix(case["hue_word"].as_str().unwrap_or("0").trim_start_matches("0x"), 16).unwrap_or(0);
            let blocks = 16usize;
            let rows = nn / blocks;
            let out = pv::par::map_chunks(blocks, |bi| run_block(sp, &dist, &pl, n, hw, bi * rows, (bi + 1) * rows, None, 0));
            let (mut count, mut nb) = (vec![0u32; K * K], vec![0u32; K * K]);
            for b in &out {
                for k in 0..K * K {
                    count[k] += b.count[k];
                    nb[k] += b.nb[k];
                }
            }
            judge_cells(sp, &dist, n, hw, &count, &nb, c);
            println!("cell counts (rows: radial CDF bin, columns: height CDF bin), expected {} each:", (nn / K) * (nn / K));
            for a in 0..K {
                println!("  {:?}", &count[a * K..(a + 1) * K]);
            }
        }
        _ => {
            // closed form of one grid point: recover the grid indices from the script
            let script = parse_hex(&case["script"]);
            let shift = word_bits::<T>() - n;
            let (i, j) = ((script[pl.p[0]] >> shift) as usize, (script[pl.p[1]] >> shift) as usize);
            if grid_word::<T>(i, n) != script[pl.p[0]] || grid_word::<T>(j, n) != script[pl.p[1]] {
                machinery("replay: script is not a point of the stated grid".to_string());
            }
            let b = run_block(sp, &dist, &pl, n, script[pl.p_hue], i, i + 1, Some((j, j + 1)), 0);
            if let Some(r) = b.c.sub.values().next() {
                println!("closed-form comparison at grid point ({i}, {j}): max err/tol = {:e}, case = {}", r.max_ratio, r.max_ratio_case.as_ref().map(|v| v.to_string()).unwrap_or_default());
            }
            c.merge(b.c);
        }
    }
}
