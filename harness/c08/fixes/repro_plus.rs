// C08 finding: Compose::plus leaves [0,1] for in-range inputs (colour is summed unclamped, alpha is clamped).
// Run: copy to palette/examples/ and `cargo run --example repro_plus`.
use palette::blend::{Compose, PreAlpha};
use palette::{LinSrgb, LinSrgba};
fn main() {
    let a = PreAlpha { color: LinSrgb::new(0.8f32, 0.8, 0.8), alpha: 1.0 };
    let r = a.plus(a); // premultiplied in, premultiplied out
    println!("PreAlpha(0.8; a=1).plus(same)   = {:?} alpha {}  (expected every component and alpha in [0,1])", r.color, r.alpha);
    println!("LinSrgb(0.375).plus(LinSrgb(0.75)) = {:?}", LinSrgb::new(0.375f32, 0.375, 0.375).plus(LinSrgb::new(0.75, 0.75, 0.75)));
    println!("LinSrgba(0.125; 0.125).plus(LinSrgba(1-ulp; 1-ulp)) = {:?}", LinSrgba::new(0.125f32, 0.125, 0.125, 0.125).plus(LinSrgba::new(0.99999994, 0.99999994, 0.99999994, 0.99999994)));
}
