//! Per-input and per-pair oracles (shared by the walks, the lattices and --replay).
use crate::ops::HueOps;
use crate::oracle::*;
use pv::fl::Fl;
use pv::{json, Collector, Value};

#[derive(Clone, Copy)]
pub struct Flags {
    pub radians: bool,
    pub u8c: bool,
    /// 0 = none, 1 = reduced set for the complete walk (x==x, x==x±360 both directions when
    /// exact, x != partner 9 rounding errors off on the adjacent turn), 2 = full (adds !=,
    /// PartialEq<T>, both directions everywhere, a same-turn partner)
    pub pairs: u8,
}
pub const ALL: Flags = Flags { radians: true, u8c: true, pairs: 2 };
pub const HOT: Flags = Flags { radians: true, u8c: true, pairs: 1 };
pub const HOT_QUICK: Flags = Flags { radians: false, u8c: true, pairs: 1 };

/// per-chunk local statistics (flushed to the Collector once per chunk)
#[derive(Default, Clone)]
pub struct Loc {
    pub n: u64,
    pub ops: u64,
    pub preds: u64,
    pub nontriv: u64,
    pub r_norm: f64,
    pub r_norm_x: u64,
    pub r_rad: f64,
    pub r_rad_x: u64,
    pub r_u8: f64,
    pub r_u8_x: u64,
    pub eq_applied: u64,
    pub eq_skipped: u64,
    pub ne_applied: u64,
    pub ne_skipped: u64,
    pub seen: [u64; 4],
    pub wraps: u64,
    pub vc: Vec<VEntry>,
}
impl Loc {
    pub fn merge(&mut self, o: &Loc) {
        self.n += o.n;
        self.ops += o.ops;
        self.preds += o.preds;
        self.nontriv += o.nontriv;
        if o.r_norm > self.r_norm {
            self.r_norm = o.r_norm;
            self.r_norm_x = o.r_norm_x;
        }
        if o.r_rad > self.r_rad {
            self.r_rad = o.r_rad;
            self.r_rad_x = o.r_rad_x;
        }
        if o.r_u8 > self.r_u8 {
            self.r_u8 = o.r_u8;
            self.r_u8_x = o.r_u8_x;
        }
        self.eq_applied += o.eq_applied;
        self.eq_skipped += o.eq_skipped;
        self.ne_applied += o.ne_applied;
        self.ne_skipped += o.ne_skipped;
        for i in 0..4 {
            self.seen[i] |= o.seen[i];
        }
        self.wraps += o.wraps;
        self.vc.extend(o.vc.iter().cloned());
    }
    pub fn seen_count(&self) -> u32 {
        self.seen.iter().map(|w| w.count_ones()).sum()
    }
    /// flush counters and max ratios into the collector under sub-check `sub`
    pub fn flush<H: HueOps>(&self, c: &mut Collector, sub: &str) {
        c.add(sub, self.n, self.ops, self.preds, self.nontriv);
        let mk = |bits: u64| {
            let x = <H::T as Fl>::from_bits64(bits);
            json!({"hue": H::HUE, "ty": <H::T as Fl>::NAME, "input": hx(x), "value": x.to64()})
        };
        if self.r_norm > 0.0 {
            c.ratio(sub, self.r_norm, || mk(self.r_norm_x));
        }
        // the other error/tolerance maxima of this sub-check are kept as notes
        c.note(&format!("{sub}/max_err_over_tol"), json!({
            "normal_form (excess or congruence error / (ulp(x)+ulp(360)))": {"ratio": self.r_norm, "at": mk(self.r_norm_x)},
            "radians (error / 16 ulp)": {"ratio": self.r_rad, "at": mk(self.r_rad_x)},
            "u8 (distance beyond a tie / tie slack)": {"ratio": self.r_u8, "at": mk(self.r_u8_x)},
        }));
    }
}

fn fj(x: f64) -> Value {
    pv::report::fnum(x)
}

/// Per-chunk cache of violation signatures: an exhaustive sweep turns one defect into millions
/// of failing inputs; after the first report of a signature in a chunk only a counter (and the
/// exact maximum magnitude) is updated, unless the magnitude grows by more than 25 % (then the
/// collector's "worst" case is refreshed). `flush_viol` adds the counts to the collector.
#[derive(Clone, Default)]
pub struct VEntry {
    key: u64,
    sig: String,
    extra: u64,
    max_seen: f64,
    reported: f64,
}
#[inline(always)]
pub fn vkey(check: &str, func: &str, class: &str) -> u64 {
    pv::fnv(check.as_bytes()) ^ pv::fnv(func.as_bytes()).rotate_left(21) ^ pv::fnv(class.as_bytes()).rotate_left(42)
}
impl Loc {
    /// true = already reported in this chunk with a comparable magnitude (only counted)
    #[cold]
    #[inline(never)]
    pub fn vc_hit(&mut self, key: u64, mag: f64) -> bool {
        for e in self.vc.iter_mut() {
            if e.key == key {
                if mag > e.max_seen {
                    e.max_seen = mag;
                }
                if mag > e.reported * 1.25 {
                    e.reported = mag;
                    return false;
                }
                e.extra += 1;
                return true;
            }
        }
        false
    }
    pub fn vc_register_pub(&mut self, key: u64, sig: &str, mag: f64) {
        self.vc_register(key, sig, mag)
    }
    fn vc_register(&mut self, key: u64, sig: &str, mag: f64) {
        if !self.vc.iter().any(|e| e.key == key) {
            self.vc.push(VEntry { key, sig: sig.to_string(), extra: 0, max_seen: mag, reported: mag });
        }
    }
    pub fn flush_viol(&mut self, c: &mut Collector) {
        for e in self.vc.drain(..) {
            if let Some(v) = c.viol.get_mut(&e.sig) {
                v.count += e.extra;
                if e.max_seen > v.magnitude {
                    v.magnitude = e.max_seen;
                }
            }
        }
    }
}

/// report a per-input violation lazily: `vp!(H, c, l, check, func, class, x, mag, observed, expected)`
#[macro_export]
macro_rules! vp {
    ($H:ty, $c:expr, $l:expr, $check:expr, $func:expr, $class:expr, $x:expr, $mag:expr, $obs:expr, $exp:expr) => {{
        let class: &'static str = $class;
        if !$l.vc_hit($crate::point::vkey($check, $func, class), $mag) {
            $crate::point::v_point::<$H>($c, $l, $check, $func, class, $x, $mag, $obs, $exp);
        }
    }};
}
/// the same for pairs: `vq!(H, c, l, check, relation, x, y, mag, observed, expected_str)`
#[macro_export]
macro_rules! vq {
    ($H:ty, $c:expr, $l:expr, $check:expr, $rel:expr, $x:expr, $y:expr, $mag:expr, $obs:expr, $exp:expr) => {{
        let class: &'static str = $crate::oracle::class_of($x);
        if !$l.vc_hit($crate::point::vkey($check, "eq", class), $mag) {
            $crate::point::v_pair::<$H>($c, $l, $check, $rel, class, $x, $y, $mag, $obs, $exp);
        }
    }};
}

#[cold]
#[inline(never)]
pub fn v_point<H: HueOps>(c: &mut Collector, l: &mut Loc, check: &str, func: &str, class: &'static str, x: H::T, mag: f64, observed: Value, expected: Value) {
    let sig = format!("C11/{}/{}::{}/{}", check, H::name(), func, class);
    l.vc_register(vkey(check, func, class), &sig, mag);
    c.violation(&sig, mag, || {
        json!({"sub": "point", "hue": H::HUE, "ty": <H::T as Fl>::NAME, "input": hx(x), "value": fj(x.to64()),
               "check": check, "fn": func, "observed": observed, "expected": expected})
    });
}

#[cold]
#[inline(never)]
pub fn v_pair<H: HueOps>(c: &mut Collector, l: &mut Loc, check: &str, relation: &str, class: &'static str, x: H::T, y: H::T, mag: f64, observed: Value, expected: &str) {
    let sig = format!("C11/{}/{}::eq/{}", check, H::name(), class);
    l.vc_register(vkey(check, "eq", class), &sig, mag);
    c.violation(&sig, mag, || {
        json!({"sub": "pair", "hue": H::HUE, "ty": <H::T as Fl>::NAME, "input": [hx(x), hx(y)], "values": [fj(x.to64()), fj(y.to64())],
               "relation": relation, "observed": observed, "expected": expected})
    });
}

/// Equality of hues whose stored angles differ by an exact whole number of turns (both
/// representable). Applicable iff y − x is exactly a multiple of 360 and both lie in the domain.
#[inline(always)]
pub fn check_eq_pair<H: HueOps>(c: &mut Collector, x: H::T, y: H::T, l: &mut Loc) {
    let (x64, y64) = (x.to64(), y.to64());
    if !(circ_diff(y64, x64) == 0.0 && y64.abs() <= LIM && x64.abs() <= LIM) {
        l.eq_skipped += 1;
        return;
    }
    l.eq_applied += 1;
    l.ops += 4;
    l.preds += 4;
    let (a, b, n, t) = (H::eq(x, y), H::eq(y, x), H::ne(x, y), H::eq_t(x, y));
    if !(a && b && !n && t) {
        vq!(H, c, l, "equal-whole-turns", "eq", x, y, 1.0, json!({"x==y": a, "y==x": b, "x!=y": n, "hue(x)==y": t, "into_positive_degrees": [fj(H::pos(x).to64()), fj(H::pos(y).to64())]}), "equal: y = x + 360·k exactly, k integer");
    }
    // the approx spellings of the same comparison
    l.ops += 2;
    l.preds += 12;
    let (p, q) = (H::eq_approx(x, y), H::eq_approx(y, x));
    if !(p.iter().all(|v| *v) && q.iter().all(|v| *v)) {
        vq!(H, c, l, "equal-whole-turns-approx", "approx-eq", x, y, 1.0, json!({"[abs_diff_eq, !abs_diff_ne, relative_eq, !relative_ne, ulps_eq, !ulps_ne] (x,y)": p, "(y,x)": q, "into_degrees": [fj(H::deg(x).to64()), fj(H::deg(y).to64())]}), "equal under every approx comparison: y = x + 360·k exactly, k integer");
    }
}

/// y = x + delta rounded to T; check_eq_pair decides whether the shift was exact.
#[inline(always)]
pub fn check_shift<H: HueOps>(c: &mut Collector, x: H::T, delta: f64, l: &mut Loc) {
    let y = <H::T as Fl>::from64(x.to64() + delta);
    check_eq_pair::<H>(c, x, y, l);
}

/// Inequality of hues that differ by more than rounding error modulo 360:
/// applicable iff the exact circular distance exceeds 4·max(ulp(x), ulp(y), ulp(360)).
#[inline(always)]
pub fn check_ne<H: HueOps>(c: &mut Collector, x: H::T, y: H::T, l: &mut Loc) {
    let (x64, y64) = (x.to64(), y.to64());
    let d = circ_diff(x64, y64).abs();
    let thr = 4.0 * ulp_of(x).max(ulp_of(y)).max(u360::<H::T>());
    if !(d > thr * GUARD && y64.abs() <= LIM && x64.abs() <= LIM) {
        l.ne_skipped += 1;
        return;
    }
    l.ne_applied += 1;
    l.ops += 3;
    l.preds += 3;
    let (a, b, n) = (H::eq(x, y), H::eq(y, x), H::ne(x, y));
    if a || b || !n {
        vq!(H, c, l, "unequal-beyond-rounding", "ne", x, y, d, json!({"x==y": a, "y==x": b, "x!=y": n, "circular_distance": d, "threshold": thr, "into_positive_degrees": [fj(H::pos(x).to64()), fj(H::pos(y).to64())]}), "unequal: exact distance mod 360 exceeds 4·max(ulp(x), ulp(y), ulp(360))");
    }
    // the approx traits (default tolerances) must call hues at least 0.2 degrees apart different
    if d >= 0.2 {
        l.ops += 2;
        l.preds += 2;
        let (p, q) = (H::ne_approx(x, y), H::ne_approx(y, x));
        if !(p && q) {
            vq!(H, c, l, "unequal-approx", "approx-ne", x, y, d, json!({"abs_diff/relative/ulps _ne all true and _eq all false (x,y)": p, "(y,x)": q, "circular_distance": d}), "every approx comparison (default tolerances) says different");
        }
    }
}

/// All per-input checks; returns the 8-bit code (0 when the u8 flag is off).
#[inline(always)]
pub fn check_point<H: HueOps>(c: &mut Collector, x: H::T, fl: Flags, l: &mut Loc) -> u8 {
    let x64 = x.to64();
    let ulp = ulp_of(x);
    let u3 = u360::<H::T>();
    // "to within the rounding error of the stored angle": ulp(x), plus the ulp of the modulus
    let tol = ulp + u3;
    let (s, u, raw) = (H::deg(x), H::pos(x), H::raw(x));
    let (s64, p64) = (s.to64(), u.to64());
    l.n += 1;
    l.ops += 3;
    l.preds += 5;
    if raw.bits64() != x.bits64() {
        vp!(H, c, l, "raw-accessor", "into_raw_degrees", class_of(x), x, 1.0, json!(hx(raw)), json!(hx(x)));
    }
    // range excess: exact (Sterbenz for 180 < s <= 360 resp. 360 < u <= 720; a larger value is a gross violation anyway)
    let ex_s = if s64 > 180.0 { s64 - 180.0 } else if s64 < -180.0 { -180.0 - s64 } else if s64.is_nan() { f64::NAN } else { 0.0 };
    let ex_u = if p64 > 360.0 { p64 - 360.0 } else if p64 < 0.0 { -p64 } else if p64.is_nan() { f64::NAN } else { 0.0 };
    let cg_s = circ_diff(s64, x64).abs();
    let cg_u = circ_diff(p64, x64).abs();
    let worst = ex_s.max(ex_u).max(cg_s).max(cg_u);
    let bound = tol * GUARD;
    // congruence of each form is held to the rounding error of the stored angle plus that of the
    // *result's own magnitude* (any implementation must round the result to the float grid there): the
    // unsigned form of a small negative angle lives next to 360, but the signed form of an angle that is
    // already in (-180, 180] can — and on the unchanged tree does — come back exactly
    let bound_s = (ulp + ulp_of(s)) * GUARD;
    if !(cg_s <= bound_s) && cg_s <= bound {
        vp!(H, c, l, "normal-form-congruent", "into_degrees", class_of(x), x, cg_s, json!({"value": fj(s64), "distance_mod_360": fj(cg_s)}), json!({"congruent_to_input_within": bound_s, "note": "rounding error of the stored angle + of the result"}));
    }
    if !(worst <= bound) || s64.is_nan() || p64.is_nan() {
        if !(ex_s <= bound) {
            vp!(H, c, l, "normal-form-range", "into_degrees", class_of(x), x, ex_s, json!({"value": fj(s64), "excess": fj(ex_s)}), json!({"range": "[-180, 180]", "tol": tol}));
        }
        if !(ex_u <= bound) {
            vp!(H, c, l, "normal-form-range", "into_positive_degrees", class_of(x), x, ex_u, json!({"value": fj(p64), "excess": fj(ex_u)}), json!({"range": "[0, 360]", "tol": tol}));
        }
        if !(cg_s <= bound) {
            vp!(H, c, l, "normal-form-congruent", "into_degrees", class_of(x), x, cg_s, json!({"value": fj(s64), "distance_mod_360": fj(cg_s)}), json!({"congruent_to_input_within": tol}));
        }
        if !(cg_u <= bound) {
            vp!(H, c, l, "normal-form-congruent", "into_positive_degrees", class_of(x), x, cg_u, json!({"value": fj(p64), "distance_mod_360": fj(cg_u)}), json!({"congruent_to_input_within": tol}));
        }
    }
    if worst > l.r_norm * tol {
        l.r_norm = worst / tol;
        l.r_norm_x = x.bits64();
    }
    if s.bits64() != x.bits64() || u.bits64() != x.bits64() {
        l.nontriv += 1;
    }

    if fl.radians {
        let rr = H::raw_rad(x);
        let obs = [H::rad(x).to64(), H::pos_rad(x).to64(), rr.to64(), H::from_rad(rr).to64()];
        let exp = [s64.to_radians(), p64.to_radians(), x64.to_radians(), rr.to64().to_degrees()];
        l.ops += 4;
        l.preds += 4;
        for i in 0..4 {
            // f32/f64 to_radians/to_degrees: one rounded constant times one rounded product
            // (<= ~1.5 ulp of the result incl. the f64 reference's own rounding); allow 16 ulp.
            let t = 16.0 * ulp_of(<H::T as Fl>::from64(exp[i]));
            let e = (obs[i] - exp[i]).abs();
            if !(e <= t) {
                let f = ["into_radians", "into_positive_radians", "into_raw_radians", "from_radians"][i];
                vp!(H, c, l, "degrees-radians-consistent", f, class_of(x), x, e, json!(fj(obs[i])), json!({"value": fj(exp[i]), "tol": t}));
            }
            let q = e / t;
            if q > l.r_rad {
                l.r_rad = q;
                l.r_rad_x = x.bits64();
            }
        }
    }

    let mut code = 0u8;
    if fl.u8c {
        code = H::to_u8(x);
        l.ops += 1;
        l.preds += 1;
        // exact position on the 256-step circle; the code must be a nearest integer (mod 256),
        // ties and near-ties (within the rounding error of the stored angle, scaled, plus
        // 8 ulp of 256 for the division/multiplication in T) may go either way.
        let t = residue(x64) * (256.0 / 360.0);
        let mut dc = (code as f64 - t).abs();
        if dc > 128.0 {
            dc = 256.0 - dc;
        }
        let delta = tol * (256.0 / 360.0) + 8.0 * u3;
        if !(dc <= 0.5 + delta) {
            vp!(H, c, l, "u8-scale", "into_format<u8>", class_u8(x), x, dc, json!(code), json!({"position_on_256_circle": t, "accept": "nearest integer mod 256", "tie_slack": delta}));
        }
        if dc > 0.5 {
            let q = (dc - 0.5) / delta;
            if q > l.r_u8 {
                l.r_u8 = q;
                l.r_u8_x = x.bits64();
            }
        }
        l.seen[(code >> 6) as usize] |= 1u64 << (code & 63);
    }

    if fl.pairs == 2 {
        l.ops += 3;
        l.preds += 3;
        let (a, b, n) = (H::eq(x, x), H::eq_t(x, x), H::ne(x, x));
        if !(a && b && !n) {
            vq!(H, c, l, "equal-reflexive", "eq", x, x, 1.0, json!({"x==x": a, "hue(x)==x": b, "x!=x": n}), "a hue equals itself");
        }
        check_shift::<H>(c, x, 360.0, l);
        check_shift::<H>(c, x, -360.0, l);
        // a partner more than 4 rounding errors away on the same turn, and one on the adjacent turn
        let m = ulp.max(u3);
        let y1 = <H::T as Fl>::from64(x64 + 9.0 * m);
        check_ne::<H>(c, x, y1, l);
        let y2 = <H::T as Fl>::from64(y1.to64() + if x64 > 0.0 { -360.0 } else { 360.0 });
        check_ne::<H>(c, x, y2, l);
    } else if fl.pairs == 1 {
        l.ops += 1;
        l.preds += 1;
        if !H::eq(x, x) {
            vq!(H, c, l, "equal-reflexive", "eq", x, x, 1.0, json!({"x==x": false}), "a hue equals itself");
        }
        for delta in [360.0, -360.0] {
            // fast exactness screen (TwoSum): y = x + delta exactly
            let y = <H::T as Fl>::from64(x64 + delta);
            let (sd, td) = two_sum(y.to64(), -x64);
            if sd == delta && td == 0.0 && y.to64().abs() <= LIM {
                l.eq_applied += 1;
                l.ops += 2;
                l.preds += 2;
                if !(H::eq(x, y) && H::eq(y, x)) {
                    check_eq_pair::<H>(c, x, y, l); // cold: full report
                }
            } else {
                l.eq_skipped += 1;
            }
        }
        // one partner 9 rounding errors further on the adjacent turn (towards zero)
        let m = ulp.max(u3);
        let y = <H::T as Fl>::from64((x64 + 9.0 * m) + if x64 > 0.0 { -360.0 } else { 360.0 });
        let d = circ_diff(x64, y.to64()).abs();
        let thr = 4.0 * ulp.max(ulp_of(y)).max(u3);
        if d > thr * GUARD && y.to64().abs() <= LIM {
            l.ne_applied += 1;
            l.ops += 1;
            l.preds += 1;
            if H::eq(x, y) {
                check_ne::<H>(c, x, y, l); // cold: full report
            }
        } else {
            l.ne_skipped += 1;
        }
    }
    code
}

/// Cheap-to-state extras evaluated on lattices and in replay (not in the hot walk): the
/// primitive conversions, from_format ≡ into_format, float→u8→float→u8, more turn counts and
/// inequality partners at several distances.
pub fn check_extras<H: HueOps>(c: &mut Collector, x: H::T, l: &mut Loc) {
    let s = H::deg(x);
    let (p32, p64) = H::prim(x);
    l.ops += 8;
    l.preds += 8;
    if p64.to_bits() != (s.to64()).to_bits() || p32.to_bits() != (s.to64() as f32).to_bits() {
        vp!(H, c, l, "accessors-consistent", "From<Hue> for f32/f64", class_of(x), x, 1.0, json!([fj(p32 as f64), fj(p64)]), json!(fj(s.to64())));
    }
    if H::inner(x).bits64() != x.bits64() {
        vp!(H, c, l, "raw-accessor", "into_inner", class_of(x), x, 1.0, json!(hx(H::inner(x))), json!(hx(x)));
    }
    let (cf, fr) = H::cross_format(x);
    let want = if <H::T as Fl>::NAME == "f32" { x.to64() } else { (x.to64() as f32) as f64 };
    if cf.to_bits() != want.to_bits() || fr.bits64() != x.bits64() {
        vp!(H, c, l, "accessors-consistent", "into_format<float>", class_of(x), x, 1.0, json!([fj(cf), hx(fr)]), json!([fj(want), hx(x)]));
    }
    let c1 = H::to_u8(x);
    let c1b = H::to_u8_from_format(x);
    let back = H::from_u8(c1);
    let c2 = H::to_u8(back);
    if c1b != c1 || c2 != c1 {
        vp!(H, c, l, "u8-roundtrip", "float->u8->float->u8", class_u8(x), x, 1.0, json!({"into_format": c1, "from_format": c1b, "as_float": fj(back.to64()), "again": c2}), json!("same code three times"));
    }
    for k in [2.0, -2.0, 3.0, -5.0, 17.0, -100.0, 1000.0, -2900.0] {
        check_shift::<H>(c, x, 360.0 * k, l);
    }
    let m = ulp_of(x).max(u360::<H::T>());
    for f in [4.5, 5.0, 6.0, 17.0, -5.0, -9.0, 1e4, 1e6] {
        let y = <H::T as Fl>::from64(x.to64() + f * m);
        check_ne::<H>(c, x, y, l);
        let y = <H::T as Fl>::from64(y.to64() - 720.0);
        check_ne::<H>(c, x, y, l);
    }
    for d in [90.0, 180.0, -120.0, 1.0] {
        check_ne::<H>(c, x, <H::T as Fl>::from64(x.to64() + d), l);
    }
}
