#!/bin/bash
# Run /repo's own suite (guard off) and print a summary: expects 871 unit/integration tests.
cd /repo && cargo test --workspace --no-fail-fast --offline --lib --bins --tests 2>&1 | grep -E "^test result|FAILED|failed" | awk '/^test result/ {p+=$4; f+=$6} {print} END {print "TOTAL passed=" p " failed=" f}'
