#!/usr/bin/env python3
"""Generate /verif/MANIFEST.json from the table below (kept in one place so it stays valid)."""
import json, os, sys
ROOT = os.path.dirname(os.path.dirname(os.path.abspath(__file__)))
BASE = json.load(open('/root/.vp/BASELINE.json'))

# sub-checks added after the observe_at audit and the seeding rounds (DESIGN.md 0.2 / 0.5)
ADDENDA = {
 "C01": " Added later: the WithAlpha methods (with_alpha, without_alpha, split, opaque, transparent) on every node type; un-normalised hues in the lattice of every hue-bearing type; luma nodes in every white-point graph (all ten LumaStandard impls).",
 "C02": " Added later: luma nodes for every LumaStandard impl and every white point (Luma -> Yxy etc.), un-normalised hues in the hue lattices.",
 "C03": " Added later: the full (7-attribute) Cam16 through a struct-field spec; integer components (complete Rgb<u8> space, Luma, lower-bound-only Lms<u8/u16/u32>, Hwb<u8/u16>; plain, Alpha, slices); the Vec and Box<[_]> forms of FromColor / FromColorUnclamped for every discovered edge.",
 "C04": " Added later: a compiler-decided probe over 636 instantiations Alpha<C<T>, A> (53 colours x 12 alpha types): ArrayCast must be implemented exactly when A is the component type, with matching size / alignment / item.",
 "C05": " Added later: f64, Alpha and float-Luma wrapper forms for all LumaStandard impls; pure power laws (Adobe RGB, P3 gamma) are held to the closed form rounded to the float type; every f64 decoder table must carry f64 precision.",
 "C07": " Added later: CAM16 (3 viewing conditions x the XYZ boundary lattice and the sRGB / Rec.2020 / Adobe RGB cube lattices through Cam16 and the six partial types forward and back and the UCS chain; the boundary lattice of the partial types through the inverse model), with the two NaN regions of the unchanged tree classified by an f64 reference (forward model of c16, inverse model cross-checked against it at start); xyY sources with y = 0 < Y.",
 "C10": " Added later: colours above the soft Saturate limits (Lch chroma > max_chroma(), Cam16UcsJmh colourfulness > max_srgb_colorfulness()) take part in the exact form-vs-form comparisons.",
 "C11": " Added later: whole-turn equality on SIMD lanes (AngleEq::angle_eq(x, x + 360k) for exactly representable shifts, both argument orders; x + 360k + 90 unequal).",
 "C12": " Added later: the six public Packed aliases (type identity with Packed<named order, P> and a byte-position probe through each).",
 "C14": " Added later: run-time white points through adaptation_matrix and the Matrix3 algebra (then / invert / identity); all 15 white point constants and the DCI white against the published tables; luma nodes as grey sources and the nine CIE-only white-point graphs.",
 "C17": " Added later: 12 hue operations of the 5 hue types on SIMD vs scalar over a seam lattice (every lane position), hue-seam product states for every operator, slice / Vec forms of is_within_bounds and clamp_assign over 3 items x every lane assignment of in/out patterns, Alpha-wrapped conversions of 13 representative pairs (bitwise per lane vs the bare conversion).",
 "C18": " Added later: explicit-state search for Alpha<Color<Vec<f32>>, Vec<u8>> (alpha element type differs from the colour's; Rgb, Lab, Hsv, Lch) against a Vec model.",
 "C19": " Added later: Xyz for six further white points, D50 and Rec.2020 instances of the other parameterised types.",
}
NOTE_FIXES = {
 "C01": [("Five genuine defects are recorded as known findings", "Seven entries are recorded as known findings")],
 "C03": [(" Cam16 (full, not ArrayCast) is not included.", "")],
 "C07": [("CAM16 is covered under C16.", "CAM16 finiteness is checked here (sub-check cam16/*), its fidelity under C16; two CAM16 NaN regions of the unchanged tree are recorded as known findings.")],
}

CHECKS = {
 # id: (category, technique, text, note, design_ref)
 "C01": ("model_checking",
         "exhaustive path search over the compiler-discovered conversion graph: every in-range lattice value and RGB-grid image of every node type x every cycle of length 2, every triangle (direct vs stepwise) and, in smaller graphs / the thorough tier, every simple path of length 3, on the real conversion code, compared through one f64 reference metric",
         "The edge set is discovered by rustc (autoref-specialisation probe per ordered type pair, 34-node D65 graph, 21-node cylindrical graph, D50, DCI and seven CIE-only white-point graphs, f32 and f64), so no pair is forgotten. For every node and every value of its lattice (nominal range incl. every threshold of the conversion code, plus images of an RGB grid) all cycles A->B->A must return the original colour, every stepwise path A->M->B (A->M1->M2->B) must agree with the direct edge, for every target that can represent the colour, and the Alpha forms of every edge must give bit-identical colour and untouched / maximal alpha. The verdict is bounded by the lattice; within it, every path of the stated lengths is explored.",
         "Same-colour is decided in linear-light XYZ through a shared f64 reference map used as a metric (tolerance 4e-6 f64, 1e-4 f32, 1e-3 for f32 paths through Okhsl/Okhsv/Okhwb); gamut-bounded targets only participate for colours inside their gamut; values between lattice points are not explored. Five genuine defects are recorded as known findings (blue-cusp discontinuity, direct-matrix vs M1 inconsistency, near-white Okhsl).",
         "§4 C01"),
 "C02": ("model_checking",
         "exhaustive enumeration of (conversion edge x in-range lattice value) over the compiler-discovered conversion graph on the real code, each result compared with an independent f64 reference model of the published definition; matrices compared entry by entry with matrices derived from primaries and white point",
         "Every discovered FromColorUnclamped edge of 19 configurations (white point x f32/f64; 34-node D65 graph etc.) is executed on every value of a lattice of the source type's nominal range that contains every threshold of the conversion code (kappa/epsilon knee of L*, transfer-function knees, hue sector edges, the 0.8 knee of Okhsl) plus the images of a 9^3 / 17^3 RGB grid, and compared in linear-light XYZ with reference models written from CIE 15, the RGB standards, the geometric HSV/HSL/HWB definitions, Ottosson's Oklab/Okhsl/Okhsv/Okhwb and HSLuv rev 4. The RGB<->XYZ matrices, primaries and white points of the 7 RGB spaces are compared with Lindbloom's derivation. The reference itself is validated in every run against published data (Ottosson's table, all 4096 rows of the HSLuv data set, the CIE 15 table); disagreement there is a machinery failure, not a verdict.",
         "The reference models are my transcriptions of the publications (validated against published data in-run); agreement is measured in XYZ with tolerance 1e-5 (f64) / 1e-4 (f32) / 1e-3 (f32 through Okhsl/Okhsv/Okhwb); either published Oklab matrix set is accepted; values between lattice points are not explored.",
         "§4 C02"),
 "C03": ("model_checking",
         "exhaustive enumeration of the full product of per-component class lattices (far below ... far above each accessor bound) for every clampable type, and of (conversion edge x lattice value) over the compiler-discovered graph, on the real Clamp/IsWithinBounds/FromColor/TryFromColor code, all relations checked exactly",
         "For 28 colour types x f32/f64 every combination of component classes {far below, just below, min-ulp, min, min+ulp, inside, max-ulp, max, max+ulp, just above, far above} (the 'one below, another above' cases the diagonal range tests never build) goes through clamp, clamp_assign and is_within_bounds, plain, wrapped in Alpha with 7 alphas and as slices of length 0..3; checked bitwise: clamp result within bounds and within the type's own min/max accessors, reference clamp per independent component, unbounded components untouched, in-bounds unchanged, idempotent, assign == by-value, slice and Alpha forms == element form. Then for every discovered edge (8 graphs) and every in- and out-of-range lattice value: from_color == clamp(from_color_unclamped) and try_from_color is Ok(unclamped) iff unclamped.is_within_bounds(), else Err carrying the unclamped colour.",
         "Exact comparisons; bounds are read from the accessors at run time (Lch's max_chroma is documented as a practical figure, not a bound; CAM16 attributes: lower bound 0). Cam16 (full, not ArrayCast) is not included. Values between lattice classes are equivalent for a comparison-based clamp.",
         "§4 C03"),
 "C07": ("model_checking",
         "exhaustive enumeration of the boundary lattice of every colour type (and ordered pairs of it for binary operations) through every discovered conversion, clamp, operator, blend mode and difference measure on the real code, with the invariant 'finite, no panic' evaluated on every result",
         "Every colour whose components are each exactly on a bound of the documented range, exactly zero, or 1e-9 of the range away (black, white, grey axis, zero chroma, zero alpha, hue sector edges), of every node of 12 compiler-discovered conversion graphs (f32 and f64), goes through every unclamped and clamped conversion edge and clamp; boundary colours of the cylindrical and rectangular types go through lighten/darken/saturate/desaturate (+_fixed) x 9 factors, shift_hue and mix partners; all ordered pairs of 120 Lab boundary colours through 11 difference measures; all ordered pairs of 72 LinSrgba boundary colours through the 11 blend modes, 6 Porter-Duff operators and WCAG contrast. No result may contain NaN/inf, no call may panic.",
         "Invariant only (no reference model needed); colours strictly between lattice points are not explored; CAM16 is covered under C16.",
         "§4 C07"),
 "C05": ("model_checking",
         "exhaustive enumeration of the complete f32 input space (2^32 bit patterns walked as a successor chain) and of every code, on the real encoders/decoders, against a closed-form reference model",
         "Every one of the 2^32 f32 bit patterns (and its f64 widening, plus 51 doubles around each code transition) is run through each integer fast path (sRGB, Rec OETF, Adobe, P3 gamma u8; ProPhoto u16) with the table index asserted in range by the palette_verif hook; monotonicity is checked on every successor pair, saturation at both ends, the 0.6-code accuracy bound at both ends of every run of equal codes (sufficient by monotonicity of both curves), every decoder code against the closed form, decode->encode identity for every code, and the generic float curves on f32/f64 chains with complete windows round every knee. The integer-path verdict is not bounded: the space is complete.",
         "Trusts libm pow in the f64 reference (<1e-13), the catch_unwind observation of hook panics, and that f64 inputs reach the tables only through `as f32` (checked on all f32-representable doubles and around transitions).",
         "§4 C05"),
 "C06": ("model_checking",
         "exhaustive enumeration of complete source spaces (all 2^32 f32 patterns per float->uint target, every u8/u16 value, every u32 value in the thorough tier) walked as successor chains on the real IntoStimulus impls, against an exact integer-arithmetic reference model",
         "All 2^32 f32 bit patterns are converted to u8, u16, u32, u64 and u128 (and, widened, through the f64 source), each result compared with the set of integers within 1/2 + one rounding of x*MAX computed in exact 128/256-bit integer arithmetic; monotonicity on every successor pair, saturation for every x<=0, -inf, x>=1, +inf and NaN. Integer sources: every u8 and u16, every u32 (thorough; quick: every 5th + complete windows + lattice) and lattices for u64/u128, to all seven formats: monotone, ends exact, proportional, widen->narrow and int->float->int identities. f64 sources on a lattice built from every rounding tie, every power of two and the magnitudes where the magic-number trick stops being valid. The into_format wrappers of Rgb/Rgba/Luma/Lumaa/Alpha/Hsv/Hsl/Hwb are bitwise compared with the component function.",
         "f64 sources that are not f32-representable are covered only on the lattice; the oracle's W (float type in which the product is rounded) is f32 for f32->u8/u16 and f64 otherwise, as the statement's '53 significant bits' clause implies.",
         "§4 C06"),

 "C08": ("model_checking",
         "exhaustive enumeration of the component lattice product (cs, cb, alpha_s, alpha_b) in L^4 (|L| = 13 / 17, containing every knee of the blend functions and its ulp neighbours) x 11 blend modes x 6 Porter-Duff operators x 3 input forms x 10 colour types x f32/f64 on the real Blend/Compose code, against a W3C Compositing and Blending Level 1 reference model in f64",
         "Every tuple of the lattice (13^4 = 28 561 per mode and form; only c <= alpha for premultiplied input) goes through every separable blend mode and Porter-Duff operator in the opaque, Alpha and PreAlpha forms and is compared with the W3C formulas (premultiplied result, alpha_o, range [0,1]); all ordered colour pairs of a K^3 x alphas lattice check slot independence; identities (transparent-over, opaque-over, symmetry of the commutative operations) bit-exact where exact arithmetic makes them exact; premultiply/unpremultiply round trip down to MIN_POSITIVE alpha; BlendWith with 645 Equations configurations and the Porter-Duff presets against their documented definitions.",
         "Which argument is source/backdrop and which output form each input form gives were read from the source and doc examples; tolerance 64*2^-24 (f32) / 1e-12 (f64) in premultiplied terms; dodge/burn on PreAlpha use a +-4 eps backward-error hull; SIMD component types are not covered. One genuine finding recorded (plus leaves [0,1]).",
         "§4 C08"),
 "C11": ("model_checking",
         "exhaustive enumeration of the complete f32 angle space |x| <= 2^20 (2 466 250 754 bit patterns, both signs, walked as a successor chain) and of integer-angle x whole-turn products, all 256 8-bit hues and cartesian grids, on the real hue types, against an exact-arithmetic (TwoSum / i128) reference",
         "Every f32 with |x| <= 2^20 goes through both normal forms, the raw accessors, the 8-bit code and equality with itself, with its exact whole-turn shifts and with a partner just beyond rounding distance, for RgbHue (all five hue types in the thorough tier, strided walks of the other four in quick); 40.2 M (angle, turns) integer pairs per type for ==/!=; f64 lattices (embedded f32 set, 2^k(1 +- ulp), neighbours of multiples of 180); all 256 u8 hues and all 256^2 equality pairs; cartesian round trips on a 1 deg / 0.1 deg grid x 3 radii; Add/Sub on hues against raw-angle arithmetic; wide SIMD lanes. The oracle is exact for every explored input (self-tested against i128 arithmetic at start-up).",
         "Tolerances are the statement's own (ulp(x) + ulp(360) for the normal forms; inequality only demanded beyond 4 rounding errors); f64 inputs are covered by lattices and the embedded f32 set, not all doubles.",
         "§4 C11"),
 "C12": ("model_checking",
         "exhaustive enumeration of complete spaces (all 2^24 Rgb<u8> colours, all 2^32 packed words x 4 channel orders, all 2^16 luma-alpha words) and of all strings up to 6 (quick) / 8-9 (thorough) symbols over a 12-symbol alphabet for each of the 10 FromStr impls, on the real format/parse/pack/unpack/lookup code, against a reference parser and byte-position predictions",
         "All 2^24 Rgb<u8> are formatted ({:x}, {:X}) and parsed back with and without '#', through from_hex and the 3-digit form, and through all ten FromStr impls against the reference parser; wider types on lattices plus single-channel walks. All 2^32 packed values x {Rgba, Argb, Bgra, Abgr} and all 2^16 x {La, Al}: unpack->pack identity and each channel at its documented byte, From<u32>/into_u32 conventions. Every line of codegen/res/svg_colors.txt is found under its lower-case name with that value, the iterators list exactly that set, and every capitalisation, single edit (double edits in thorough) and every short a-z string is not found unless listed. All strings over {0,9,a,F,g,+,-,#,space,e-acute,euro,4-byte digit} up to N symbols, all strings <= 3 over 133 symbols and 1-/2-symbol edits of valid strings of every accepted length: accept iff the reference accepts (equal value), never a panic.",
         "The reference parser encodes the documented grammar: optional single leading '#', then exactly one of the documented digit counts of [0-9a-fA-F]; strings longer than the bound are covered only through edits of valid strings.",
         "§4 C12"),
 "C13": ("model_checking",
         "exhaustive operation-sequence search (all sequences to depth 5 / 6 over the guard alphabet, stateless re-execution from the initial buffer, canonical-state merging cross-checked by an unmerged enumeration) on the real in-place conversion guards, every step compared with a Vec-of-bits reference model; Miri as UB oracle on a smaller bound in the thorough tier",
         "All 85 buffers of length 0..=3 over a 4-colour set x 5 original types (Srgb<f32>, Hsl, Lab, Srgba, Srgb<f64>) x 5 clique targets each: every sequence of into_color_mut / into_color_unclamped_mut, deref, mutate through DerefMut, then_into_color(_unclamped)_mut, into_(un)clamped_guard, restore, drop and mem::forget up to depth 5 (18.9 M canonical states, 41 M edges; depth 6 thorough: 137 M states) is executed on the real guards; after every step the guard's view, the buffer address/length and, after the guard is gone, the buffer contents are bit-compared with the model (ordinary out-of-place conversion per element). Single values likewise. Vec/Box one-shot forms and map_vec_in_place / map_slice_box_in_place over every (len 0..=4, capacity len..=len+3) shape and chains of up to 3 (4): same pointer, length, capacity and element-wise identical values.",
         "+-0 and NaN payloads compare equal (f32::max(-0.0, 0.0) has an unspecified zero sign in Hwb::clamp); the model predicts each step from the state observed on the real code; Miri covers a reduced space (14 652 cases).",
         "§4 C13"),
 "C18": ("model_checking",
         "exhaustive operation-sequence search: breadth-first search to closure over all container contents of length <= 5 (quick) / <= 6 (thorough) with an alphabet of ~4 500 operations, on the real struct-of-arrays collections, every step compared with Vec<C>; unmerged enumeration of all sequences to depth 3 as cross-check",
         "For 26 colour types, each plain and with Alpha (52 macro expansions; 16 configurations with the full search), every reachable content sequence over a 3-colour (4-colour) set is expanded with every push, pop, clear, extend, collect, with_capacity, drain over every range form with bounds 0..=len+1 (empty, full, inverted, out of range, inclusive at usize::MAX) x every consumption script (drop, next x k, next_back x k, alternate, exhaust, forget), get/get_mut by index and range, iter / iter_mut / into_iter over Vec, array, slice, mutable slice and boxed-slice backings with len/size_hint/count observed at every step; the same operation is applied to a Vec<C>: same return values bitwise, same Some/None, panics iff Vec panics, same contents, and all component collections (hue and alpha included) of equal length after every step.",
         "State = sequence of colours held (capacity is not observable through the property); get_mut is Vec-backed only; mixed Alpha component types are not covered.",
         "§4 C18"),
 "C20": ("model_checking",
         "exhaustive enumeration of (type x value lattice x format x shape x field order) with the serde format as an environment the harness owns: serde_json, ron and a recording/replaying TokenFormat (map form with 5 key encodings, data-delimited seq form, fixed-length bincode-like form), on the real Serialize/Deserialize impls incl. AlphaSerializer/AlphaDeserializer",
         "About 190 type instantiations (all colour structs, hues, Alpha, PreAlpha; f32/f64/u8) x a 21-point value lattice x 11 format variants round-trip bitwise; the recorded data-model call sequence is compared with the predicted shape (struct name/len = colour's own fields + 1 alpha at the same level, hue as a bare number in the data model, no standard/white_point field); all field orders x {alpha missing, duplicated at every position, unknown scalar or nested field at every position} x 7 map formats for Deserialize and the optional-alpha helpers; missing alpha => error for Alpha, full opacity for the helper; as_array / as_uint against cast::into_array / into_uint; mock colours of every serde shape (struct, tuple struct, newtype, unit, flatten, renamed, own alpha field, nested Alpha) under Alpha; unsupported AlphaDeserializer methods return an error, never a wrong value.",
         "Documented limitations of AlphaDeserializer (flattening a transparent colour into an outer struct; struct shapes in fixed-length formats) are recorded as notes, not alarms; Cam16 full/partials and Packed have no serde impls in the pinned tree.",
         "§4 C20"),
 "C14": ("model_checking",
         "exhaustive enumeration of complete small spaces on the real code: every grey level k/4096 (quick) / all 65 536 16-bit greys (thorough) incl. black and white of every RGB node of 8 compiler-discovered graphs through every outgoing edge and back; every entry of every RGB matrix pair; all 121 ordered pairs of 11 white points x 3 cone matrices x an XYZ lattice through both adaptation APIs",
         "Every grey of every RGB standard (sRGB, linear, Adobe, Rec.709/2020, Display P3, DCI-P3, DCI-P3+, ProPhoto; f32/f64) is converted along every discovered edge: the result must be achromatic in the target's own terms (a/b, u/v, chroma, saturation, w+b=1, equal components, white-point chromaticity) and the conversion back must give equal RGB components; white must land on the XYZ of the white point, L* = 100 with zero a/b/u/v/chroma and Oklab (1,0,0). Matrix pairs are multiplied both ways against the identity and inverted. Adaptation: source white -> destination white, bit-exact identity between equal white points, there-and-back, deprecated and new API agree, for all white-point pairs, Bradford / von Kries / XYZ scaling, 344 XYZ points each.",
         "Numerically zero = 2e-6 (f64) / 2e-5 (f32) of the component range, 50x that for saturation-type coordinates; CAM16 J = 100 for the adopted white is checked under C16. Three genuine findings recorded (saturation at white in Hsluv/Okhsl, M1 white point).",
         "§4 C14"),
 "C04": ("model_checking",
         "exhaustive enumeration of (type x cast form x buffer length x vector capacity) shapes - every length 0..=4N+1 and every capacity len..=len+N+1 actually obtained from the allocator - through every free cast function and cast trait on the real code, with exact shape/pointer/content predictions; a logging global allocator observes (de)allocations; Miri as UB oracle on a smaller bound in the thorough tier",
         "142 ArrayCast instantiations (all 27 derived families at f32/f64, integer components where allowed, Alpha and PreAlpha wrappers, nested wrappers, Packed arrays, f32x4) x 36 free functions incl. map_*_in_place, 12 representative types x every cast-trait method x every owner kind, and the uint casts of Luma/Packed at u8..u128: components are distinct sentinels (two palettes incl. NaN payloads), so field order (against the type's own into_components(), alpha last), identity of memory (pointer before == after, writes through the view visible in the original), exact len/capacity scaling, bitwise round trips, rejection iff len % N != 0 (or capacity % N != 0 for vectors) with the right error kind and the buffer handed back unchanged, panicking variants panic iff the try_ variant errs, size_of/align_of equalities, and allocator silence during a cast are all decided exactly. A textual scan of palette/src warns about implementors the list lacks.",
         "Cast traits run on a 12-type subset; when both length and capacity are bad either error kind is accepted; bytemuck impls are not exercised; Miri covers 9 011 cases on 16 types.",
         "§4 C04"),
 "C10": ("model_checking",
         "exhaustive enumeration of (colour lattice x factor lattice x partner lattice) products for every operator trait x implementing type x variant (by value, assigning, slice, Alpha, PreAlpha) on the real code; algebra relations against closed-form predictions, variant agreement bitwise",
         "28 colour types with explicit per-type trait lists, f32/f64: in-range colour lattices (bounded components at min, min+ulp, quartiles, max-ulp, max; hues at sector edges +- ulp, 0/360/-360/720/+-180, pairs exactly opposite +- ulp and straddling 0/360) x 14 factors {-1 ... 2} x up to 30 partners: mix ends, factor clamping (bitwise), betweenness, shorter hue arc; lighten/darken/saturate/desaturate (+_fixed) monotone along the factor lattice, reach the accessor limit at 1, stay in range, leave other components bit-identical, negated-amount equivalences bitwise; shift/with/set hue; Complementary..Tetradic against shift_hue and, for Lab/Luv/Oklab/Cam16UcsJab, a rotation model and the polar route; Add/Sub/Mul/Div with colour and scalar; u8 SaturatingAdd/Sub (Luma complete 256^2); every assigning, slice (lengths 0..3 and whole lattice), Alpha and PreAlpha form bit-identical to the by-value form on the bare colour.",
         "Numeric relations use 16 ulps of the component scale (64 for the polar route), >= 13x observed rounding; Cam16 (full) and SIMD component types are not covered.",
         "§4 C10"),
 "C19": ("model_checking",
         "exhaustive enumeration of the answers of an environment the harness owns: every script of RNG words over a word lattice (W^d for the d words a sample draws; 24 / 70 words) for every sampler and every end-point pair of a range lattice, and a complete 2^10 x 2^10 (2^11 thorough) word grid for the volume claim, on the real Standard/Uniform sampler code under a scripted RngCore; no pseudo-random stream decides anything",
         "47 Standard specs (21 colour types, their Alpha forms, 5 hue types; f32/f64) x all scripts: is_within_bounds and accessor bounds, draw count per sample measured and constant. Uniform: end points per component from {full range, sub-range, equal ends, adjacent floats, 2^-20 of the range} x {new, new_inclusive} x all scripts: every component between the ends (equivalent HSV saturation/value for the HWB forms), hues on the arc from low to high for arcs that do and do not wrap. Volume without statistics: for Hsv/Okhsv/Hsl/Okhsl/Hwb/Okhwb the images of the complete word grid are counted in 16 x 16 equal-volume cells of the cone/bicone (allowed deviation = counted grid points within a quarter step of a cell boundary) and compared with the closed-form inverse CDF derived from the geometry; Standard hue over a complete 2^12 / 2^16 word grid in 64 arcs.",
         "rand 0.8.8's float sampling maps words to [0,1) as read from its source; rand constructor panics (low >= high) produce no colour and are counted, not judged; Hsluv is range-checked only.",
         "§4 C19"),
 "C15": ("model_checking",
         "exhaustive enumeration of complete spaces on the real code: the complete 8-bit sRGB cube (all 2^24 colours, thorough; 52^3 grid quick) and N^3 grids of every other RGB standard through every gamut-bounded cylindrical space and back, and a cylinder grid (hue every 1 / 0.25 deg + every sector edge +- ulp, saturation-like x lightness-like 23^2 incl. both bounds) into RGB",
         "Forward: for HSL, HSV, HWB of every RGB standard, Okhsl, Okhsv, Okhwb and HSLuv (f32/f64; 8 compiler-discovered graphs) every cylinder grid point whose saturation-like and lightness-like components lie within the documented bounds (bounds included; w+b <= 1 for the HWB forms) must convert to RGB components in [0,1] up to the tolerance. Reverse: every in-gamut RGB colour of the grid (complete 256^3 for the sRGB-rooted graph) must convert into each space within its bounds and back to the same RGB colour. The geometric spaces hold to rounding accuracy; HSLuv and the Ok spaces to the accuracy of their published gamut approximations.",
         "Tolerances: 1e-12 (f64) / 2e-6 (f32) for the geometric spaces; for HSLuv and the Ok spaces the measured accuracy of the published algorithm with 2x slack (forward 4e-3 / 5e-3, bounds 1e-3 / 2.3e-2) - that palette follows those algorithms is C02's claim. Two findings recorded (blue-primary discontinuity, HSLuv saturation at white).",
         "§4 C15"),
 "C09": ("model_checking",
         "exhaustive enumeration of all ordered pairs of a Lab/Lch lattice (2.5k colours: 11.9 M ordered pairs per type and float, every hue-case combination of CIEDE2000 occurring >= 17k times), of all 256 x 256 grey pairs, of a 9^3 / 17^3 colour grid and of all 2^24 Srgb<u8> colours (luminance), on the real difference and contrast code, against f64 reference formulas validated in-run on Sharma's 34 published pairs",
         "CIEDE2000 for every ordered pair against the Sharma/Wu/Dalal reference with a +-4-ulp backward-error envelope, excluding (and counting) only pairs within rounding of |dh'| = 180 deg; DeltaE, the improved variants, HyAB and Euclidean distance against their closed forms for Lab, Lch, Luv, Oklab, Cam16UcsJab/Jmh, Rgb, Xyz, Yxy, Luma; polar forms against rectangular forms on colours converted by palette itself; d >= 0, symmetry, d(x,x) = 0 exactly for every pair; WCAG relative luminance of all 2^24 8-bit sRGB colours (range, monotone along all 3 x 65 536 channel chains), contrast ratio symmetric and in [1, 21], every has_* predicate (both traits) equivalent to its documented threshold on the returned ratio.",
         "Luminance reference accepts the interval between WCAG's printed coefficients and the 7-digit matrix row palette uses, and the IEC knee palette documents; Sharma's formula itself jumps by 5e-6*dE at h1'+h2' = 360, pairs within rounding of it get that allowance.",
         "§4 C09"),
 "C16": ("model_checking",
         "exhaustive enumeration of the product (viewing conditions x XYZ lattice x attribute combination x float type) - 1 440 conditions x 917 colours quick, 9 600 x 5 829 thorough - on the real CAM16 code, against an independent f64 CAM16 / CAM16-UCS reference model written from Li et al. 2017 and validated in every run on the published test vector and palette's own expectations",
         "Viewing conditions: adapting luminance {0.2 ... 1000 (0.01 ... 1e4 thorough)} x background {0.05, 0.2, 0.5, 0.9} x surround {Dark, Dim, Average, Percent on both lerp segments and beyond both clamps} x discounting {Auto, Custom incl. clamped} x white point {static D65, D50; dynamic D65, E, A}; colours: images of a 9^3 / 17^3 sRGB grid, near-black, out-of-gamut linear points, Rec.2020 primaries, an XYZ cube, the adopted white. For every pair: XYZ -> Cam16 (full) and each of the six partials -> XYZ returns the input (condition-number-scaled tolerance), black maps to black exactly, each partial equals the full colour's attributes bitwise and into_full reproduces all seven attributes, all 36 partial-to-partial interconversions, baked == unbaked parameters, Cam16UcsJab <-> Cam16UcsJmh <-> Cam16Jmh, forward model vs the reference in J, Q, C e^{ih}, M e^{ih}, s, and J = 100 exactly for the adopted white.",
         "Intermediate surrounds are modelled as linear interpolation of the published (F, c, N_c) rows; points the reference classifies outside the model's domain (A <= 0) or with cancellation kappa > 50 (0.04 %) are only required not to panic and to keep partial == full; Alpha wrappers and SIMD lanes are not driven.",
         "§4 C16"),
 "C17": ("model_checking",
         "exhaustive lane-mix enumeration on the real SIMD code: for every compiler-discovered conversion edge (595 per vector type, f32x4/f32x8/f64x2/f64x4) and operator, every ordered pair (x, y) of a branch-covering lattice is packed with x in each lane position once and y elsewhere and compared bitwise with the splat result; all 2^N x 2^N lane patterns for the mask operations; every (lane, component) position for pack/unpack; scalar f32 vs f64 on every edge of the scalar graph",
         "Lane independence (bitwise): lane i of f(pack(x at i, y elsewhere)) == lane i of f(splat x) for every edge and 266 (type, operator) pairs per vector type, 570 M lane comparisons quick; SIMD vs scalar of the same width in the XYZ metric (f32 1e-4, f64 1e-7) - wide's kernels are approximations, not libm; scalar f32 vs f64 on all 959 edges with C02's tolerances and input classes; From<[C<T>; N]> / Into<[C<T>; N]> are exact transposes for 34 plain, 34 Alpha and 17 PreAlpha types with sentinel and special bit patterns; BitOps / Select / LazySelect / BoolMask / PartialCmp == per-lane scalar operations for all lane patterns and operands on both sides of / at the comparison. A scan of the anchored sources warns about comparison literals the lattices do not cover.",
         "Scalar is_valid_divisor is is_normal() while the vector form is != 0 (differ only for subnormal/inf/NaN divisors; colours agree); CIEDE2000 is not compared with the scalar within 0.5 deg of opposite hues; Alpha-carrying SIMD conversions are not in the lane-mix enumeration. One known finding (blue cusp, f32 vs f64).",
         "§4 C17"),
}
PENDING = {}
ALL = ["C%02d" % i for i in range(1, 21)]

def main():
    checks = []
    for pid in ALL:
        if pid not in CHECKS: continue
        cat, tech, text, note, ref = CHECKS[pid]
        text += ADDENDA.get(pid, "")
        for a, b in NOTE_FIXES.get(pid, []):
            note = note.replace(a, b)
        checks.append({
            "property_id": pid,
            "quick_cmd": f"./check {pid} quick",
            "thorough_cmd": f"./check {pid} thorough",
            "evidence_file": f"/verif/evidence/{pid}.json",
            "replay_cmd_template": f"./check {pid} --replay {{path}}",
            "engine": "pv",
            "level_claimed": {"category": cat, "text": text, "design_ref": ref},
            "level_note": note,
            "technique": tech,
        })
    na = [{"property_id": p, "reason": PENDING.get(p, "check not built yet in this round (planned in DESIGN.md §4; no claim is made until its harness exists and passes on the unchanged tree)")} for p in ALL if p not in CHECKS]
    m = {
        "version": 1,
        "setup_cmd": "./setup.sh",
        "hooks": {
            "guard": "palette_verif",
            "enable": "rustc --cfg palette_verif, set for every harness build in /verif/harness/.cargo/config.toml ([build] rustflags); /repo's own builds never set it",
            "baseline_off_cmd": BASE["cmd"],
            "source_commits": ["41a6c6a"],
            "add_only": True,
        },
        "engines": [{
            "name": "pv",
            "path": "/verif/harness/pv",
            "serves_properties": [c["property_id"] for c in checks],
            "kind_free_text": "hand-written stateless bounded-exhaustive explorer in Rust (product/chain enumeration, operation-sequence BFS, conversion-graph path search) driving the real palette code, with f64 reference models, signature-based findings, replay files and evidence counters",
        }],
        "checks": checks,
        "not_applicable": na,
        "notes": "All checks: exit 0 = held on everything explored (KNOWN-FINDING lines for entries of /verif/known_findings.jsonl), exit 1 + VIOLATION lines otherwise, exit 2/3 = machinery failure. loom/shuttle/TLC/Spin are not used: palette has no threads, locks, atomics or persisted state (DESIGN.md §1).",
    }
    json.dump(m, open(os.path.join(ROOT, "MANIFEST.json"), "w"), indent=1)
    print("wrote MANIFEST.json with", len(checks), "checks,", len(na), "not_applicable")

if __name__ == "__main__":
    main()
