//! `Alpha<Color<Vec<f32>>, Vec<u8>>`: the alpha collection may have another element type than the
//! colour's (the Vec methods are generic in it). The main engine is built on one element type, so
//! this configuration gets its own small explicit-state search: states = contents (a Vec of
//! (colour index, alpha) pairs, length <= MAXLEN), transitions = push / pop / clear / drain(range,
//! consume pattern) / extend(k) / get(i) / with_capacity + collect; after every transition the
//! real collection is compared with a `Vec` model: every component vector and the alpha vector
//! (read from the fields) have the model's length and contents, and the returned items agree.
//! The calls are written so that they type-check whether the Vec methods resolve on the Alpha
//! wrapper or, through `Deref`, on the bare colour collection (`KeyOf` / `PushArg` below): a change
//! that narrows the inherent impl then shows up as wrong behaviour instead of breaking the build of
//! this harness (which would be a machinery failure, not a verdict). `with_capacity` is an
//! associated function without that fallback and is covered for the same-type alpha by the engine.
use core::ops::Bound;
use palette::encoding::Srgb;
use palette::hues::{LabHue, RgbHue};
use palette::white_point::D65;
use palette::{Alpha, Hsv, Lab, Lch};
#[allow(unused_imports)]
use core::ops::{Deref, DerefMut};
use pv::{json, Collector, Ctx, Tier, Value};
use std::collections::{BTreeSet, VecDeque};

type Item = (u8, u8); // (colour index, alpha)
const MAXLEN: usize = 4;

/// what an item returned by pop / drain says about itself: (colour index, alpha if it carries one)
pub trait KeyOf {
    fn key_of(&self) -> (u8, Option<u8>);
}
/// the argument `push` wants, made from an alpha item (identity, or the bare colour)
pub trait PushArg<X> {
    fn conv(self) -> X;
}
impl<X> PushArg<X> for X {
    fn conv(self) -> X {
        self
    }
}

pub trait HCfg {
    const NAME: &'static str;
    type Soa;
    type One: Copy;
    fn empty() -> Self::Soa;
    fn one(it: Item) -> Self::One;
    fn key(o: &Self::One) -> Item;
    fn push(s: &mut Self::Soa, o: Self::One);
    fn pop(s: &mut Self::Soa) -> Option<(u8, Option<u8>)>;
    fn clear(s: &mut Self::Soa);
    /// drains `range`, taking `front` items from the front and `back` from the back before dropping the iterator
    fn drain(s: &mut Self::Soa, range: (Bound<usize>, Bound<usize>), front: usize, back: usize) -> Vec<(u8, Option<u8>)>;
    fn extend(s: &mut Self::Soa, items: &[Self::One]);
    fn collect(items: &[Self::One]) -> Self::Soa;
    fn get(s: &Self::Soa, i: usize) -> Option<Self::One>;
    /// component vectors (as colour indices) and the alpha vector, read from the fields
    fn bufs(s: &Self::Soa) -> (Vec<Vec<u8>>, Vec<u8>);
}

fn val(ci: u8, k: usize) -> f32 {
    // distinct per colour index and component
    1.0 + ci as f32 * 8.0 + k as f32
}
fn idx(v: f32, k: usize) -> u8 {
    ((v - 1.0 - k as f32) / 8.0).round() as u8
}
fn colour_index(comps: &[f32]) -> u8 {
    let ci = idx(comps[0], 0);
    // all components must name the same colour index, else report an impossible one
    for (k, c) in comps.iter().enumerate() {
        if idx(*c, k) != ci || (val(ci, k) - *c).abs() > 1e-3 {
            return 255;
        }
    }
    ci
}

macro_rules! hcfg {
    ($cfg:ident, $name:literal, $Col:ident < $Meta:ty >, |$it:ident| $mk:expr, |$o:ident| [$($comp:expr),+], |$s:ident| [$($vec:expr),+]) => {
        pub struct $cfg;
        impl KeyOf for Alpha<$Col<$Meta, f32>, u8> {
            fn key_of(&self) -> (u8, Option<u8>) {
                let $o = &self.color;
                (colour_index(&[$($comp),+]), Some(self.alpha))
            }
        }
        impl KeyOf for $Col<$Meta, f32> {
            fn key_of(&self) -> (u8, Option<u8>) {
                let $o = self;
                (colour_index(&[$($comp),+]), None)
            }
        }
        impl PushArg<$Col<$Meta, f32>> for Alpha<$Col<$Meta, f32>, u8> {
            fn conv(self) -> $Col<$Meta, f32> {
                self.color
            }
        }
        impl HCfg for $cfg {
            const NAME: &'static str = $name;
            type Soa = Alpha<$Col<$Meta, Vec<f32>>, Vec<u8>>;
            type One = Alpha<$Col<$Meta, f32>, u8>;
            fn empty() -> Self::Soa {
                core::iter::empty::<Self::One>().collect()
            }
            fn one($it: Item) -> Self::One {
                Alpha { color: $mk, alpha: $it.1 }
            }
            fn key(o: &Self::One) -> Item {
                let k = o.key_of();
                (k.0, o.alpha)
            }
            fn push(s: &mut Self::Soa, o: Self::One) {
                s.push(PushArg::conv(o))
            }
            fn pop(s: &mut Self::Soa) -> Option<(u8, Option<u8>)> {
                s.pop().map(|x| x.key_of())
            }
            fn clear(s: &mut Self::Soa) {
                s.clear()
            }
            fn drain(s: &mut Self::Soa, range: (Bound<usize>, Bound<usize>), front: usize, back: usize) -> Vec<(u8, Option<u8>)> {
                let mut d = s.drain(range);
                let mut out = vec![];
                for _ in 0..front {
                    if let Some(x) = d.next() {
                        out.push(x.key_of());
                    }
                }
                let mut tail = vec![];
                for _ in 0..back {
                    if let Some(x) = d.next_back() {
                        tail.push(x.key_of());
                    }
                }
                tail.reverse();
                out.extend(tail);
                out
            }
            fn extend(s: &mut Self::Soa, items: &[Self::One]) {
                s.extend(items.iter().copied())
            }
            fn collect(items: &[Self::One]) -> Self::Soa {
                items.iter().copied().collect()
            }
            fn get(s: &Self::Soa, i: usize) -> Option<Self::One> {
                s.get::<usize, f32, u8>(i).map(|r| r.copied())
            }
            fn bufs(s: &Self::Soa) -> (Vec<Vec<u8>>, Vec<u8>) {
                let $s = &s.color;
                let vs: Vec<Vec<f32>> = vec![$($vec),+];
                (vs.iter().enumerate().map(|(k, v)| v.iter().map(|x| idx(*x, k)).collect()).collect(), s.alpha.clone())
            }
        }
    };
}

use palette::rgb::Rgb;
hcfg!(HRgb, "Rgb+alpha(u8)", Rgb<Srgb>, |it| Rgb::new(val(it.0, 0), val(it.0, 1), val(it.0, 2)), |o| [o.red, o.green, o.blue], |s| [s.red.clone(), s.green.clone(), s.blue.clone()]);
hcfg!(HLab, "Lab+alpha(u8)", Lab<D65>, |it| Lab::new(val(it.0, 0), val(it.0, 1), val(it.0, 2)), |o| [o.l, o.a, o.b], |s| [s.l.clone(), s.a.clone(), s.b.clone()]);
// hue types: the hue vector is private to the hue wrapper; `into_inner` of a clone reads it
hcfg!(HHsv, "Hsv+alpha(u8)", Hsv<Srgb>, |it| Hsv::new(RgbHue::new(val(it.0, 0)), val(it.0, 1), val(it.0, 2)), |o| [o.hue.into_inner(), o.saturation, o.value], |s| [s.hue.clone().into_inner(), s.saturation.clone(), s.value.clone()]);
hcfg!(HLch, "Lch+alpha(u8)", Lch<D65>, |it| Lch::new(val(it.0, 0), val(it.0, 1), LabHue::new(val(it.0, 2))), |o| [o.l, o.chroma, o.hue.into_inner()], |s| [s.l.clone(), s.chroma.clone(), s.hue.clone().into_inner()]);

#[derive(Clone, Debug)]
enum Op {
    Push(Item),
    Pop,
    Clear,
    Drain(Bound<usize>, Bound<usize>, usize, usize),
    Extend(Vec<Item>),
    Rebuild, // collect() from the model's items into a fresh collection
}

fn bstr(b: &Bound<usize>) -> String {
    match b {
        Bound::Included(x) => format!("={x}"),
        Bound::Excluded(x) => format!("{x}"),
        Bound::Unbounded => "-".into(),
    }
}
fn op_json(op: &Op) -> Value {
    match op {
        Op::Push(i) => json!({"op": "push", "item": [i.0, i.1]}),
        Op::Pop => json!({"op": "pop"}),
        Op::Clear => json!({"op": "clear"}),
        Op::Drain(a, b, f, k) => json!({"op": "drain", "start": bstr(a), "end": bstr(b), "take_front": f, "take_back": k}),
        Op::Extend(v) => json!({"op": "extend", "items": v.iter().map(|i| vec![i.0, i.1]).collect::<Vec<_>>()}),
        Op::Rebuild => json!({"op": "collect"}),
    }
}

/// resolves a range against `len` like Vec::drain does; None = Vec::drain panics
fn resolve(a: Bound<usize>, b: Bound<usize>, len: usize) -> Option<(usize, usize)> {
    let s = match a {
        Bound::Included(x) => x,
        Bound::Excluded(x) => x.checked_add(1)?,
        Bound::Unbounded => 0,
    };
    let e = match b {
        Bound::Included(x) => x.checked_add(1)?,
        Bound::Excluded(x) => x,
        Bound::Unbounded => len,
    };
    if s > e || e > len {
        None
    } else {
        Some((s, e))
    }
}

fn ops_for(len: usize, next: Item) -> Vec<Op> {
    let mut v = vec![Op::Push(next), Op::Pop, Op::Clear, Op::Rebuild];
    let ends = |n: usize| -> Vec<Bound<usize>> { (0..=n).flat_map(|x| [Bound::Included(x), Bound::Excluded(x)]).chain([Bound::Unbounded]).collect() };
    for a in [Bound::Unbounded].into_iter().chain((0..=len).map(Bound::Included)).chain((0..=len).map(Bound::Excluded)) {
        for b in ends(len) {
            if let Some((s, e)) = resolve(a, b, len) {
                let n = e - s;
                for (f, k) in [(n, 0), (0, 0), (1, 0), (0, 1), (1, 1)] {
                    if f + k <= n.max(1) {
                        v.push(Op::Drain(a, b, f, k));
                    }
                }
            }
        }
    }
    v.push(Op::Extend(vec![]));
    v.push(Op::Extend(vec![next]));
    v.push(Op::Extend(vec![next, (next.0.wrapping_add(1) % 5, next.1.wrapping_mul(3).wrapping_add(1))]));
    v
}

fn build<G: HCfg>(items: &[Item]) -> G::Soa {
    let mut s = G::empty();
    for it in items {
        G::push(&mut s, G::one(*it));
    }
    s
}

/// applies `op` to the real collection and to the model; returns (real returned items, model returned items, new real, new model)
fn step<G: HCfg>(real: G::Soa, model: &[Item], op: &Op) -> (Vec<(u8, Option<u8>)>, Vec<(u8, Option<u8>)>, G::Soa, Vec<Item>) {
    let mut real = real;
    let mut m = model.to_vec();
    match op {
        Op::Push(i) => {
            G::push(&mut real, G::one(*i));
            m.push(*i);
            (vec![], vec![], real, m)
        }
        Op::Pop => {
            let r = G::pop(&mut real);
            let e = m.pop().map(|i| (i.0, Some(i.1)));
            (r.into_iter().collect(), e.into_iter().collect(), real, m)
        }
        Op::Clear => {
            G::clear(&mut real);
            m.clear();
            (vec![], vec![], real, m)
        }
        Op::Drain(a, b, f, k) => {
            let got = G::drain(&mut real, (*a, *b), *f, *k);
            let (s, e) = resolve(*a, *b, m.len()).expect("only valid ranges are generated");
            let drained: Vec<Item> = m.drain(s..e).collect();
            let n = drained.len();
            let ff = (*f).min(n);
            let kk = (*k).min(n - ff);
            let mut want: Vec<Item> = drained[..ff].to_vec();
            want.extend_from_slice(&drained[n - kk..]);
            (got, want.into_iter().map(|i| (i.0, Some(i.1))).collect(), real, m)
        }
        Op::Extend(v) => {
            let ones: Vec<G::One> = v.iter().map(|i| G::one(*i)).collect();
            G::extend(&mut real, &ones);
            m.extend_from_slice(v);
            (vec![], vec![], real, m)
        }
        Op::Rebuild => {
            let ones: Vec<G::One> = m.iter().map(|i| G::one(*i)).collect();
            (vec![], vec![], G::collect(&ones), m)
        }
    }
}

fn compare<G: HCfg>(real: &G::Soa, model: &[Item]) -> Option<String> {
    let (comps, alpha) = G::bufs(real);
    let want_c: Vec<u8> = model.iter().map(|i| i.0).collect();
    let want_a: Vec<u8> = model.iter().map(|i| i.1).collect();
    for (k, c) in comps.iter().enumerate() {
        if *c != want_c {
            return Some(format!("component vector #{k} holds colours {:?}, the model {:?}", c, want_c));
        }
    }
    if alpha != want_a {
        return Some(format!("alpha vector holds {:?}, the model {:?}", alpha, want_a));
    }
    for i in 0..=model.len() {
        let g = G::get(real, i).map(|o| G::key(&o));
        if g != model.get(i).copied() {
            return Some(format!("get({i}) = {:?}, the model {:?}", g, model.get(i)));
        }
    }
    None
}

pub fn run_one<G: HCfg>(ctx: &Ctx, total: &mut Collector, only_history: Option<Vec<Op>>) {
    let sub = format!("hetero-alpha/{}", G::NAME);
    if !ctx.wants(&sub) && only_history.is_none() {
        return;
    }
    let depth = if ctx.tier == Tier::Thorough { 4 } else { 3 };
    let mut c = Collector::new();
    let (mut states, mut trans) = (0u64, 0u64);
    // a state = the contents; reached by BFS; every edge re-executed from a freshly built collection
    let mut seen: BTreeSet<Vec<Item>> = BTreeSet::new();
    let mut q: VecDeque<(Vec<Item>, usize)> = VecDeque::new();
    seen.insert(vec![]);
    q.push_back((vec![], 0));
    while let Some((m, d)) = q.pop_front() {
        states += 1;
        if d >= depth {
            continue;
        }
        // the next pushed item is new to the contents: colour index = len, alpha not palindromic
        let next: Item = ((m.len() % 5) as u8, (17 * (m.len() as u8 + 1)) ^ 0x5a);
        for op in ops_for(m.len(), next) {
            trans += 1;
            let r = pv::catch(|| {
                let real = build::<G>(&m);
                let (got, want, real2, m2) = step::<G>(real, &m, &op);
                let diff = if got != want { Some(format!("returned items {:?}, the model {:?}", got, want)) } else { compare::<G>(&real2, &m2) };
                (diff, m2)
            });
            let opname = op_json(&op)["op"].as_str().unwrap_or("").to_string();
            let mk = |obs: Value| json!({"sub": "hetero-alpha", "cfg": G::NAME, "contents": m.iter().map(|i| vec![i.0, i.1]).collect::<Vec<_>>(), "input": op_json(&op), "observed": obs, "expected": "what Vec<(colour, alpha)> does; every component vector and the alpha vector stay in step"});
            match r {
                Err(msg) => c.violation(&format!("C18/hetero-alpha/{}/{}/panic", G::NAME, opname), 1.0, || mk(json!({"panic": msg}))),
                Ok((Some(diff), _)) => c.violation(&format!("C18/hetero-alpha/{}/{}/behaviour", G::NAME, opname), 1.0, || mk(json!(diff))),
                Ok((None, m2)) => {
                    c.outcome(pv::fnv(format!("{:?}", m2).as_bytes()));
                    if m2.len() <= MAXLEN && seen.insert(m2.clone()) {
                        q.push_back((m2, d + 1));
                    }
                }
            }
        }
    }
    c.add(&sub, states, trans, trans, states.saturating_sub(1));
    total.merge(c);
    total.exhaustive(&sub, true, &format!("Alpha<Color<Vec<f32>>, Vec<u8>> (alpha element type differs from the colour's): BFS over contents up to length {MAXLEN}, depth {depth}; every transition from {{push, pop, clear, collect, extend(0/1/2 items), drain(every valid start/end bound combination incl. exclusive starts, inclusive and unbounded ends x 5 consume patterns front/back)}} re-executed on a freshly built collection and compared with a Vec model (component vectors and alpha vector read from the fields, get(i) for every i)"));
}

pub fn run(ctx: &Ctx, total: &mut Collector) {
    run_one::<HRgb>(ctx, total, None);
    run_one::<HLab>(ctx, total, None);
    run_one::<HHsv>(ctx, total, None);
    run_one::<HLch>(ctx, total, None);
}
