//! C09 — colour difference measures satisfy their defining formulas and metric laws.
//!
//! Sub-checks (all exhaustive over the stated products, E1 of DESIGN §3.1; f32 and f64):
//!  ciede2000/<T>      all ordered pairs of the Lab lattice and of the Lch lattice through
//!                     Ciede2000::difference (vs Sharma/Wu/Dalal, validated in the same run on the
//!                     34 published pairs; backward-error envelope; pairs next to |Δh'| = 180°
//!                     excluded and counted), ImprovedCiede2000 and the deprecated ColorDifference
//!                     (vs their definition through `difference`); ≥ 0, symmetric, d(x,x) = 0 exactly
//!  closed-form/<T>    DeltaE, ImprovedDeltaE, EuclideanDistance, HyAb on Lab, Lch, Luv, Oklab,
//!                     Cam16UcsJab, Cam16UcsJmh, Srgb, LinSrgb, Xyz, Yxy, SrgbLuma; same laws
//!  polar-vs-rect/<T>  Lch vs Lab and Cam16UcsJmh vs Cam16UcsJab on colours that correspond
//!                     under palette's own conversion (both directions)
//!  wcag-luminance/<T> relative luminance of all 2^24 Srgb<u8> colours (value, range, monotone chains)
//!  wcag-grey/<T>      all 256 × 256 grey-level pairs × 4 types × both traits
//!  wcag-grid/<T>      all ordered pairs of the 9³ / 17³ sRGB grid × Srgb, LinSrgb × both traits
//!  wcag-deprecated/<T> the deprecated RelativeContrast on 14 further colour types (6³ / 9³ grid)
//!
//! Files: oracle.rs (f64 references + their self-validation), lattice.rs (the enumerated spaces),
//! subject.rs (the only code that calls palette), checks.rs (one check function per kind of case,
//! shared by the explorer and --replay), main.rs (explorer, evidence, replay).
//! Replay case = {sub, space|type, measure|trait, float, input: bit patterns}.
mod checks;
mod lattice;
mod oracle;
mod subject;

use checks::*;
use pv::{json, Collector, Ctx, Mode, Tier, Value};
use subject::*;

const CHUNKS: usize = 256;

/// All unordered pairs i ≤ j of `n` items, rows dealt round-robin to CHUNKS chunks.
fn par_pairs(n: usize, f: impl Fn(usize, usize, &mut Collector, &mut Local) + Sync) -> (Collector, Local) {
    let ch = CHUNKS.min(n.max(1));
    let res = pv::par::map_chunks(ch, |k| {
        let mut c = Collector::new();
        let mut l = Local::default();
        let mut i = k;
        while i < n {
            for j in i..n {
                f(i, j, &mut c, &mut l);
            }
            i += ch;
        }
        (c, l)
    });
    let mut total = Collector::new();
    let mut lt = Local::default();
    for (c, l) in res {
        total.merge(c);
        lt.merge(&l);
    }
    (total, lt)
}

fn ordered(n: usize) -> u64 {
    (n as u64) * (n as u64)
}

fn lattice_of<T: Sc>(space: Space, tier: Tier) -> Vec<[T; 3]> {
    match space {
        Space::Lch | Space::Jmh => lattice::polar_lattice::<T>(space, tier),
        Space::Lab | Space::Luv | Space::Oklab | Space::Jab => lattice::rect_lattice::<T>(space, tier),
        Space::Luma => (0..=255u8).map(|v| [T::from_u8(v), T::from64(0.0), T::from64(0.0)]).collect(),
        _ => lattice::cube_lattice::<T>(),
    }
}

fn chroma64<T: Sc>(space: Space, x: [T; 3]) -> f64 {
    let r = rect64(space, x);
    r[1].hypot(r[2])
}

fn run_pairs<T: Sc>(ctx: &Ctx, total: &mut Collector) {
    for group in ["ciede2000", "closed-form"] {
        let sub = format!("{}/{}", group, T::NAME);
        if !ctx.wants(&sub) {
            continue;
        }
        let mut bound = vec![];
        let mut agg = Local::default();
        for space in SPACES {
            let ms: Vec<Meas> = space.measures().iter().cloned().filter(|m| m.is_ciede() == (group == "ciede2000")).collect();
            if ms.is_empty() {
                continue;
            }
            let lat = lattice_of::<T>(space, ctx.tier);
            let n = lat.len();
            let (lat_r, ms_r) = (&lat, &ms);
            let (c, l) = par_pairs(n, |i, j, c, l| {
                let (x, y) = (lat_r[i], lat_r[j]);
                let mut own = None;
                for &m in ms_r.iter() {
                    // Ciede2000 comes first in its group: the variants defined through it reuse its value
                    let o = check_pair::<T>(group, space, m, x, y, own, c, l, ctx.seed);
                    if m == Meas::Ciede2000 {
                        own = o;
                    }
                }
                let w = if i == j { 1 } else { 2 };
                l.states += w;
                // non-trivial: two different colours; for CIEDE2000 additionally both chromatic
                // (a hue difference exists and the case analysis is exercised)
                if i != j && (group != "ciede2000" || (chroma64::<T>(space, x) > 0.0 && chroma64::<T>(space, y) > 0.0)) {
                    l.nontrivial += w;
                }
            });
            total.merge(c);
            bound.push(format!("{}: {} colours → {} ordered pairs × {} measures", space.name(), n, ordered(n), ms.len()));
            if group == "ciede2000" {
                let mut cases = json!({});
                for hc in oracle::HUE_CASES {
                    cases[hc.name()] = json!(l.case_pairs[hc.index()]);
                }
                total.note(&format!("ciede2000/{}<{}>", space.name(), T::NAME), json!({
                    "unordered_pairs_by_hue_case": cases,
                    "pairs_excluded_because_|Δh'|_within_threshold_of_180°": l.excluded, "threshold_deg": tols::<T>().thr180,
                    "pairs_within_1e-3°_of_180°": l.excluded_1e3,
                    "pairs_with_|Δh'|>180_within_threshold_of_h1'+h2'=360° (the formula's own 5e-6·ΔE jump is added to tol)": l.near_sum360,
                    "exact_mirror_pairs (a2 = 2^k·a1 > 0, b2 = −2^k·b1: Σ = 360° exactly, held to Sharma's Σ ≥ 360 branch without the jump allowance)": l.exact_mirror,
                    "pairs_that_needed_the_±4ulp_envelope": l.needed_envelope,
                    "pair_measure_evaluations_not_bit_symmetric": l.asym_bits,
                    "max_err_over_tol_in_the_sum>=360_branches_and_next_to_Σ=360° (not rounding; not part of the sub-check's max_err_over_tol)": l.best_ge360,
                    "mean_hue_variant_(sum+360)/2_when_sum>=360: max |ΔE_variant − ΔE_Sharma| (reference arithmetic, f64)": l.variant_dev,
                    "mean_hue_variant_worst_pair": l.variant_case,
                }));
                for hc in oracle::HUE_CASES {
                    if l.case_pairs[hc.index()] < 100 {
                        total.warn(format!("ciede2000/{}<{}>: hue case {} occurs only {} times", space.name(), T::NAME, hc.name(), l.case_pairs[hc.index()]));
                    }
                }
            }
            agg.merge(&l);
        }
        total.add(&sub, agg.states, agg.trans, agg.traces, agg.nontrivial);
        let what = if group == "ciede2000" {
            "Lab lattice: L* ∈ {0,1,25,50,75,99,100} × (C* ∈ {1e-6,1,10,50,100,150} × h ∈ {every 10° (thorough: 2°)} ∪ {0+ε, 90±ε, 180±ε, 270±ε, 360−ε : ε ∈ {1e-2, 1e-5}}, and C* = 0) ∪ L* × {−128,−50,−1e-6,0,1e-6,50,127}²; Lch lattice: the same (L, C, h) as polar inputs plus h ∈ {−180,−10,360,370,720} and C = 0 with two hues; all ordered pairs (each unordered pair evaluated in both orders, and every colour with itself)"
        } else {
            "the Lab and Lch lattices of ciede2000, polar/cartesian lattices of the same shape for Luv, Oklab, Cam16UcsJab, Cam16UcsJmh, {0,1e-6,¼,½,¾,1}³ for Srgb, LinSrgb, Xyz, Yxy and all 256 levels for SrgbLuma; all ordered pairs"
        };
        total.exhaustive(&sub, true, &format!("{what}. {}", bound.join("; ")));
    }
}

fn run_polar_rect<T: Sc>(ctx: &Ctx, total: &mut Collector) {
    let sub = format!("polar-vs-rect/{}", T::NAME);
    if !ctx.wants(&sub) {
        return;
    }
    let mut agg = Local::default();
    let mut bound = vec![];
    for space in [Space::Lch, Space::Jmh] {
        for dir in ["from-polar", "from-rect"] {
            let (pol, rec): (Vec<[T; 3]>, Vec<[T; 3]>) = if dir == "from-polar" {
                let p = lattice_of::<T>(space, ctx.tier);
                let r = p.iter().map(|x| T::to_rect(space, *x)).collect();
                (p, r)
            } else {
                let r = lattice_of::<T>(space.rect(), ctx.tier);
                let p = r.iter().map(|x| T::to_polar(space, *x)).collect();
                (p, r)
            };
            let n = pol.len();
            let (pr, rr) = (&pol, &rec);
            let (c, l) = par_pairs(n, |i, j, c, l| {
                // one argument order per unordered pair, alternating (symmetry itself is the
                // business of the ciede2000 / closed-form sub-checks)
                let (a, b) = if (i + j) % 2 == 0 { (i, j) } else { (j, i) };
                check_polar_rect::<T>(space, None, dir, pr[a], pr[b], rr[a], rr[b], c, l, ctx.seed);
                l.states += 1;
                if i != j {
                    l.nontrivial += 1;
                }
            });
            total.merge(c);
            bound.push(format!("{} {}: {} colours → {} unordered pairs × {} measures", space.name(), dir, n, (n as u64) * (n as u64 + 1) / 2, polar_measures(space).len()));
            if space == Space::Lch {
                total.note(&format!("polar-vs-rect/Lch<{}>/{}", T::NAME, dir), json!({"ciede2000_evaluations_excluded_near_180°": l.excluded, "max_err_over_tol_next_to_Σ=360° (the formula's own jump; not part of max_err_over_tol)": l.best_ge360}));
            }
            agg.merge(&l);
        }
    }
    total.add(&sub, agg.states, agg.trans, agg.traces, agg.nontrivial);
    total.exhaustive(&sub, true, &format!("Ciede2000, ImprovedCiede2000, DeltaE, ImprovedDeltaE of Lch and DeltaE, ImprovedDeltaE of Cam16UcsJmh against the same measure of Lab / Cam16UcsJab on the colours that correspond under palette's own FromColorUnclamped, for all unordered pairs (argument order alternating, every colour also with itself) of the polar lattice (converted to rectangular) and of the rectangular lattice (converted to polar). {}", bound.join("; ")));
}

// ---- WCAG ---------------------------------------------------------------------------------

fn grid<T: Sc>(n: usize) -> Vec<[T; 3]> {
    let lv = lattice::grid_levels(n);
    let mut v = vec![];
    for &r in &lv {
        for &g in &lv {
            for &b in &lv {
                v.push([T::from_u8(r), T::from_u8(g), T::from_u8(b)]);
            }
        }
    }
    v
}

fn run_wcag_pairs<T: Sc>(ctx: &Ctx, total: &mut Collector, yrow: &[f64; 3]) {
    // grey levels
    let sub = format!("wcag-grey/{}", T::NAME);
    if ctx.wants(&sub) {
        let z = T::from64(0.0);
        let lv: Vec<T> = (0..=255u8).map(T::from_u8).collect();
        let (lv_r, sub_r) = (&lv, &sub);
        let (c, l) = par_pairs(256, |i, j, c, l| {
            let (gx, gy) = ([lv_r[i]; 3], [lv_r[j]; 3]);
            let (lx, ly) = ([lv_r[i], z, z], [lv_r[j], z, z]);
            for ty in WTYPES {
                let (x, y) = if ty.grey() { (lx, ly) } else { (gx, gy) };
                check_wcag::<T>(sub_r, ty, x, y, yrow, c, l, ctx.seed);
                check_wcag_old::<T>(sub_r, OType::from_name(ty.name()).unwrap(), x, y, yrow, c, l, ctx.seed);
            }
            let w = if i == j { 1 } else { 2 };
            l.states += w * 4;
            if i != j {
                l.nontrivial += w * 4;
            }
        });
        total.merge(c);
        total.add(&sub, l.states, l.trans, l.traces, l.nontrivial);
        total.exhaustive(&sub, true, "all 256 × 256 ordered pairs of 8-bit grey levels v/255 as SrgbLuma, Srgb(v,v,v), LinLuma, LinSrgb(v,v,v), through Wcag21RelativeContrast (luminance, ratio, 5 predicates, both orders) and the deprecated RelativeContrast");
    }
    // linear luminance grid k/1000: the ratio (L1 + 0.05) / (L2 + 0.05) of many of these pairs is bit-exactly
    // 3, 4.5 or 7 (e.g. 0.202 vs 0.006), the only inputs on which `>=` and `>` of a predicate differ
    let sub = format!("wcag-thresholds/{}", T::NAME);
    if ctx.wants(&sub) {
        let z = T::from64(0.0);
        let n = 1001usize;
        let lv: Vec<T> = (0..n).map(|k| T::from64(k as f64 / 1000.0)).collect();
        let (lv_r, sub_r) = (&lv, &sub);
        let exact = std::sync::atomic::AtomicU64::new(0);
        let exact_r = &exact;
        let (c, l) = par_pairs(n, |i, j, c, l| {
            let (x, y) = ([lv_r[i], z, z], [lv_r[j], z, z]);
            // cheap pre-filter in f64 (within 1e-5 of a threshold): only those pairs go through the full check
            let r = { let (a, b) = (lv_r[i].to64() + 0.05, lv_r[j].to64() + 0.05); if a > b { a / b } else { b / a } };
            if oracle::THRESHOLDS.iter().any(|(_, t)| (r - t).abs() <= 1e-5 * t) {
                let o = T::wcag(WType::LinLuma, x, y);
                if oracle::THRESHOLDS.iter().any(|(_, t)| o.r[0].to64() == *t) {
                    exact_r.fetch_add(1, std::sync::atomic::Ordering::Relaxed);
                }
                check_wcag::<T>(sub_r, WType::LinLuma, x, y, yrow, c, l, ctx.seed);
                check_wcag_old::<T>(sub_r, OType::from_name(WType::LinLuma.name()).unwrap(), x, y, yrow, c, l, ctx.seed);
                l.nontrivial += 1;
            }
            l.states += if i == j { 1 } else { 2 };
        });
        total.merge(c);
        total.add(&sub, l.states, l.trans, l.traces, l.nontrivial);
        let hits = exact.load(std::sync::atomic::Ordering::Relaxed);
        total.note(&format!("{sub}/pairs-with-bit-exact-threshold-ratio"), json!(hits));
        if hits < 20 {
            total.warn(format!("{sub}: only {hits} pairs with a bit-exact threshold ratio (expected dozens): the exact-boundary case may be unexplored"));
        }
        total.exhaustive(&sub, true, "all 1001 x 1001 ordered pairs of LinLuma(k/1000); the pairs whose ratio lies within 1e-5 of 3, 4.5 or 7 (incl. every pair whose computed ratio is bit-exactly a threshold; their number is in the notes) go through Wcag21RelativeContrast and the deprecated RelativeContrast: each predicate equals (ratio >= threshold) for the ratio the library itself returns");
    }
    // colour grid
    let sub = format!("wcag-grid/{}", T::NAME);
    if ctx.wants(&sub) {
        let n = ctx.tier.pick(9, 17);
        let g = grid::<T>(n);
        let (g_r, sub_r) = (&g, &sub);
        let (c, l) = par_pairs(g.len(), |i, j, c, l| {
            for ty in [WType::Srgb, WType::LinSrgb] {
                check_wcag::<T>(sub_r, ty, g_r[i], g_r[j], yrow, c, l, ctx.seed);
                check_wcag_old::<T>(sub_r, OType::from_name(ty.name()).unwrap(), g_r[i], g_r[j], yrow, c, l, ctx.seed);
            }
            let w = if i == j { 1 } else { 2 };
            l.states += w * 2;
            if i != j {
                l.nontrivial += w * 2;
            }
        });
        total.merge(c);
        total.add(&sub, l.states, l.trans, l.traces, l.nontrivial);
        total.exhaustive(&sub, true, &format!("all ordered pairs of the {n}³ = {} grid of Srgb<u8> colours (levels {:?}) converted with into_format, read as Srgb and as LinSrgb, through Wcag21RelativeContrast and the deprecated RelativeContrast", g.len(), lattice::grid_levels(n)));
    }
    // deprecated trait on the other colour types
    let sub = format!("wcag-deprecated/{}", T::NAME);
    if ctx.wants(&sub) {
        let gn = ctx.tier.pick(6, 9);
        let g = grid::<T>(gn);
        let types: Vec<OType> = OTYPES.into_iter().filter(|t| t.as_wtype().is_none()).collect();
        let (g_r, sub_r, ty_r) = (&g, &sub, &types);
        let (c, l) = par_pairs(g.len(), |i, j, c, l| {
            for &ty in ty_r.iter() {
                check_wcag_old::<T>(sub_r, ty, g_r[i], g_r[j], yrow, c, l, ctx.seed);
            }
            let w = if i == j { 1 } else { 2 };
            l.states += w * ty_r.len() as u64;
            if i != j {
                l.nontrivial += w * ty_r.len() as u64;
            }
        });
        total.merge(c);
        total.add(&sub, l.states, l.trans, l.traces, l.nontrivial);
        total.exhaustive(&sub, true, &format!("all ordered pairs of the {gn}³ sRGB grid converted with FromColor to {} and compared with the deprecated RelativeContrast (symmetry, 1 ≤ r ≤ 21(1+2e-3), predicates ⇔ thresholds on the returned ratio)", types.iter().map(|t| t.name()).collect::<Vec<_>>().join(", ")));
    }
}

/// One colour of the 2^24: range and value of the relative luminance. Returns the value.
fn check_lum<T: Sc>(rgb: [u8; 3], dec: &[(f64, f64); 256], yrow: &[f64; 3], c: &mut Collector, best: &mut f64, sub: &str) -> f64 {
    let t = tols::<T>();
    let case = |w: &str, v: Value| json!({"sub": "wcag-luminance", "kind": "value", "float": T::NAME, "rgb": rgb, "what": w, "observed": v});
    let v = match pv::catch(|| T::lum_u8(rgb[0], rgb[1], rgb[2])) {
        Ok(v) => v.to64(),
        Err(m) => {
            c.violation(&format!("C09/wcag-luminance/Srgb<{}>/panic", T::NAME), 1.0, || case("panic", json!(m)));
            return f64::NAN;
        }
    };
    if !(0.0..=1.0).contains(&v) {
        c.violation(&format!("C09/wcag-luminance/Srgb<{}>/range", T::NAME), if v.is_nan() { f64::INFINITY } else { (-v).max(v - 1.0) }, || case("relative luminance outside [0, 1]", fnum(v)));
        return v;
    }
    let lo = [dec[rgb[0] as usize].0, dec[rgb[1] as usize].0, dec[rgb[2] as usize].0];
    let hi = [dec[rgb[0] as usize].1, dec[rgb[1] as usize].1, dec[rgb[2] as usize].1];
    let (a, b) = oracle::luminance_hull(lo, hi, yrow);
    let excess = (a - v).max(v - b).max(0.0);
    if excess > t.lum {
        c.violation(&format!("C09/wcag-luminance/Srgb<{}>/value", T::NAME), excess, || case(&format!("relative luminance outside [{a}, {b}] ± {}", t.lum), fnum(v)));
    } else if excess / t.lum > *best {
        *best = excess / t.lum;
        c.ratio(sub, *best, || case("largest error/tolerance so far", fnum(v)));
    }
    v
}

fn check_lum_monotone<T: Sc>(lower: [u8; 3], upper: [u8; 3], vl: f64, vu: f64, channel: usize, c: &mut Collector) -> bool {
    let t = tols::<T>();
    if vu < vl - t.lum {
        c.violation(&format!("C09/wcag-luminance/Srgb<{}>/monotone/{}", T::NAME, ["red", "green", "blue"][channel]), vl - vu, || json!({"sub": "wcag-luminance", "kind": "monotone", "float": T::NAME, "rgb": lower, "channel": channel, "upper": upper, "observed": {"L(lower)": fnum(vl), "L(upper)": fnum(vu)}, "expected": "L(upper) >= L(lower)"}));
    }
    vu < vl
}

fn decode_table<T: Sc>() -> [(f64, f64); 256] {
    let mut d = [(0.0, 0.0); 256];
    for v in 0..256usize {
        let e = T::from_u8(v as u8).to64();
        let (a, b) = (oracle::srgb_decode(e, oracle::KNEE_IEC), oracle::srgb_decode(e, oracle::KNEE_WCAG));
        d[v] = (a.min(b), a.max(b));
    }
    d
}

fn run_luminance<T: Sc>(ctx: &Ctx, total: &mut Collector, yrow: &[f64; 3]) {
    let sub = format!("wcag-luminance/{}", T::NAME);
    if !ctx.wants(&sub) {
        return;
    }
    let dec = decode_table::<T>();
    let (dec_r, sub_r) = (&dec, &sub);
    // 16 slabs of 16 red levels; each slab also evaluates the red level below it so that the
    // red chains are walked across slab borders
    let res = pv::par::map_chunks(16, |k| {
        let mut c = Collector::new();
        let mut best = 0.0f64;
        let (mut states, mut trans, mut traces, mut nontriv, mut exact_dec) = (0u64, 0u64, 0u64, 0u64, 0u64);
        let mut prev: Vec<f64> = vec![];
        let r0 = k * 16;
        let start = if r0 == 0 { 0 } else { r0 - 1 };
        for r in start..r0 + 16 {
            let own = r >= r0;
            let mut cur = vec![0.0f64; 65536];
            for g in 0..256usize {
                for b in 0..256usize {
                    let rgb = [r as u8, g as u8, b as u8];
                    let v = if own {
                        trans += 1;
                        traces += 2;
                        check_lum::<T>(rgb, dec_r, yrow, &mut c, &mut best, sub_r)
                    } else {
                        T::lum_u8(rgb[0], rgb[1], rgb[2]).to64()
                    };
                    cur[g << 8 | b] = v;
                    if !own {
                        continue;
                    }
                    states += 1;
                    if rgb != [0, 0, 0] && rgb != [255, 255, 255] {
                        nontriv += 1;
                    }
                    if b > 0 {
                        traces += 1;
                        exact_dec += check_lum_monotone::<T>([r as u8, g as u8, b as u8 - 1], rgb, cur[g << 8 | (b - 1)], v, 2, &mut c) as u64;
                    }
                    if g > 0 {
                        traces += 1;
                        exact_dec += check_lum_monotone::<T>([r as u8, g as u8 - 1, b as u8], rgb, cur[(g - 1) << 8 | b], v, 1, &mut c) as u64;
                    }
                    if r > 0 {
                        traces += 1;
                        exact_dec += check_lum_monotone::<T>([r as u8 - 1, g as u8, b as u8], rgb, prev[g << 8 | b], v, 0, &mut c) as u64;
                    }
                    if (r * 65536 + g * 256 + b) % 4099 == 0 {
                        c.outcome(v.to_bits());
                    }
                    if (r * 65536 + g * 256 + b) % 65521 == 0 {
                        c.sample(pv::splitmix(v.to_bits() ^ ctx.seed), || json!({"sub": sub_r, "rgb": rgb, "relative_luminance": v}));
                    }
                }
            }
            prev = cur;
        }
        c.add(sub_r, states, trans, traces, nontriv);
        (c, exact_dec)
    });
    let mut dec_total = 0u64;
    for (c, d) in res {
        total.merge(c);
        dec_total += d;
    }
    total.note(&format!("wcag-luminance/{}", T::NAME), json!({"adjacent pairs (one channel + 1) whose luminance strictly decreases (any amount)": dec_total}));
    total.exhaustive(&sub, true, "relative_luminance of Srgb::<u8>::new(r, g, b).into_format::<T>() for all 2^24 (r, g, b): in [0, 1], inside the reference interval, and non-decreasing along every one of the 3 × 65536 single-channel chains of 256 colours");
}

/// DESIGN §3.2: numeric literals in comparison position in the anchored sources.
fn scan_literals(c: &mut Collector) {
    let repo = std::env::var("VERIF_REPO").unwrap_or_else(|_| "/repo".into());
    let known = ["180.0", "360.0", "4.5", "3.0", "7.0"];
    let mut found = vec![];
    for f in ["palette/src/color_difference.rs", "palette/src/relative_contrast.rs"] {
        let Ok(txt) = std::fs::read_to_string(format!("{repo}/{f}")) else {
            c.note("literal-scan", json!(format!("{repo}/{f} not readable: scan skipped")));
            return;
        };
        for line in txt.lines() {
            let code = line.split("//").next().unwrap_or("");
            // literals that are the argument of a comparison: `.lt_eq(&T::from_f64(180.0))`
            for op in [".lt(&", ".lt_eq(&", ".gt(&", ".gt_eq(&", ".eq(&"] {
                let mut rest = code;
                while let Some(p) = rest.find(op) {
                    let tail = &rest[p + op.len()..];
                    rest = tail;
                    let arg: String = tail.chars().take_while(|ch| *ch != ')').collect();
                    let Some(q) = arg.find("from_f64(") else { continue };
                    let lit = arg[q + 9..].trim().to_string();
                    if !known.contains(&lit.as_str()) {
                        c.warn(format!("{f}: literal {lit} in a comparison is not in C09's threshold list {known:?}"));
                    }
                    found.push(format!("{f}:{lit}"));
                }
            }
        }
    }
    found.sort();
    found.dedup();
    c.note("literal-scan", json!({"comparison literals": found, "known": known, "covered by": "hue lattice at 0/180/360 ± {1e-2, 1e-5}° and exact axes; WCAG predicates are compared with their threshold on every returned ratio (grey pairs put ratios on both sides of 3, 4.5 and 7)"}));
}

// ---- replay -----------------------------------------------------------------------------------

fn parse_bits(v: &Value) -> Vec<u64> {
    v.as_array().map(|a| a.iter().map(|x| u64::from_str_radix(x.as_str().unwrap_or("0").trim_start_matches("0x"), 16).unwrap_or(0)).collect()).unwrap_or_default()
}

fn replay_t<T: Sc>(case: &Value, c: &mut Collector) {
    let bad = |why: &str| -> ! {
        eprintln!("replay: malformed case ({why})");
        std::process::exit(3)
    };
    let yrow = oracle::y_row_from_primaries();
    let mut l = Local::default();
    let bits = parse_bits(&case["input"]);
    let col = |o: usize| -> [T; 3] { [T::from_bits64(bits[o]), T::from_bits64(bits[o + 1]), T::from_bits64(bits[o + 2])] };
    let sub = case["sub"].as_str().unwrap_or("");
    match sub {
        "pair" => {
            if bits.len() != 6 {
                bad("6 input words expected")
            }
            let space = Space::from_name(case["space"].as_str().unwrap_or("")).unwrap_or_else(|| bad("space"));
            let m = Meas::from_name(case["measure"].as_str().unwrap_or("")).unwrap_or_else(|| bad("measure"));
            let group = if m.is_ciede() { "ciede2000" } else { "closed-form" };
            let (x, y) = (col(0), col(3));
            check_pair::<T>(group, space, m, x, y, None, c, &mut l, 0);
            let o = pv::catch(|| (T::dist(space, m, x, y), T::dist(space, m, y, x)));
            println!("{}<{}> {}: x = {:?}, y = {:?}", space.name(), T::NAME, m.name(), to64(x), to64(y));
            println!("  observed d(x,y), d(y,x) = {:?}", o.map(|(a, b)| (a.map(|v| v.to64()), b.map(|v| v.to64()))));
            if m.is_ciede() {
                let r = oracle::ciede2000(rect64(space, x), rect64(space, y));
                println!("  Sharma reference ΔE00 = {} (h1' = {}, h2' = {}, C1' = {}, C2' = {}, case {}, | |Δh'| − 180 | = {})", r.de, r.h1, r.h2, r.c1p, r.c2p, r.case.name(), r.dist180);
            } else {
                let e = expect_closed::<T>(space, m, x, y);
                println!("  closed form = {} ± {}", e.lo, e.tol);
            }
        }
        "polar-vs-rect" => {
            if bits.len() != 6 {
                bad("6 input words expected")
            }
            let space = Space::from_name(case["space"].as_str().unwrap_or("")).unwrap_or_else(|| bad("space"));
            let m = Meas::from_name(case["measure"].as_str().unwrap_or("")).unwrap_or_else(|| bad("measure"));
            let (a, b) = (col(0), col(3));
            let (dir, p, q, pr, qr) = if case["direction"].as_str() == Some("from-rect") { ("from-rect", T::to_polar(space, a), T::to_polar(space, b), a, b) } else { ("from-polar", a, b, T::to_rect(space, a), T::to_rect(space, b)) };
            check_polar_rect::<T>(space, Some(m), dir, p, q, pr, qr, c, &mut l, 0);
            println!("{}<{}> {} ({dir}): polar {:?} {:?}; rect {:?} {:?}", space.name(), T::NAME, m.name(), to64(p), to64(q), to64(pr), to64(qr));
            println!("  observed polar = {:?}, rect = {:?}", pv::catch(|| T::dist(space, m, p, q).map(|v| v.to64())), pv::catch(|| T::dist(space.rect(), m, pr, qr).map(|v| v.to64())));
        }
        "wcag" => {
            if bits.len() != 6 {
                bad("6 input words expected")
            }
            let (x, y) = (col(0), col(3));
            let ty = case["type"].as_str().unwrap_or("");
            if case["trait"].as_str() == Some("RelativeContrast") {
                let ty = OType::from_name(ty).unwrap_or_else(|| bad("type"));
                check_wcag_old::<T>("replay", ty, x, y, &yrow, c, &mut l, 0);
                println!("RelativeContrast {}<{}>: x = {:?}, y = {:?} -> {:?}", ty.name(), T::NAME, to64(x), to64(y), pv::catch(|| T::wcag_old(ty, x, y)).map(|o| (o.r[0].to64(), o.r[1].to64(), o.p)));
            } else {
                let ty = WType::from_name(ty).unwrap_or_else(|| bad("type"));
                check_wcag::<T>("replay", ty, x, y, &yrow, c, &mut l, 0);
                println!("Wcag21RelativeContrast {}<{}>: x = {:?}, y = {:?} -> {:?}", ty.name(), T::NAME, to64(x), to64(y), pv::catch(|| T::wcag(ty, x, y)).map(|o| (o.lum.map(|l| [l[0].to64(), l[1].to64()]), o.r[0].to64(), o.r[1].to64(), o.p)));
                println!("  reference luminance intervals: {:?} {:?}", lum_ref(ty, to64(x), &yrow), lum_ref(ty, to64(y), &yrow));
            }
        }
        "wcag-luminance" => {
            let rgb: Vec<u8> = case["rgb"].as_array().map(|a| a.iter().map(|v| v.as_u64().unwrap_or(0) as u8).collect()).unwrap_or_default();
            if rgb.len() != 3 {
                bad("rgb")
            }
            let dec = decode_table::<T>();
            let rgb = [rgb[0], rgb[1], rgb[2]];
            let mut best = 0.0;
            let v = check_lum::<T>(rgb, &dec, &yrow, c, &mut best, "replay");
            println!("relative_luminance(Srgb<u8>{rgb:?} as {}) = {v}", T::NAME);
            if case["kind"].as_str() == Some("monotone") {
                let ch = case["channel"].as_u64().unwrap_or(0).min(2) as usize;
                let mut up = rgb;
                if up[ch] == 255 {
                    bad("channel already at 255")
                }
                up[ch] += 1;
                let vu = check_lum::<T>(up, &dec, &yrow, c, &mut best, "replay");
                check_lum_monotone::<T>(rgb, up, v, vu, ch, c);
                println!("relative_luminance(Srgb<u8>{up:?} as {}) = {vu}", T::NAME);
            }
        }
        _ => bad("sub"),
    }
}

fn main() {
    pv::main_guard(real_main)
}

fn real_main() -> i32 {
    let (ctx, mode) = Ctx::from_args("C09");
    // machinery: the references must reproduce published / hand-computed values
    if let Err(e) = oracle::selftest() {
        eprintln!("MACHINERY-FAILURE: reference self-test: {e}");
        return 3;
    }
    let repo = std::env::var("VERIF_REPO").unwrap_or_else(|_| "/repo".into());
    let csv_path = format!("{repo}/integration_tests/tests/convert/data_ciede_2000.csv");
    let validated = match std::fs::read_to_string(&csv_path).map_err(|e| format!("{csv_path}: {e}")).and_then(|t| oracle::validate_ciede2000(&t)) {
        Ok(v) => v,
        Err(e) => {
            eprintln!("MACHINERY-FAILURE: CIEDE2000 reference does not reproduce the published pairs: {e}");
            return 3;
        }
    };
    if let Mode::Replay(rep) = mode {
        let mut c = Collector::new();
        let case = &rep["case"];
        if case["float"].as_str() == Some("f64") {
            replay_t::<f64>(case, &mut c);
        } else {
            replay_t::<f32>(case, &mut c);
        }
        return ctx.finish_replay(c);
    }
    let yrow = oracle::y_row_from_primaries();
    let mut total = Collector::new();
    run_pairs::<f32>(&ctx, &mut total);
    run_pairs::<f64>(&ctx, &mut total);
    run_polar_rect::<f32>(&ctx, &mut total);
    run_polar_rect::<f64>(&ctx, &mut total);
    run_luminance::<f32>(&ctx, &mut total, &yrow);
    run_luminance::<f64>(&ctx, &mut total, &yrow);
    run_wcag_pairs::<f32>(&ctx, &mut total, &yrow);
    run_wcag_pairs::<f64>(&ctx, &mut total, &yrow);
    scan_literals(&mut total);
    total.note("reference-validation", json!({"ciede2000": format!("all {} pairs of {csv_path} reproduced in both orders, worst |reference − published| = {:.2e} (published to 4 decimals)", validated.0, validated.1), "luminance_row_from_primaries": yrow}));
    total.note("tolerances", json!(TOL_NOTE));
    ctx.finish(
        total,
        "model_checking",
        "a state = one ordered pair of colours (bit patterns) of one colour type and float; transitions = calls of the difference/contrast methods on it; traces = observed values compared with the f64 reference (value), with the swapped call (symmetry) and with the sign/zero laws; non-trivial = the two colours differ (CIEDE2000: and both have non-zero chroma, so the hue case analysis is exercised; luminance sweep: neither black nor white)",
        &[
            "CIEDE2000 is compared with Sharma/Wu/Dalal (2005) evaluated in f64 on the T-rounded inputs; where that differs by more than tol the hull of the reference over the ±4-ulp box around the inputs is accepted (DESIGN §3.4)",
            "pairs with | |Δh'| − 180° | below 2e-3° (f32) / 1e-9° (f64) are excluded from the value comparison, as the statement allows (the formula jumps there); their number is recorded",
            "ImprovedCiede2000 and the deprecated ColorDifference are compared with their definition through Ciede2000::difference (the value that call returned), ImprovedDeltaE with a·ΔE^b of Huang et al. (1.26, 0.55 for CIELAB; 1.41, 0.63 for CAM16-UCS; 1.43, 0.70 for CIEDE2000) as the doc comments state",
            "WCAG relative luminance: palette documents it as clamped LinLuma (Y of linear sRGB, IEC 61966-2-1 decoding); the reference accepts the interval spanned by the 4-digit coefficients printed in WCAG 2.1 (0.2126, 0.7152, 0.0722) and the row derived from the sRGB primaries, and by the knees 0.03928 / 0.04045 (no 8-bit level lies between them)",
            "the deprecated RelativeContrast on colour types other than Rgb/Luma is judged on symmetry, range and predicate agreement only (its luminance goes through conversions that are the subject of C01/C02)",
        ],
    )
}
