fn main() {
    eprintln!("C11: check not built yet");
    std::process::exit(3);
}
