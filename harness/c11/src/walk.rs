//! Walk of the f32 space |x| <= 2^20 (complete when stride == 1), by increasing magnitude,
//! alternating sign blocks, in parallel; inputs are handed to the hue type as T (f32, or the
//! f32 value embedded in f64).
use crate::ops::HueOps;
use crate::oracle::*;
use crate::point::*;
use pv::fl::{f32_from_ord, f32_to_ord, Fl};
use pv::{json, Collector, Ctx};

pub const MID_POS: u32 = 0x8000_0000; // ord of +0.0
pub const MID_NEG: u32 = 0x7FFF_FFFF; // ord of -0.0
pub const BLOCK: u64 = 1 << 20;

pub fn per_side() -> u64 {
    (f32_to_ord(LIM as f32) - MID_POS) as u64 + 1
}
pub fn n_blocks() -> u64 {
    (per_side() + BLOCK - 1) / BLOCK
}

#[inline(always)]
fn ord_of(neg: bool, q: u64) -> u32 {
    if neg {
        MID_NEG - q as u32
    } else {
        MID_POS + q as u32
    }
}
#[inline(always)]
fn val<H: HueOps>(neg: bool, q: u64) -> H::T {
    <H::T as Fl>::from64(f32_from_ord(ord_of(neg, q)) as f64)
}

/// number of 255→0 wraps an exact `round(x·256/360) mod 256` makes over [−2^20, 2^20]:
/// one per k with −2^20 < 360·k − 360/512 <= 2^20.
pub fn expected_wraps() -> u64 {
    (-3000i64..=3000).filter(|k| {
        let b = 360.0 * *k as f64 - 360.0 / 512.0;
        b > -LIM && b <= LIM
    }).count() as u64
}

#[cold]
#[inline(never)]
fn v_chain<H: HueOps>(c: &mut Collector, l: &mut Loc, lo: H::T, hi: H::T, clo: u8, chi: u8) {
    let key = vkey("u8-monotone-chain", "into_format<u8>", class_u8(hi));
    if l.vc_hit(key, chi.wrapping_sub(clo) as f64) {
        return;
    }
    let sig = format!("C11/u8-monotone-chain/{}::into_format<u8>/{}", H::name(), class_u8(hi));
    l.vc_register_pub(key, &sig, chi.wrapping_sub(clo) as f64);
    c.violation(&sig, chi.wrapping_sub(clo) as f64, || {
        json!({"sub": "u8-chain", "hue": H::HUE, "ty": <H::T as Fl>::NAME, "input": [hx(lo), hx(hi)], "values": [lo.to64(), hi.to64()],
               "observed": [clo, chi], "expected": "code(next float) − code(float) ∈ {0, 1} (mod 256)"})
    });
}

/// chain condition on one numerically adjacent pair lo < hi; returns true if it is a 255→0 wrap
#[inline(always)]
pub fn chain_pair<H: HueOps>(c: &mut Collector, l: &mut Loc, lo: H::T, hi: H::T, clo: u8, chi: u8) -> bool {
    let step = chi.wrapping_sub(clo);
    if step > 1 {
        v_chain::<H>(c, l, lo, hi, clo, chi);
    }
    step == 1 && chi == 0
}

/// one block: magnitude ranks [j·BLOCK, (j+1)·BLOCK) of one sign
pub fn walk_block<H: HueOps>(i: usize, stride: u64, phase: u64, fl: Flags, seed: u64, sub: &str) -> (Collector, Loc) {
    let neg = i % 2 == 1;
    let j = (i / 2) as u64;
    let (q0, q1) = (j * BLOCK, ((j + 1) * BLOCK).min(per_side()));
    let mut c = Collector::new();
    let mut l = Loc::default();
    let res = pv::catch(|| {
        let chain = stride == 1 && fl.u8c;
        // predecessor in magnitude order (for +0.0 that is −0.0; −0.0 has none on its side)
        let mut prev: Option<(H::T, u8)> = None;
        if chain {
            if q0 > 0 {
                let p = val::<H>(neg, q0 - 1);
                prev = Some((p, H::to_u8(p)));
            } else if !neg {
                let p = <H::T as Fl>::from64(-0.0);
                prev = Some((p, H::to_u8(p)));
            }
        }
        let mut q = q0 + ((phase + stride - q0 % stride) % stride);
        while q < q1 {
            let x = val::<H>(neg, q);
            let code = check_point::<H>(&mut c, x, fl, &mut l);
            if chain {
                if let Some((px, pc)) = prev {
                    let wrap = if neg { chain_pair::<H>(&mut c, &mut l, x, px, code, pc) } else { chain_pair::<H>(&mut c, &mut l, px, x, pc, code) };
                    l.wraps += wrap as u64;
                    l.preds += 1;
                }
                prev = Some((x, code));
            }
            if q % 4099 == 0 {
                c.outcome(pv::fnv(&[H::deg(x).bits64().to_le_bytes(), H::pos(x).bits64().to_le_bytes(), (code as u64).to_le_bytes()].concat()));
            }
            q += stride;
        }
    });
    if let Err(msg) = res {
        c.violation(&format!("C11/panic/{}/walk", H::name()), 1.0, || {
            json!({"sub": "walk-block", "hue": H::HUE, "ty": <H::T as Fl>::NAME, "input": {"block": i, "stride": stride, "phase": phase}, "observed": {"panic": msg}, "expected": "no panic"})
        });
    }
    l.flush_viol(&mut c);
    // one sample per block, chosen by the seed
    let qs = q0 + pv::splitmix(seed ^ i as u64) % (q1 - q0);
    let x = val::<H>(neg, qs);
    c.sample(pv::splitmix(seed ^ (i as u64) << 8 ^ pv::fnv(sub.as_bytes())), || {
        json!({"sub": sub, "input": hx(x), "value": x.to64(), "into_degrees": H::deg(x).to64(), "into_positive_degrees": H::pos(x).to64(), "u8": H::to_u8(x)})
    });
    (c, l)
}

pub fn walk<H: HueOps>(ctx: &Ctx, total: &mut Collector, stride: u64, phase: u64, fl: Flags) {
    let sub = format!("walk/{}", H::name());
    if !ctx.wants(&sub) {
        return;
    }
    let nb = n_blocks();
    let outs = pv::par::map_chunks((2 * nb) as usize, |i| walk_block::<H>(i, stride, phase % stride, fl, ctx.seed, &sub));
    let mut c = Collector::new();
    let mut l = Loc::default();
    for (cc, ll) in outs {
        c.merge(cc);
        l.merge(&ll);
    }
    l.flush::<H>(&mut c, &sub);
    if fl.u8c {
        if l.seen_count() != 256 {
            c.violation(&format!("C11/u8-onto/{}::into_format<u8>", H::name()), (256 - l.seen_count()) as f64, || {
                json!({"sub": "walk", "hue": H::HUE, "ty": <H::T as Fl>::NAME, "input": {"stride": stride, "phase": phase}, "observed": {"distinct_codes": l.seen_count()}, "expected": 256})
            });
        }
        if stride == 1 {
            let want = expected_wraps();
            if l.wraps != want {
                c.violation(&format!("C11/u8-one-wrap-per-turn/{}::into_format<u8>", H::name()), (l.wraps as f64 - want as f64).abs(), || {
                    json!({"sub": "walk", "hue": H::HUE, "ty": <H::T as Fl>::NAME, "input": {"stride": stride, "phase": phase}, "observed": {"wraps_255_to_0": l.wraps}, "expected": want})
                });
            }
            c.note(&format!("{sub}/wraps"), json!(l.wraps));
        }
    }
    c.note(&format!("{sub}/pairs"), json!({"equal_whole_turn_pairs_checked": l.eq_applied, "shift_not_exact_skipped": l.eq_skipped, "unequal_pairs_checked": l.ne_applied, "within_rounding_skipped": l.ne_skipped}));
    let what = if stride == 1 {
        format!("every f32 bit pattern with |x| <= 2^20 (both signs, both zeros; {} inputs) as a successor chain", 2 * per_side())
    } else {
        format!("every {stride}th f32 bit pattern (phase {}) with |x| <= 2^20, both signs ({} inputs); the complete chain is walked for RgbHue<f32> in quick and for all five f32 hue types in thorough", phase % stride, l.n)
    };
    let what = format!("{what}{}; checks: normal forms (range, congruence), raw accessor, {}{}{}", if <H::T as Fl>::NAME == "f64" { ", embedded in f64" } else { "" },
        if fl.radians { "radian accessors, " } else { "" }, if fl.u8c { "8-bit code (nearest, chain monotone, onto, one wrap per turn), " } else { "" },
        match fl.pairs { 0 => "", 1 => "x==x, x==x±360 in both directions when the shift is exact, x != the partner 9 rounding errors further on the adjacent turn", _ => "==, != and PartialEq<T> reflexive, x==x±360 (all forms, both directions) when exact, inequality (all forms) with two partners beyond 4 rounding errors" });
    c.exhaustive(&sub, true, &what);
    total.merge(c);
}
