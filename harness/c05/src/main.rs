//! C05 — transfer functions and their lookup tables: faithful, monotone, total.
//! Complete walk of all 2^32 f32 bit patterns through every integer fast path, all codes
//! through the decoders, dense + knee-straddling walks of the generic float curves.
use palette::encoding::{self, FromLinear, IntoLinear};
use palette::{LinSrgb, Srgb};
use pv::fl::{f32_from_ord, f32_to_ord, hex32, hex64};
use pv::refmodel::tf::Tf;
use pv::{json, Collector, Ctx, Mode, Tier, Value};

const ERR_BOUND: f64 = 0.6;

#[derive(Clone, Copy)]
struct Enc {
    name: &'static str,
    tf: Tf,
    max: u32,
    f32_enc: fn(f32) -> u32,
    f64_enc: fn(f64) -> u32,
    f32_dec: fn(u32) -> f32,
    f64_dec: fn(u32) -> f64,
}

macro_rules! enc8 {
    ($name:literal, $t:ty, $tf:expr) => {
        Enc {
            name: $name,
            tf: $tf,
            max: 255,
            f32_enc: |x| <$t as FromLinear<f32, u8>>::from_linear(x) as u32,
            f64_enc: |x| <$t as FromLinear<f64, u8>>::from_linear(x) as u32,
            f32_dec: |c| <$t as IntoLinear<f32, u8>>::into_linear(c as u8),
            f64_dec: |c| <$t as IntoLinear<f64, u8>>::into_linear(c as u8),
        }
    };
}

fn encoders() -> Vec<Enc> {
    vec![
        enc8!("Srgb", encoding::Srgb, Tf::Srgb),
        enc8!("RecOetf", encoding::RecOetf, Tf::RecOetf),
        enc8!("AdobeRgb", encoding::AdobeRgb, Tf::Adobe),
        enc8!("P3Gamma", encoding::P3Gamma, Tf::P3Gamma),
        Enc {
            name: "ProPhotoRgb",
            tf: Tf::ProPhoto,
            max: 65535,
            f32_enc: |x| <encoding::ProPhotoRgb as FromLinear<f32, u16>>::from_linear(x) as u32,
            f64_enc: |x| <encoding::ProPhotoRgb as FromLinear<f64, u16>>::from_linear(x) as u32,
            f32_dec: |c| <encoding::ProPhotoRgb as IntoLinear<f32, u16>>::into_linear(c as u16),
            f64_dec: |c| <encoding::ProPhotoRgb as IntoLinear<f64, u16>>::into_linear(c as u16),
        },
    ]
}

fn enc_by_name(n: &str) -> Enc {
    encoders().into_iter().find(|e| e.name == n).unwrap_or_else(|| {
        eprintln!("unknown encoder {n}");
        std::process::exit(3)
    })
}

fn class_of(x: f64) -> &'static str {
    if x.is_nan() {
        "NaN"
    } else if x == f64::NEG_INFINITY {
        "-inf"
    } else if x == f64::INFINITY {
        "+inf"
    } else if x < 0.0 {
        "x<0"
    } else if x == 0.0 {
        "x=0"
    } else if x < 1.0 {
        "0<x<1"
    } else if x == 1.0 {
        "x=1"
    } else {
        "x>1"
    }
}

/// One run of equal output codes inside a walk: [first ord, code].
type Runs = Vec<(u32, u32)>;

struct ChunkOut {
    runs: Runs,
    nan_codes: Vec<u32>,
    panics: Vec<(u32, String)>,
    nonmono: Vec<(u32, u32, u32)>, // (ord of x, code(prev), code(x)) with code(x) < code(prev)
    n: u64,
    skipped_after_panics: u64,
}

const CHUNK_BITS: u32 = 20;

/// Walk ords [start, start + 2^CHUNK_BITS) through `f` (input given as f32, widened by `f`).
fn walk_chunk(f: &(dyn Fn(f32) -> u32 + Sync), chunk: usize) -> ChunkOut {
    let start = (chunk as u32) << CHUNK_BITS;
    let len = 1u32 << CHUNK_BITS;
    let mut out = ChunkOut { runs: vec![], nan_codes: vec![], panics: vec![], nonmono: vec![], n: 0, skipped_after_panics: 0 };
    let fast = pv::catch(|| {
        let mut runs: Runs = vec![];
        let mut nan_codes: Vec<u32> = vec![];
        let mut nonmono = vec![];
        let mut prev: Option<u32> = None;
        for k in 0..len {
            let ord = start + k;
            let x = f32_from_ord(ord);
            let c = f(x);
            if x.is_nan() {
                if !nan_codes.contains(&c) {
                    nan_codes.push(c);
                }
                continue;
            }
            match prev {
                Some(p) if p == c => {}
                Some(p) => {
                    if c < p && nonmono.len() < 8 {
                        nonmono.push((ord, p, c));
                    }
                    runs.push((ord, c));
                }
                None => runs.push((ord, c)),
            }
            prev = Some(c);
        }
        (runs, nan_codes, nonmono)
    });
    match fast {
        Ok((runs, nan_codes, nonmono)) => {
            out.runs = runs;
            out.nan_codes = nan_codes;
            out.nonmono = nonmono;
            out.n = len as u64;
        }
        Err(_) => {
            // slow path: element-wise, locate the panicking inputs
            let mut prev: Option<u32> = None;
            for k in 0..len {
                let ord = start + k;
                let x = f32_from_ord(ord);
                if out.panics.len() >= 16 {
                    out.skipped_after_panics = (len - k) as u64;
                    break;
                }
                match pv::catch(|| f(x)) {
                    Err(msg) => out.panics.push((ord, msg)),
                    Ok(c) => {
                        out.n += 1;
                        if x.is_nan() {
                            if !out.nan_codes.contains(&c) {
                                out.nan_codes.push(c);
                            }
                            continue;
                        }
                        match prev {
                            Some(p) if p == c => {}
                            Some(p) => {
                                if c < p && out.nonmono.len() < 8 {
                                    out.nonmono.push((ord, p, c));
                                }
                                out.runs.push((ord, c));
                            }
                            None => out.runs.push((ord, c)),
                        }
                        prev = Some(c);
                    }
                }
            }
        }
    }
    out
}

fn case(sub: &str, enc: &str, ty: &str, input: Value, observed: Value, expected: Value) -> Value {
    json!({"sub": sub, "enc": enc, "ty": ty, "input": input, "observed": observed, "expected": expected})
}

/// Evaluate the per-input oracle for one encoder input (used by the walk post-processing for
/// the failing case and by --replay). Returns violations into `c`.
fn check_enc_point(c: &mut Collector, e: &Enc, ty: &str, xbits: u64) {
    let (x64, res) = if ty == "f32" {
        let x = f32::from_bits(xbits as u32);
        (x as f64, pv::catch(|| (e.f32_enc)(x)))
    } else {
        let x = f64::from_bits(xbits);
        (x, pv::catch(|| (e.f64_enc)(x)))
    };
    let inp = if ty == "f32" { json!(hex32(f32::from_bits(xbits as u32))) } else { json!(hex64(f64::from_bits(xbits))) };
    let cls = class_of(x64);
    match res {
        Err(msg) => c.violation(&format!("C05/lut-index-in-range/{}/{}/{}", e.name, ty, cls), 1.0, || {
            case("enc-point", e.name, ty, inp.clone(), json!({"panic": msg}), json!("no panic / in-bounds table index"))
        }),
        Ok(code) => {
            if x64.is_nan() {
                return;
            }
            let exact = (e.tf.encode(x64.clamp(0.0, 1.0)) * e.max as f64).clamp(0.0, e.max as f64);
            let err = (code as f64 - exact).abs();
            if x64 <= 0.0 && code != 0 {
                c.violation(&format!("C05/saturate-low/{}/{}/{}", e.name, ty, cls), code as f64, || {
                    case("enc-point", e.name, ty, inp.clone(), json!(code), json!(0))
                });
            } else if x64 >= 1.0 && code != e.max {
                c.violation(&format!("C05/saturate-high/{}/{}/{}", e.name, ty, cls), (e.max - code) as f64, || {
                    case("enc-point", e.name, ty, inp.clone(), json!(code), json!(e.max))
                });
            } else if err >= ERR_BOUND {
                c.violation(&format!("C05/accuracy-0.6/{}/{}/{}", e.name, ty, cls), err, || {
                    case("enc-point", e.name, ty, inp.clone(), json!(code), json!({"exact_scaled": exact, "bound": ERR_BOUND}))
                });
            }
            c.ratio(&format!("enc/{}/{}", e.name, ty), err / ERR_BOUND, || json!({"input": inp, "code": code, "exact_scaled": exact}));
        }
    }
}

/// Complete walk of all f32 patterns (as f32, or widened to f64 with `as f64`).
fn walk_encoder(ctx: &Ctx, total: &mut Collector, e: &Enc, ty: &'static str) {
    let sub = format!("enc/{}/{}", e.name, ty);
    if !ctx.wants(&sub) {
        return;
    }
    let ee = *e;
    let f: Box<dyn Fn(f32) -> u32 + Sync> = if ty == "f32" { Box::new(move |x| (ee.f32_enc)(x)) } else { Box::new(move |x| (ee.f64_enc)(x as f64)) };
    let nchunks = 1usize << (32 - CHUNK_BITS);
    let outs = pv::par::map_chunks(nchunks, |i| walk_chunk(&*f, i));
    let mut c = Collector::new();
    // merge runs in order
    let mut runs: Runs = vec![];
    let mut n = 0u64;
    let mut nan_codes: Vec<u32> = vec![];
    for o in &outs {
        n += o.n;
        for &(ord, code) in &o.runs {
            match runs.last() {
                Some(&(_, pc)) if pc == code => {}
                Some(&(_, pc)) => {
                    if code < pc {
                        let x = f32_from_ord(ord);
                        c.violation(&format!("C05/monotone/{}/{}/{}", e.name, ty, class_of(x as f64)), (pc - code) as f64, || {
                            case("enc-pair", e.name, ty, json!({"x_prev": hex32(f32_from_ord(ord - 1)), "x": hex32(x)}), json!({"code_prev": pc, "code": code}), json!("code(x) >= code(x_prev)"))
                        });
                    }
                    runs.push((ord, code));
                }
                None => runs.push((ord, code)),
            }
        }
        for &(ord, pc, code) in &o.nonmono {
            let x = f32_from_ord(ord);
            c.violation(&format!("C05/monotone/{}/{}/{}", e.name, ty, class_of(x as f64)), (pc - code) as f64, || {
                case("enc-pair", e.name, ty, json!({"x_prev": hex32(f32_from_ord(ord - 1)), "x": hex32(x)}), json!({"code_prev": pc, "code": code}), json!("code(x) >= code(x_prev)"))
            });
        }
        for &(ord, ref msg) in &o.panics {
            let x = f32_from_ord(ord);
            c.violation(&format!("C05/lut-index-in-range/{}/{}/{}", e.name, ty, class_of(x as f64)), 1.0, || {
                case("enc-point", e.name, ty, if ty == "f32" { json!(hex32(x)) } else { json!(hex64(x as f64)) }, json!({"panic": msg}), json!("no panic / in-bounds table index"))
            });
        }
        if o.skipped_after_panics > 0 {
            c.cap_hit(format!("{sub}: {} inputs skipped after 16 panics in one chunk", o.skipped_after_panics));
        }
        for &nc in &o.nan_codes {
            if !nan_codes.contains(&nc) {
                nan_codes.push(nc);
            }
        }
    }
    // run-boundary oracle: saturation + accuracy at both ends of every run
    let mut traces = 0u64;
    let mut codes_seen = std::collections::BTreeSet::new();
    for (i, &(ord, code)) in runs.iter().enumerate() {
        codes_seen.insert(code);
        let last_ord = if i + 1 < runs.len() { runs[i + 1].0 - 1 } else { f32_to_ord(f32::INFINITY) };
        for o in [ord, last_ord] {
            let x = f32_from_ord(o);
            let bits = if ty == "f32" { x.to_bits() as u64 } else { (x as f64).to_bits() };
            check_enc_point(&mut c, e, ty, bits);
            traces += 1;
        }
        // the run must not straddle a saturation boundary with the wrong code: covered by
        // checking both ends, plus explicitly 0, -0, 1 and the infinities below.
        c.outcome(code as u64);
    }
    for x in [0.0f32, -0.0, 1.0, f32::INFINITY, f32::NEG_INFINITY, f32::MIN, f32::MAX, f32::MIN_POSITIVE, -f32::MIN_POSITIVE, 1.0f32.next_down(), 1.0f32.next_up()] {
        let bits = if ty == "f32" { x.to_bits() as u64 } else { (x as f64).to_bits() };
        check_enc_point(&mut c, e, ty, bits);
        traces += 1;
    }
    // every code must be produced (onto), in order
    if codes_seen.len() as u32 != e.max + 1 {
        c.violation(&format!("C05/onto/{}/{}", e.name, ty), (e.max + 1 - codes_seen.len() as u32) as f64, || {
            case("enc-onto", e.name, ty, json!("complete f32 walk"), json!({"distinct_codes": codes_seen.len()}), json!(e.max + 1))
        });
    }
    let nontrivial = {
        // distinct inputs that take the table path: min_float < x < 1
        let lo = runs.iter().find(|r| r.1 > 0).map(|r| r.0).unwrap_or(0);
        (f32_to_ord(1.0) as u64).saturating_sub(lo as u64)
    };
    c.add(&sub, n, n, traces, nontrivial);
    c.exhaustive(&sub, true, "all 2^32 f32 bit patterns in numeric order");
    c.note(&format!("{sub}/runs"), json!(runs.len()));
    c.note(&format!("{sub}/nan_codes"), json!(nan_codes));
    for k in 0..4u64 {
        let idx = (pv::splitmix(ctx.seed ^ k ^ pv::fnv(sub.as_bytes())) % runs.len() as u64) as usize;
        let (ord, code) = runs[idx];
        c.sample(pv::splitmix(ord as u64), || json!({"sub": sub, "run_first_input": hex32(f32_from_ord(ord)), "value": f32_from_ord(ord), "code": code}));
    }
    total.merge(c);

    // f64-specific neighbourhoods of every transition: the doubles around the f32 transition
    // point and the rounding tie between the two adjacent f32s.
    if ty == "f64" {
        let sub2 = format!("enc-f64-ties/{}", e.name);
        let runs_ref = &runs;
        let nr = runs.len();
        let per = 256usize;
        let nch = (nr + per - 1) / per;
        let ee = *e;
        let cc = pv::par::run_chunks(nch, |ci, c| {
            let mut st = 0u64;
            for i in (ci * per)..((ci + 1) * per).min(nr) {
                if i == 0 {
                    continue;
                }
                let ord = runs_ref[i].0;
                let hi = f32_from_ord(ord) as f64; // first input of the new run
                let lo = f32_from_ord(ord - 1) as f64; // last input of the old one
                if !(lo.is_finite() && hi.is_finite()) {
                    continue;
                }
                let mid = 0.5 * (lo + hi);
                let mut pts = vec![];
                for base in [lo, mid, hi] {
                    let mut a = base;
                    let mut b = base;
                    pts.push(base);
                    for _ in 0..8 {
                        a = a.next_down();
                        b = b.next_up();
                        pts.push(a);
                        pts.push(b);
                    }
                }
                pts.sort_by(|a, b| a.partial_cmp(b).unwrap());
                let mut prev: Option<u32> = None;
                for &x in &pts {
                    check_enc_point(c, &ee, "f64", x.to_bits());
                    st += 1;
                    if let Ok(code) = pv::catch(|| (ee.f64_enc)(x)) {
                        if let Some(p) = prev {
                            if code < p {
                                c.violation(&format!("C05/monotone/{}/f64-ties/{}", ee.name, class_of(x)), (p - code) as f64, || {
                                    case("enc-point", ee.name, "f64", json!(hex64(x)), json!({"code_prev": p, "code": code}), json!("monotone"))
                                });
                            }
                        }
                        prev = Some(code);
                    }
                }
            }
            c.add(&sub2, st, st, st, st);
        });
        total.merge(cc);
        total.exhaustive(&sub2, true, "51 doubles around every code transition (ends, f32 rounding tie, ±8 ulp64 each)");
    }
}

fn check_decoders(ctx: &Ctx, c: &mut Collector, e: &Enc) {
    let sub = format!("dec/{}", e.name);
    if !ctx.wants(&sub) {
        return;
    }
    let maxf = e.max as f64;
    let mut prev32 = f32::NEG_INFINITY;
    let mut prev64 = f64::NEG_INFINITY;
    let mut n = 0u64;
    let mut f32_exact = 0u64;
    for code in 0..=e.max {
        let want = e.tf.decode(code as f64 / maxf);
        let d32 = (e.f32_dec)(code);
        let d64 = (e.f64_dec)(code);
        // table entries are the closed form rounded to the table's float type (± 1 ulp slack)
        // The published constants of the piecewise curves are mutually inconsistent at the
        // 1e-7 level (that is the knee step the property mentions); palette's tables are
        // generated with the continuity-corrected offset (codegen/src/lut.rs: alpha =
        // 1.0550107… for sRGB), which differs from the IEC closed form by <= 1.5e-8. The
        // curve is therefore only defined to ~1e-7 (the suite's own tolerance).
        // Pure power laws (Adobe RGB, P3 gamma) have no knee and no inconsistent constants: there the
        // curve is exact and the entries must be the closed form rounded to the float type.
        let pure_power = matches!(e.tf, Tf::Adobe | Tf::P3Gamma | Tf::Linear);
        let t32 = if pure_power { 1.5 * pv::fl::ulp32(want as f32) } else { 1e-7 + 1.5 * pv::fl::ulp32(want as f32) };
        let t64 = if pure_power { 1e-13 + 4.0 * f64::EPSILON * want } else { 1e-7 };
        // an f64 decoder must carry f64 precision: entries that are exactly representable in f32 are
        // rare accidents (0, 1, powers of two); an f64 table filled from f32 values has all of them
        if (d64 as f32) as f64 == d64 {
            f32_exact += 1;
        }
        let e32 = (d32 as f64 - want).abs();
        let e64 = (d64 - want).abs();
        c.ratio(&sub, e32 / t32, || json!({"code": code, "f32": d32, "ref": want}));
        c.ratio(&sub, e64 / t64, || json!({"code": code, "f64": d64, "ref": want}));
        if !(e32 <= t32) {
            c.violation(&format!("C05/decode-closed-form/{}/f32", e.name), e32, || case("dec", e.name, "f32", json!(code), json!(d32), json!(want)));
        }
        if !(e64 <= t64) {
            c.violation(&format!("C05/decode-closed-form/{}/f64", e.name), e64, || case("dec", e.name, "f64", json!(code), json!(d64), json!(want)));
        }
        if !(d32 > prev32) {
            c.violation(&format!("C05/decode-strictly-increasing/{}/f32", e.name), 1.0, || case("dec", e.name, "f32", json!(code), json!(d32), json!({"greater_than": prev32})));
        }
        if !(d64 > prev64) {
            c.violation(&format!("C05/decode-strictly-increasing/{}/f64", e.name), 1.0, || case("dec", e.name, "f64", json!(code), json!(d64), json!({"greater_than": prev64})));
        }
        prev32 = d32;
        prev64 = d64;
        // decode-then-encode reproduces every code, via f32 and via f64
        let r32 = pv::catch(|| (e.f32_enc)(d32));
        let r64 = pv::catch(|| (e.f64_enc)(d64));
        if r32 != Ok(code) {
            c.violation(&format!("C05/decode-encode-identity/{}/f32", e.name), 1.0, || case("dec", e.name, "f32", json!(code), json!(format!("{:?}", r32)), json!(code)));
        }
        if r64 != Ok(code) {
            c.violation(&format!("C05/decode-encode-identity/{}/f64", e.name), 1.0, || case("dec", e.name, "f64", json!(code), json!(format!("{:?}", r64)), json!(code)));
        }
        c.outcome(d64.to_bits());
        n += 1;
    }
    // (measured on the unchanged tree: exactly 2 entries, 0 and 1, of every table are f32-exact)
    let allowed = 8u64;
    c.note(&format!("dec/{}/f64-entries-exactly-representable-in-f32", e.name), json!({"count": f32_exact, "allowed": allowed}));
    if f32_exact > allowed {
        c.violation(&format!("C05/decode-f64-precision/{}", e.name), f32_exact as f64, || case("dec", e.name, "f64", json!("all codes"), json!({"f64 entries exactly representable in f32": f32_exact}), json!({"at most": allowed})));
    }
    let z32 = (e.f32_dec)(0);
    let z64 = (e.f64_dec)(0);
    let o32 = (e.f32_dec)(e.max);
    let o64 = (e.f64_dec)(e.max);
    if z32 != 0.0 || z64 != 0.0 || o32 != 1.0 || o64 != 1.0 {
        c.violation(&format!("C05/decode-ends/{}", e.name), 1.0, || case("dec", e.name, "both", json!([0, e.max]), json!([z32, z64, o32, o64]), json!([0, 0, 1, 1])));
    }
    c.add(&sub, n, 4 * n, 4 * n, n);
    c.exhaustive(&sub, true, "every code of the decoder tables, f32 and f64");
    c.sample(pv::splitmix(ctx.seed ^ e.max as u64), || json!({"sub": sub, "code": e.max / 3, "decoded_f64": (e.f64_dec)(e.max / 3)}));
}

// ---------------------------------------------------------------------------------------
// generic float curves (T, T)

#[derive(Clone, Copy)]
struct Curve {
    name: &'static str,
    tf: Tf,
    enc32: fn(f32) -> f32,
    dec32: fn(f32) -> f32,
    enc64: fn(f64) -> f64,
    dec64: fn(f64) -> f64,
}
macro_rules! curve {
    ($name:literal, $t:ty, $tf:expr) => {
        Curve {
            name: $name,
            tf: $tf,
            enc32: |x| <$t as FromLinear<f32, f32>>::from_linear(x),
            dec32: |x| <$t as IntoLinear<f32, f32>>::into_linear(x),
            enc64: |x| <$t as FromLinear<f64, f64>>::from_linear(x),
            dec64: |x| <$t as IntoLinear<f64, f64>>::into_linear(x),
        }
    };
}
fn curves() -> Vec<Curve> {
    vec![
        curve!("Srgb", encoding::Srgb, Tf::Srgb),
        curve!("RecOetf", encoding::RecOetf, Tf::RecOetf),
        curve!("AdobeRgb", encoding::AdobeRgb, Tf::Adobe),
        curve!("P3Gamma", encoding::P3Gamma, Tf::P3Gamma),
        curve!("ProPhotoRgb", encoding::ProPhotoRgb, Tf::ProPhoto),
        curve!("LinearFn", encoding::linear::LinearFn, Tf::Linear),
        // not one of the listed standards: held to its own documentation (encoded = V^2.2), inverse and monotone
        curve!("GammaFn<F2p2>", encoding::gamma::GammaFn<encoding::gamma::F2p2>, Tf::Gamma22),
    ]
}

/// tolerance for a value `r` of the reference curve, in the working float type
fn tol_curve(r: f64, eps: f64) -> f64 {
    // a handful of roundings of an O(1) intermediate (the affine step works on values of
    // magnitude ~1 even where the result is small) + relative part
    32.0 * eps * r.abs().max(0.0625)
}

#[allow(clippy::too_many_arguments)]
fn curve_point(c: &mut Collector, cv: &Curve, ty: &str, dir: &str, x: f64, y: f64, eps: f64, subname: &str) {
    // y = impl(x) already evaluated; compare with the closed form
    let r = if dir == "encode" { cv.tf.encode(x) } else { cv.tf.decode(x) };
    let t = tol_curve(r, eps);
    let err = (y - r).abs();
    c.ratio(subname, err / t, || json!({"curve": cv.name, "ty": ty, "dir": dir, "x": x, "impl": y, "ref": r}));
    if !(err <= t) {
        let region = match (if dir == "encode" { cv.tf.knee_linear() } else { cv.tf.knee_encoded() }) {
            Some(k) if (x - k).abs() < 1e-4 => "knee",
            Some(k) if x < k => "linear-segment",
            Some(_) => "power-segment",
            None => "power",
        };
        c.violation(&format!("C05/curve-closed-form/{}/{}/{}/{}", cv.name, ty, dir, region), err, || {
            json!({"sub": "curve-point", "curve": cv.name, "ty": ty, "dir": dir, "input": if ty == "f32" { hex32(x as f32) } else { hex64(x) }, "observed": y, "expected": r, "tol": t})
        });
    }
}

fn curve_by_name(n: &str) -> Curve {
    curves().into_iter().find(|e| e.name == n).unwrap_or_else(|| {
        eprintln!("unknown curve {n}");
        std::process::exit(3)
    })
}

/// Walk consecutive f32s from ord a to ord b (inclusive) with a stride; adjacent-pair
/// monotonicity is checked on *true* successors when stride == 1, and on the strided pairs
/// otherwise (monotonicity over a coarser chain is implied by, and weaker than, the full one).
fn walk_curve_f32(c: &mut Collector, cv: &Curve, a: u32, b: u32, stride: u32, sub: &str) {
    for dir in ["encode", "decode"] {
        let f = if dir == "encode" { cv.enc32 } else { cv.dec32 };
        let g = if dir == "encode" { cv.dec32 } else { cv.enc32 };
        let knee = if dir == "encode" { cv.tf.knee_linear() } else { cv.tf.knee_encoded() };
        let mut prev: Option<(f32, f32)> = None;
        let mut n = 0u64;
        let mut o = a;
        loop {
            let x = f32_from_ord(o);
            let y = f(x);
            curve_point(c, cv, "f32", dir, x as f64, y as f64, f32::EPSILON as f64, sub);
            // inverse
            let back = g(y);
            let tb = {
                // error of y (tol) amplified by the slope of the inverse at y, + rounding of back
                let slope = if dir == "encode" { inv_slope(cv.tf, y as f64, true) } else { inv_slope(cv.tf, y as f64, false) };
                let knee_slack = match knee { Some(k) if (x as f64 - k).abs() < 1e-5 => 1e-6 * slope, _ => 0.0 };
                tol_curve(y as f64, f32::EPSILON as f64) * slope + tol_curve(x as f64, f32::EPSILON as f64) + knee_slack
            };
            let eb = (back as f64 - x as f64).abs();
            c.ratio(&format!("{sub}/inverse"), eb / tb, || json!({"curve": cv.name, "dir": dir, "x": x, "y": y, "back": back}));
            if !(eb <= tb) {
                c.violation(&format!("C05/curve-inverse/{}/f32/{}", cv.name, dir), eb, || {
                    json!({"sub": "curve-inverse", "curve": cv.name, "ty": "f32", "dir": dir, "input": hex32(x), "observed": back, "expected": x, "tol": tb})
                });
            }
            if let Some((px, py)) = prev {
                if y < py {
                    let step = (py - y) as f64;
                    let at_knee = knee.map(|k| (px as f64) < k + 1e-7 && (x as f64) > k - 1e-7).unwrap_or(false);
                    // allowed: the step (< 1e-6) the published constants leave at the knee
                    if !(at_knee && step < 1e-6) {
                        c.violation(&format!("C05/curve-monotone/{}/f32/{}", cv.name, dir), step, || {
                            json!({"sub": "curve-pair", "curve": cv.name, "ty": "f32", "dir": dir, "input": [hex32(px), hex32(x)], "observed": [py, y], "expected": "f(x) >= f(x_prev)"})
                        });
                    } else {
                        c.note(&format!("knee-step/{}/f32/{}", cv.name, dir), json!(step));
                    }
                }
            }
            prev = Some((x, y));
            n += 1;
            c.outcome(y.to_bits() as u64 ^ ((o as u64) << 32));
            if o >= b {
                break;
            }
            o = o.saturating_add(stride).min(b);
        }
        c.add(sub, n, 2 * n, 2 * n, n);
    }
}

/// |d inverse / dy| at y: slope of decode at encoded y (if enc_dir, y is an encoded value)
fn inv_slope(tf: Tf, y: f64, y_is_encoded: bool) -> f64 {
    let h = 1e-6_f64.max(y.abs() * 1e-6);
    let (a, b) = if y_is_encoded { (tf.decode(y + h), tf.decode((y - h).max(0.0))) } else { (tf.encode(y + h), tf.encode((y - h).max(0.0))) };
    let d = if y - h < 0.0 { y + h } else { 2.0 * h };
    ((a - b) / d).abs().max(1.0)
}

fn walk_curve_f64(c: &mut Collector, cv: &Curve, xs: &[f64], consecutive: bool, sub: &str) {
    for dir in ["encode", "decode"] {
        let f = if dir == "encode" { cv.enc64 } else { cv.dec64 };
        let g = if dir == "encode" { cv.dec64 } else { cv.enc64 };
        let knee = if dir == "encode" { cv.tf.knee_linear() } else { cv.tf.knee_encoded() };
        let mut prev: Option<(f64, f64)> = None;
        let mut n = 0u64;
        for &x in xs {
            let y = f(x);
            curve_point(c, cv, "f64", dir, x, y, 16.0 * f64::EPSILON, sub);
            let back = g(y);
            let slope = inv_slope(cv.tf, y, dir == "encode");
            let knee_slack = match knee { Some(k) if (x - k).abs() < 1e-5 => 1e-6 * slope, _ => 0.0 };
            let tb = tol_curve(y, 16.0 * f64::EPSILON) * slope + tol_curve(x, 16.0 * f64::EPSILON) + knee_slack;
            let eb = (back - x).abs();
            c.ratio(&format!("{sub}/inverse"), eb / tb, || json!({"curve": cv.name, "dir": dir, "x": x, "y": y, "back": back}));
            if !(eb <= tb) {
                c.violation(&format!("C05/curve-inverse/{}/f64/{}", cv.name, dir), eb, || {
                    json!({"sub": "curve-inverse", "curve": cv.name, "ty": "f64", "dir": dir, "input": hex64(x), "observed": back, "expected": x, "tol": tb})
                });
            }
            if let Some((px, py)) = prev {
                if y < py && x > px {
                    let step = py - y;
                    let at_knee = knee.map(|k| px < k + 1e-9 && x > k - 1e-9).unwrap_or(false);
                    if !(at_knee && step < 1e-6) {
                        c.violation(&format!("C05/curve-monotone/{}/f64/{}", cv.name, dir), step, || {
                            json!({"sub": "curve-pair", "curve": cv.name, "ty": "f64", "dir": dir, "input": [hex64(px), hex64(x)], "observed": [py, y], "expected": "f(x) >= f(x_prev)"})
                        });
                    } else {
                        c.note(&format!("knee-step/{}/f64/{}", cv.name, dir), json!(step));
                    }
                }
            }
            let _ = consecutive;
            prev = Some((x, y));
            n += 1;
        }
        c.add(sub, n, 2 * n, 2 * n, n);
    }
}

fn check_curves(ctx: &Ctx, total: &mut Collector) {
    let one = f32_to_ord(1.0);
    let zero = f32_to_ord(0.0);
    for cv in curves() {
        let sub = format!("curve/{}/f32", cv.name);
        if ctx.wants(&sub) {
            // chunks over [0, 1] ords
            let span = (one - zero) as u64 + 1;
            let nch = 4096u64;
            let stride = ctx.tier.pick(64u32, 1u32);
            let cc = pv::par::run_chunks(nch as usize, |i, c| {
                let a = zero as u64 + span * i as u64 / nch;
                let b = zero as u64 + span * (i as u64 + 1) / nch; // overlap by one: pair across chunks
                walk_curve_f32(c, &cv, a as u32, (b as u32).min(one), stride, &sub);
            });
            total.merge(cc);
            total.exhaustive(&sub, true, if stride == 1 { "every f32 in [0,1], successor chain" } else { "every 64th f32 in [0,1] as a chain + complete windows at knees, 0 and 1" });
            // complete windows: ±2^16 ulps around knees, at 0 and at 1
            let mut centers = vec![0.0f32, 1.0];
            for k in [cv.tf.knee_linear(), cv.tf.knee_encoded()].into_iter().flatten() {
                centers.push(k as f32);
            }
            let subw = format!("curve-windows/{}/f32", cv.name);
            let cvv = cv;
            let cc = pv::par::run_chunks(centers.len(), |i, c| {
                let o = f32_to_ord(centers[i]);
                let a = o.saturating_sub(1 << 16).max(zero);
                let b = o.saturating_add(1 << 16).min(one);
                walk_curve_f32(c, &cvv, a, b, 1, &subw);
            });
            total.merge(cc);
            total.exhaustive(&subw, true, "every f32 within 2^16 ulps of each knee, of 0 and of 1");
        }
        let sub = format!("curve/{}/f64", cv.name);
        if ctx.wants(&sub) {
            let n: u64 = ctx.tier.pick(1 << 20, 1 << 24);
            let nch = 256u64;
            let cc = pv::par::run_chunks(nch as usize, |i, c| {
                let a = n * i as u64 / nch;
                let b = n * (i as u64 + 1) / nch;
                let xs: Vec<f64> = (a..=b).map(|k| k as f64 / n as f64).collect();
                walk_curve_f64(c, &cv, &xs, false, &sub);
            });
            total.merge(cc);
            total.exhaustive(&sub, true, &format!("{} equally spaced doubles in [0,1] as a chain", n + 1));
            let subw = format!("curve-windows/{}/f64", cv.name);
            let mut centers = vec![0.0f64, 1.0];
            for k in [cv.tf.knee_linear(), cv.tf.knee_encoded()].into_iter().flatten() {
                centers.push(k);
            }
            let mut c = Collector::new();
            for ctr in centers {
                let mut xs = vec![];
                let mut a = ctr;
                for _ in 0..4096 {
                    a = a.next_down();
                }
                for _ in 0..8193 {
                    if (0.0..=1.0).contains(&a) {
                        xs.push(a);
                    }
                    a = a.next_up();
                }
                walk_curve_f64(&mut c, &cv, &xs, true, &subw);
            }
            total.merge(c);
            total.exhaustive(&subw, true, "4096 consecutive doubles on each side of each knee, of 0 and of 1");
        }
    }
}

// ---------------------------------------------------------------------------------------
// Rgb / Luma wrappers agree bitwise with the component functions

/// a user-defined type-level gamma
pub struct F1p8;
impl palette::encoding::gamma::Number for F1p8 {
    const VALUE: f64 = 1.8;
}

fn check_wrappers(ctx: &Ctx, c: &mut Collector) {
    use palette::rgb::Rgb;
    let sub = "wrappers";
    if !ctx.wants(sub) {
        return;
    }
    let lat: Vec<f32> = pv::lattice::in_range::<f32>(0.0, 1.0, 9, &[0.04045, 0.0031308, 0.018053968510807, 4.5 * 0.018053968510807, 1.0 / 512.0, 1.0 / 32.0]);
    let mut n = 0u64;
    macro_rules! wrap {
        ($name:literal, $std:ty, $tf:ty) => {{
            for &r in &lat {
                for &g in &[lat[0], lat[lat.len() / 2], lat[lat.len() - 1]] {
                    let b = 1.0 - r;
                    // float -> float
                    let enc: Rgb<$std, f32> = Rgb::new(r, g, b);
                    let lin = enc.into_linear::<f32>();
                    let want = (
                        <$tf as IntoLinear<f32, f32>>::into_linear(r),
                        <$tf as IntoLinear<f32, f32>>::into_linear(g),
                        <$tf as IntoLinear<f32, f32>>::into_linear(b),
                    );
                    if (lin.red.to_bits(), lin.green.to_bits(), lin.blue.to_bits()) != (want.0.to_bits(), want.1.to_bits(), want.2.to_bits()) {
                        c.violation(&format!("C05/wrapper/{}/into_linear", $name), 1.0, || json!({"sub": "wrapper", "std": $name, "input": [hex32(r), hex32(g), hex32(b)], "observed": [lin.red, lin.green, lin.blue], "expected": [want.0, want.1, want.2]}));
                    }
                    let lin_in: Rgb<palette::encoding::Linear<<$std as palette::rgb::RgbStandard>::Space>, f32> = Rgb::new(r, g, b);
                    let e2: Rgb<$std, f32> = Rgb::from_linear(lin_in);
                    let want = (
                        <$tf as FromLinear<f32, f32>>::from_linear(r),
                        <$tf as FromLinear<f32, f32>>::from_linear(g),
                        <$tf as FromLinear<f32, f32>>::from_linear(b),
                    );
                    if (e2.red.to_bits(), e2.green.to_bits(), e2.blue.to_bits()) != (want.0.to_bits(), want.1.to_bits(), want.2.to_bits()) {
                        c.violation(&format!("C05/wrapper/{}/from_linear", $name), 1.0, || json!({"sub": "wrapper", "std": $name, "input": [hex32(r), hex32(g), hex32(b)], "observed": [e2.red, e2.green, e2.blue], "expected": [want.0, want.1, want.2]}));
                    }
                    // Linear<Space>::into_encoding == from_linear, from_encoding == into_linear
                    let re: Rgb<$std, f32> = lin_in.into_encoding::<f32, $std>();
                    if (re.red.to_bits(), re.green.to_bits(), re.blue.to_bits()) != (want.0.to_bits(), want.1.to_bits(), want.2.to_bits()) {
                        c.violation(&format!("C05/wrapper/{}/into_encoding", $name), 1.0, || json!({"sub": "wrapper", "std": $name, "input": [hex32(r), hex32(g), hex32(b)], "observed": [re.red, re.green, re.blue], "expected": [want.0, want.1, want.2]}));
                    }
                    let fe = Rgb::<palette::encoding::Linear<<$std as palette::rgb::RgbStandard>::Space>, f32>::from_encoding::<f32, $std>(enc);
                    if (fe.red.to_bits(), fe.green.to_bits(), fe.blue.to_bits()) != (lin.red.to_bits(), lin.green.to_bits(), lin.blue.to_bits()) {
                        c.violation(&format!("C05/wrapper/{}/from_encoding", $name), 1.0, || json!({"sub": "wrapper", "std": $name, "input": [hex32(r), hex32(g), hex32(b)], "observed": [fe.red, fe.green, fe.blue], "expected": [lin.red, lin.green, lin.blue]}));
                    }
                    n += 3;
                }
            }
        }};
    }
    // f64 Rgb and float Luma / Alpha wrappers: bitwise equal to the component functions
    macro_rules! wrap64 {
        ($name:literal, $std:ty, $tf:ty) => {{
            for &r32 in &lat {
                let (r, g, b) = (r32 as f64, (r32 as f64) * 0.5, 1.0 - r32 as f64);
                let enc: Rgb<$std, f64> = Rgb::new(r, g, b);
                let lin = enc.into_linear::<f64>();
                let want = [<$tf as IntoLinear<f64, f64>>::into_linear(r), <$tf as IntoLinear<f64, f64>>::into_linear(g), <$tf as IntoLinear<f64, f64>>::into_linear(b)];
                if [lin.red.to_bits(), lin.green.to_bits(), lin.blue.to_bits()] != [want[0].to_bits(), want[1].to_bits(), want[2].to_bits()] {
                    c.violation(&format!("C05/wrapper/{}/f64/into_linear", $name), 1.0, || json!({"sub": "wrapper", "std": $name, "input": [r, g, b], "observed": [lin.red, lin.green, lin.blue], "expected": want}));
                }
                let lin_in: Rgb<palette::encoding::Linear<<$std as palette::rgb::RgbStandard>::Space>, f64> = Rgb::new(r, g, b);
                let e2: Rgb<$std, f64> = Rgb::from_linear(lin_in);
                let want = [<$tf as FromLinear<f64, f64>>::from_linear(r), <$tf as FromLinear<f64, f64>>::from_linear(g), <$tf as FromLinear<f64, f64>>::from_linear(b)];
                if [e2.red.to_bits(), e2.green.to_bits(), e2.blue.to_bits()] != [want[0].to_bits(), want[1].to_bits(), want[2].to_bits()] {
                    c.violation(&format!("C05/wrapper/{}/f64/from_linear", $name), 1.0, || json!({"sub": "wrapper", "std": $name, "input": [r, g, b], "observed": [e2.red, e2.green, e2.blue], "expected": want}));
                }
                // Alpha wrapper: colour as above, alpha passed through untouched
                let ea: palette::Alpha<Rgb<$std, f32>, f32> = palette::Alpha { color: Rgb::new(r32, r32 * 0.5, 1.0 - r32), alpha: 0.3 };
                let la = ea.into_linear::<f32, f32>();
                let w32 = [<$tf as IntoLinear<f32, f32>>::into_linear(r32), <$tf as IntoLinear<f32, f32>>::into_linear(r32 * 0.5), <$tf as IntoLinear<f32, f32>>::into_linear(1.0 - r32)];
                if [la.color.red.to_bits(), la.color.green.to_bits(), la.color.blue.to_bits()] != [w32[0].to_bits(), w32[1].to_bits(), w32[2].to_bits()] || la.alpha.to_bits() != 0.3f32.to_bits() {
                    c.violation(&format!("C05/wrapper/{}/alpha/into_linear", $name), 1.0, || json!({"sub": "wrapper", "std": $name, "input": [hex32(r32)], "observed": [la.color.red, la.color.green, la.color.blue, la.alpha], "expected": [w32[0], w32[1], w32[2], 0.3]}));
                }
                let back = palette::Alpha::<Rgb<$std, f32>, f32>::from_linear(la);
                let w2 = [<$tf as FromLinear<f32, f32>>::from_linear(w32[0]), <$tf as FromLinear<f32, f32>>::from_linear(w32[1]), <$tf as FromLinear<f32, f32>>::from_linear(w32[2])];
                if [back.color.red.to_bits(), back.color.green.to_bits(), back.color.blue.to_bits()] != [w2[0].to_bits(), w2[1].to_bits(), w2[2].to_bits()] || back.alpha.to_bits() != 0.3f32.to_bits() {
                    c.violation(&format!("C05/wrapper/{}/alpha/from_linear", $name), 1.0, || json!({"sub": "wrapper", "std": $name, "input": [hex32(r32)], "observed": [back.color.red, back.color.green, back.color.blue, back.alpha], "expected": [w2[0], w2[1], w2[2], 0.3]}));
                }
                n += 4;
            }
        }};
    }
    macro_rules! wrap_luma {
        ($name:literal, $std:ty, $tf:ty) => {{
            use palette::luma::Luma;
            for &l in &lat {
                let enc: Luma<$std, f32> = Luma::new(l);
                let lin = enc.into_linear::<f32>();
                let want = <$tf as IntoLinear<f32, f32>>::into_linear(l);
                if lin.luma.to_bits() != want.to_bits() {
                    c.violation(&format!("C05/wrapper/Luma<{}>/into_linear", $name), 1.0, || json!({"sub": "wrapper", "std": $name, "input": [hex32(l)], "observed": lin.luma, "expected": want}));
                }
                let lin_in: Luma<palette::encoding::Linear<<$std as palette::luma::LumaStandard>::WhitePoint>, f32> = Luma::new(l);
                let e2: Luma<$std, f32> = Luma::from_linear(lin_in);
                let want2 = <$tf as FromLinear<f32, f32>>::from_linear(l);
                if e2.luma.to_bits() != want2.to_bits() {
                    c.violation(&format!("C05/wrapper/Luma<{}>/from_linear", $name), 1.0, || json!({"sub": "wrapper", "std": $name, "input": [hex32(l)], "observed": e2.luma, "expected": want2}));
                }
                let re: Luma<$std, f32> = lin_in.into_encoding::<f32, $std>();
                if re.luma.to_bits() != want2.to_bits() {
                    c.violation(&format!("C05/wrapper/Luma<{}>/into_encoding", $name), 1.0, || json!({"sub": "wrapper", "std": $name, "input": [hex32(l)], "observed": re.luma, "expected": want2}));
                }
                let fe = Luma::<palette::encoding::Linear<<$std as palette::luma::LumaStandard>::WhitePoint>, f32>::from_encoding::<f32, $std>(enc);
                if fe.luma.to_bits() != want.to_bits() {
                    c.violation(&format!("C05/wrapper/Luma<{}>/from_encoding", $name), 1.0, || json!({"sub": "wrapper", "std": $name, "input": [hex32(l)], "observed": fe.luma, "expected": want}));
                }
                let l64 = l as f64;
                let enc64: Luma<$std, f64> = Luma::new(l64);
                let lin64 = enc64.into_linear::<f64>();
                let want64 = <$tf as IntoLinear<f64, f64>>::into_linear(l64);
                if lin64.luma.to_bits() != want64.to_bits() {
                    c.violation(&format!("C05/wrapper/Luma<{}>/f64/into_linear", $name), 1.0, || json!({"sub": "wrapper", "std": $name, "input": [l64], "observed": lin64.luma, "expected": want64}));
                }
                n += 5;
            }
        }};
    }
    wrap64!("Srgb", encoding::Srgb, encoding::Srgb);
    wrap64!("Rec2020", encoding::Rec2020, encoding::RecOetf);
    wrap64!("AdobeRgb", encoding::AdobeRgb, encoding::AdobeRgb);
    wrap64!("DciP3", encoding::DciP3, encoding::P3Gamma);
    wrap64!("ProPhotoRgb", encoding::ProPhotoRgb, encoding::ProPhotoRgb);
    wrap_luma!("Srgb", encoding::Srgb, encoding::Srgb);
    wrap_luma!("Rec709", encoding::Rec709, encoding::RecOetf);
    wrap_luma!("AdobeRgb", encoding::AdobeRgb, encoding::AdobeRgb);
    wrap_luma!("DciP3", encoding::DciP3, encoding::P3Gamma);
    wrap_luma!("ProPhotoRgb", encoding::ProPhotoRgb, encoding::ProPhotoRgb);
    wrap_luma!("Rec2020", encoding::Rec2020, encoding::RecOetf);
    wrap_luma!("DisplayP3", encoding::DisplayP3, encoding::Srgb);
    wrap_luma!("DciP3Plus", encoding::DciP3Plus<encoding::P3Gamma>, encoding::P3Gamma);
    wrap!("Srgb", encoding::Srgb, encoding::Srgb);
    wrap!("Rec709", encoding::Rec709, encoding::RecOetf);
    wrap!("Rec2020", encoding::Rec2020, encoding::RecOetf);
    wrap!("AdobeRgb", encoding::AdobeRgb, encoding::AdobeRgb);
    wrap!("DisplayP3", encoding::DisplayP3, encoding::Srgb);
    wrap!("DciP3", encoding::DciP3, encoding::P3Gamma);
    wrap!("ProPhotoRgb", encoding::ProPhotoRgb, encoding::ProPhotoRgb);
    // standards assembled from parts: Gamma<Space, N>, tuple standards (Space, TransferFn) and (Primaries, WhitePoint, TransferFn)
    {
        use palette::encoding::gamma::{F2p2, GammaFn};
        use palette::white_point::{D50, D65};
        wrap!("Gamma<Srgb>", encoding::Gamma<encoding::Srgb, F2p2>, GammaFn<F2p2>);
        wrap64!("Gamma<Srgb>", encoding::Gamma<encoding::Srgb, F2p2>, GammaFn<F2p2>);
        wrap_luma!("Gamma<D65>", encoding::Gamma<D65, F2p2>, GammaFn<F2p2>);
        // a user-defined gamma (the type-level number is a trait anyone may implement)
        wrap!("Gamma<Srgb,1.8>", encoding::Gamma<encoding::Srgb, F1p8>, GammaFn<F1p8>);
        wrap64!("Gamma<Srgb,1.8>", encoding::Gamma<encoding::Srgb, F1p8>, GammaFn<F1p8>);
        wrap_luma!("Gamma<D65,1.8>", encoding::Gamma<D65, F1p8>, GammaFn<F1p8>);
        wrap_luma!("Gamma<D50,1.8>", encoding::Gamma<D50, F1p8>, GammaFn<F1p8>);
        wrap!("(Srgb,RecOetf)", (encoding::Srgb, encoding::RecOetf), encoding::RecOetf);
        wrap64!("(Rec2020,Srgb)", (encoding::Rec2020, encoding::Srgb), encoding::Srgb);
        wrap!("(AdobeRgb,D50,ProPhotoRgb)", (encoding::AdobeRgb, D50, encoding::ProPhotoRgb), encoding::ProPhotoRgb);
        wrap64!("(Srgb,D65,P3Gamma)", (encoding::Srgb, D65, encoding::P3Gamma), encoding::P3Gamma);
        wrap_luma!("(D50,Srgb)", (D50, encoding::Srgb), encoding::Srgb);
    }
    // integer forms: Srgb<u8> <-> LinSrgb<f32> uses the table functions, all 256 codes per channel
    for v in 0..=255u8 {
        let s: Srgb<u8> = Srgb::new(v, 255 - v, v / 2);
        let l: LinSrgb<f32> = s.into_linear();
        let want = [
            <encoding::Srgb as IntoLinear<f32, u8>>::into_linear(v),
            <encoding::Srgb as IntoLinear<f32, u8>>::into_linear(255 - v),
            <encoding::Srgb as IntoLinear<f32, u8>>::into_linear(v / 2),
        ];
        if [l.red.to_bits(), l.green.to_bits(), l.blue.to_bits()] != [want[0].to_bits(), want[1].to_bits(), want[2].to_bits()] {
            c.violation("C05/wrapper/Srgb-u8/into_linear", 1.0, || json!({"sub": "wrapper-u8", "input": [v, 255 - v, v / 2], "observed": [l.red, l.green, l.blue], "expected": want}));
        }
        let back: Srgb<u8> = match pv::catch(|| Srgb::from_linear(l)) {
            Ok(b) => b,
            Err(msg) => {
                c.violation("C05/wrapper/Srgb-u8/from_linear-panic", 1.0, || json!({"sub": "wrapper-u8", "input": [v, 255 - v, v / 2], "observed": {"panic": msg}, "expected": "no panic"}));
                Srgb::new(v, 255 - v, v / 2)
            }
        };
        if (back.red, back.green, back.blue) != (v, 255 - v, v / 2) {
            c.violation("C05/wrapper/Srgb-u8/from_linear", 1.0, || json!({"sub": "wrapper-u8", "input": [v, 255 - v, v / 2], "observed": [back.red, back.green, back.blue], "expected": [v, 255 - v, v / 2]}));
        }
        let lu: palette::SrgbLuma<u8> = palette::SrgbLuma::new(v);
        let ll: palette::LinLuma<palette::white_point::D65, f32> = lu.into_linear();
        if ll.luma.to_bits() != want[0].to_bits() {
            c.violation("C05/wrapper/SrgbLuma-u8/into_linear", 1.0, || json!({"sub": "wrapper-u8", "input": v, "observed": ll.luma, "expected": want[0]}));
        }
        let lb: palette::SrgbLuma<u8> = pv::catch(|| palette::SrgbLuma::from_linear(ll)).unwrap_or(palette::SrgbLuma::new(v.wrapping_add(1)));
        if lb.luma != v {
            c.violation("C05/wrapper/SrgbLuma-u8/from_linear", 1.0, || json!({"sub": "wrapper-u8", "input": v, "observed": lb.luma, "expected": v}));
        }
        n += 4;
    }
    c.add(sub, n, n, n, n);
    c.exhaustive(sub, true, "component lattice (incl. all knees ± ulp) × 7 standards; all 256 u8 codes for the Srgb<u8>/SrgbLuma<u8> wrappers");
}

fn replay(c: &mut Collector, rep: &Value) {
    let case = &rep["case"];
    let sub = case["sub"].as_str().unwrap_or("");
    let parse_hex = |v: &Value| -> u64 { u64::from_str_radix(v.as_str().unwrap_or("0x0").trim_start_matches("0x"), 16).unwrap_or(0) };
    match sub {
        "enc-point" => {
            let e = enc_by_name(case["enc"].as_str().unwrap());
            let ty = case["ty"].as_str().unwrap();
            let ty = if ty == "f32" { "f32" } else { "f64" };
            check_enc_point(c, &e, ty, parse_hex(&case["input"]));
        }
        "enc-pair" => {
            let e = enc_by_name(case["enc"].as_str().unwrap());
            let ty = case["ty"].as_str().unwrap();
            let a = f32::from_bits(parse_hex(&case["input"]["x_prev"]) as u32);
            let b = f32::from_bits(parse_hex(&case["input"]["x"]) as u32);
            let (ca, cb) = if ty == "f32" { ((e.f32_enc)(a), (e.f32_enc)(b)) } else { ((e.f64_enc)(a as f64), (e.f64_enc)(b as f64)) };
            println!("code({a:e}) = {ca}, code({b:e}) = {cb}");
            if cb < ca {
                c.violation(&format!("C05/monotone/{}/{}/{}", e.name, ty, class_of(b as f64)), (ca - cb) as f64, || case.clone());
            }
        }
        "dec" => {
            let e = enc_by_name(case["enc"].as_str().unwrap());
            let ctx = Ctx::from_args("C05").0;
            check_decoders(&ctx, c, &e);
        }
        "curve-point" | "curve-inverse" | "curve-pair" => {
            let cv = curve_by_name(case["curve"].as_str().unwrap());
            let ty = case["ty"].as_str().unwrap();
            let inputs: Vec<u64> = match &case["input"] {
                Value::Array(a) => a.iter().map(parse_hex).collect(),
                v => vec![parse_hex(v)],
            };
            if ty == "f32" {
                let a = f32_to_ord(f32::from_bits(inputs[0] as u32));
                let b = f32_to_ord(f32::from_bits(*inputs.last().unwrap() as u32));
                walk_curve_f32(c, &cv, a, b, 1, "replay");
            } else {
                let xs: Vec<f64> = inputs.iter().map(|b| f64::from_bits(*b)).collect();
                walk_curve_f64(c, &cv, &xs, true, "replay");
            }
        }
        _ => {
            let ctx = Ctx::from_args("C05").0;
            check_wrappers(&ctx, c);
        }
    }
}

fn main() {
    pv::main_guard(real_main)
}

fn real_main() -> i32 {
    let (ctx, mode) = Ctx::from_args("C05");
    if let Mode::Replay(rep) = mode {
        let mut c = Collector::new();
        replay(&mut c, &rep);
        return ctx.finish_replay(c);
    }
    let mut total = Collector::new();
    for e in encoders() {
        walk_encoder(&ctx, &mut total, &e, "f32");
        walk_encoder(&ctx, &mut total, &e, "f64");
        check_decoders(&ctx, &mut total, &e);
    }
    check_curves(&ctx, &mut total);
    check_wrappers(&ctx, &mut total);
    let _ = Tier::Quick;
    let code = ctx.finish(
        total,
        "model_checking",
        "states = float bit patterns / codes walked in numeric order (complete 2^32 f32 space per integer encoder, as f32 and widened to f64; every code per decoder; f32/f64 chains for the generic curves); non-trivial = inputs strictly between the first non-zero code and 1.0 (table path) resp. all curve points",
        &[
            "x86-64 libm powf/pow used by the f64 closed-form reference is accurate to < 1e-13 relative",
            "hook cfg(palette_verif) turns an out-of-range table index into a panic (observed via catch_unwind)",
            "f64 inputs to the integer encoders are explored on every f32-representable double and 51 doubles around every code transition; other doubles round to one of these f32s by the implementation's `as f32`",
        ],
    );
    code
}
