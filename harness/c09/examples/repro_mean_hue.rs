// Reproduces the C09 finding: CIEDE2000 mean hue for |Δh'| > 180° and h1' + h2' >= 360°.
// cargo run --release --offline -p c09 --example repro_mean_hue
use palette::{color_difference::Ciede2000, white_point::D65, Lab};
fn main() {
    let x: Lab<D65, f64> = Lab::new(25.0, 0.002, -10.0); // h1' = 270.0115°
    let y: Lab<D65, f64> = Lab::new(25.0, 0.0, 150.0); //   h2' =  90°: |Δh'| = 180.0115 > 180, Σ = 360.0115 >= 360
    // Sharma, Wu, Dalal eq. (14): h̄' = (Σ − 360)/2 = 0.0057°; palette uses (Σ + 360)/2 = 360.0057°, and
    // Δθ = 30·exp(−((h̄' − 275)/25)²) is not 360°-periodic (2.9e-4° instead of ~0°)
    println!("palette  ΔE00 = {:.10}", x.difference(y));
    println!("Sharma   ΔE00 = 42.7172466370 (eqs. 2-22 of the paper in f64: `c09 --replay` prints it; differs by 2.1e-4)");
}
