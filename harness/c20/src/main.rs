fn main() {
    eprintln!("C20: check not built yet");
    std::process::exit(3);
}
