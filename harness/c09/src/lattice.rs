//! Colour lattices of DESIGN §4 C09. All values are computed in f64 and rounded once to T; the
//! T-rounded colour is *the* input (references always start from `to64` of it).
use crate::oracle::sincos_deg;
use crate::subject::Space;
use pv::fl::Fl;
use pv::Tier;

/// Hue lattice in degrees: a uniform step, and the four axes (where a' or b changes sign, where
/// h' wraps at 0/360 and where atan2 switches quadrant) approached from both sides at two
/// distances: 1e-2° (resolved by f32) and 1e-5° (resolved by f64 only).
pub fn hues(tier: Tier) -> Vec<f64> {
    let step = tier.pick(10.0, 2.0);
    let mut v = vec![];
    let mut h = 0.0;
    while h < 360.0 {
        v.push(h);
        h += step;
    }
    for e in [1e-2, 1e-5] {
        v.extend([e, 90.0 - e, 90.0 + e, 180.0 - e, 180.0 + e, 270.0 - e, 270.0 + e, 360.0 - e]);
    }
    v
}

/// Hues outside [0, 360) for the polar types (the hue type accepts any real).
pub const EXTRA_POLAR_HUES: [f64; 8] = [-180.0, -10.0, 360.0, 370.0, 720.0, -30.0, -36.0, 36.0];

pub struct Spec {
    pub ls: &'static [f64],
    pub cs: &'static [f64],
    pub cart: &'static [f64],
}

pub fn spec(space: Space) -> Spec {
    match space.rect() {
        Space::Lab => Spec { ls: &[0.0, 1.0, 25.0, 50.0, 75.0, 99.0, 100.0], cs: &[0.0, 1e-6, 1.0, 10.0, 50.0, 100.0, 150.0], cart: &[-128.0, -50.0, -1e-6, 0.0, 1e-6, 50.0, 127.0] },
        Space::Luv => Spec { ls: &[0.0, 50.0, 100.0], cs: &[0.0, 1e-6, 10.0, 100.0, 180.0], cart: &[-134.0, -1e-6, 0.0, 1e-6, 175.0] },
        Space::Oklab => Spec { ls: &[0.0, 0.5, 1.0], cs: &[0.0, 1e-6, 0.05, 0.2, 0.4], cart: &[-0.4, -1e-6, 0.0, 1e-6, 0.4] },
        Space::Jab => Spec { ls: &[0.0, 1.0, 50.0, 100.0], cs: &[0.0, 1e-6, 1.0, 10.0, 50.0], cart: &[-50.0, -1e-6, 0.0, 1e-6, 50.0] },
        _ => Spec { ls: &[], cs: &[], cart: &[] },
    }
}

fn dedup_keep_order<T: Fl>(v: Vec<[T; 3]>) -> Vec<[T; 3]> {
    let mut seen = std::collections::BTreeSet::new();
    v.into_iter().filter(|p| seen.insert([p[0].bits64(), p[1].bits64(), p[2].bits64()])).collect()
}

/// Rectangular colours (L, a, b): polar product ∪ cartesian product, simplest first.
pub fn rect_lattice<T: Fl>(space: Space, tier: Tier) -> Vec<[T; 3]> {
    let sp = spec(space);
    let hs = hues(tier);
    let mut v = vec![];
    let f = T::from64;
    for &l in sp.ls {
        for &c in sp.cs {
            if c == 0.0 {
                v.push([f(l), f(0.0), f(0.0)]);
                continue;
            }
            for &h in &hs {
                let (s, co) = sincos_deg(h);
                // + 0.0 turns a −0.0 product into +0.0 (the sign of zero is not part of the lattice)
                v.push([f(l), f(c * co + 0.0), f(c * s + 0.0)]);
            }
        }
    }
    for &l in sp.ls {
        for &a in sp.cart {
            for &b in sp.cart {
                v.push([f(l), f(a), f(b)]);
            }
        }
    }
    // exact mirror pairs about +a* with chroma ratios 2, 4, 8 (Σ h' = 360° exactly, see checks::exact_mirror)
    if space.rect() == Space::Lab {
        for &l in sp.ls {
            for (a, b) in [(40.0, 30.0), (20.0, -15.0), (10.0, 7.5), (5.0, -3.75), (64.0, 3.0), (16.0, -0.75), (3.0, 88.0), (1.5, -44.0)] {
                v.push([f(l), f(a), f(b)]);
            }
        }
    }
    dedup_keep_order(v)
}

/// Polar colours (L, C, h°) for Lch / Cam16UcsJmh; zero chroma with two different hues.
pub fn polar_lattice<T: Fl>(space: Space, tier: Tier) -> Vec<[T; 3]> {
    let sp = spec(space);
    let mut hs = hues(tier);
    hs.extend(EXTRA_POLAR_HUES);
    let mut v = vec![];
    let f = T::from64;
    for &l in sp.ls {
        for &c in sp.cs {
            if c == 0.0 {
                v.push([f(l), f(0.0), f(0.0)]);
                v.push([f(l), f(0.0), f(90.0)]);
                continue;
            }
            for &h in &hs {
                v.push([f(l), f(c), f(h)]);
            }
        }
    }
    dedup_keep_order(v)
}

/// Unit-cube lattice for the tristimulus-like spaces (Euclidean distance only).
pub fn cube_lattice<T: Fl>() -> Vec<[T; 3]> {
    let k = [0.0, 1e-6, 0.25, 0.5, 0.75, 1.0];
    let mut v = vec![];
    for a in k {
        for b in k {
            for c in k {
                v.push([T::from64(a), T::from64(b), T::from64(c)]);
            }
        }
    }
    v
}

/// u8 levels of the n-per-axis sRGB grid (9: quick, 17: thorough).
pub fn grid_levels(n: usize) -> Vec<u8> {
    (0..n).map(|i| ((i * 255) as f64 / (n - 1) as f64).round() as u8).collect()
}
