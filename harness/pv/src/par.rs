//! Deterministic parallel execution: the space is split in `n` chunks, chunks are handed to
//! worker threads dynamically, results are merged in *chunk order*, so the outcome does not
//! depend on the scheduling of the checker's own threads.
use crate::report::Collector;
use std::sync::atomic::{AtomicUsize, Ordering};
use std::sync::Mutex;

pub fn threads() -> usize {
    std::env::var("VERIF_THREADS")
        .ok()
        .and_then(|s| s.parse().ok())
        .unwrap_or_else(|| std::thread::available_parallelism().map(|n| n.get()).unwrap_or(4))
}

pub fn run_chunks<F>(n: usize, f: F) -> Collector
where
    F: Fn(usize, &mut Collector) + Sync,
{
    let next = AtomicUsize::new(0);
    let results: Mutex<Vec<Option<Collector>>> = Mutex::new((0..n).map(|_| None).collect());
    let nt = threads().min(n.max(1));
    std::thread::scope(|s| {
        for _ in 0..nt {
            s.spawn(|| loop {
                let i = next.fetch_add(1, Ordering::Relaxed);
                if i >= n {
                    break;
                }
                let mut c = Collector::new();
                f(i, &mut c);
                results.lock().unwrap()[i] = Some(c);
            });
        }
    });
    let mut total = Collector::new();
    for r in results.into_inner().unwrap() {
        total.merge(r.expect("chunk not executed"));
    }
    total
}

/// Like run_chunks but each chunk returns a value too (merged in order by the caller).
pub fn map_chunks<T: Send, F>(n: usize, f: F) -> Vec<T>
where
    F: Fn(usize) -> T + Sync,
{
    let next = AtomicUsize::new(0);
    let results: Mutex<Vec<Option<T>>> = Mutex::new((0..n).map(|_| None).collect());
    let nt = threads().min(n.max(1));
    std::thread::scope(|s| {
        for _ in 0..nt {
            s.spawn(|| loop {
                let i = next.fetch_add(1, Ordering::Relaxed);
                if i >= n {
                    break;
                }
                let v = f(i);
                results.lock().unwrap()[i] = Some(v);
            });
        }
    });
    results.into_inner().unwrap().into_iter().map(|r| r.expect("chunk not executed")).collect()
}
